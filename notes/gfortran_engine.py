"""Triage helper (NOT part of any check): a gfortran-backed stand-in for the f2py module, written by a seeding
sub-agent for its C07 demos; kept to confirm Fortran-side findings by hand.  Usage: build_pair(script) -> (PythonClass, FortranClass)."""
import os, sys
sys.path.insert(0, os.environ.get('FSIC_SRC', os.getcwd()))

# --- common harness: compile the generated Fortran with gfortran and drive it
# --- through fsic.fortran.FortranEngine with a subprocess-backed ENGINE object
import shutil
import subprocess
import tempfile

import numpy as np

import fsic
import fsic.fortran

DRIVER = '''
program driver
  implicit none
  integer :: mode, nrows, ncols, nvars, nperiods
  integer :: t, min_iter, max_iter, offset, failure_control, error_control
  real(8) :: tol
  real(8), allocatable :: v(:, :), res(:, :)
  integer, allocatable :: cv(:), idx(:), iters(:), codes(:)
  logical, allocatable :: conv(:)
  logical :: converged
  integer :: iteration, error_code, i, j

  read(*, *) mode, nrows, ncols
  allocate(v(nrows, ncols), res(nrows, ncols))
  read(*, *) ((v(i, j), j = 1, ncols), i = 1, nrows)

  if(mode == 1) then
     read(*, *) t
     call evaluate(v, t, res, error_code, nrows, ncols)
     write(*, '(I0)') error_code

  else if(mode == 2) then
     read(*, *) t, min_iter, max_iter, tol, offset, error_control, nvars
     allocate(cv(nvars))
     if(nvars > 0) read(*, *) cv
     iteration = -99
     call solve_t(v, t, min_iter, max_iter, tol, offset, cv, error_control,  &
               &  res, converged, iteration, error_code, nrows, ncols, nvars)
     write(*, '(L1, 1X, I0, 1X, I0)') converged, iteration, error_code

  else
     read(*, *) min_iter, max_iter, tol, offset, failure_control, error_control, nvars, nperiods
     allocate(cv(nvars), idx(nperiods), conv(nperiods), iters(nperiods), codes(nperiods))
     if(nvars > 0) read(*, *) cv
     if(nperiods > 0) read(*, *) idx
     call solve(v, idx, min_iter, max_iter, tol, offset, cv, failure_control, error_control,  &
             &  res, conv, iters, codes, nrows, ncols, nvars, nperiods)
     do i = 1, nperiods
        write(*, '(L1, 1X, I0, 1X, I0)') conv(i), iters(i), codes(i)
     end do
  end if

  do i = 1, nrows
     do j = 1, ncols
        write(*, '(ES30.20E3)') res(i, j)
     end do
  end do
end program driver
'''


class GfortranEngine:
    """Stand-in for the f2py module: same call signatures, runs a gfortran binary."""

    def __init__(self, fortran_source):
        if shutil.which('gfortran') is None:
            raise RuntimeError('gfortran not found')
        self.dir = tempfile.mkdtemp(prefix='fsic_c07_')
        with open(os.path.join(self.dir, 'model.f90'), 'w') as f:
            f.write(fortran_source)
        with open(os.path.join(self.dir, 'driver.f90'), 'w') as f:
            f.write(DRIVER)
        self.exe = os.path.join(self.dir, 'driver')
        p = subprocess.run(
            ['gfortran', '-O0', '-w', '-o', self.exe, 'model.f90', 'driver.f90'],
            cwd=self.dir, capture_output=True, text=True)
        assert p.returncode == 0, 'generated Fortran failed to compile:\n' + p.stderr

    def _run(self, values, header, lines):
        values = np.asarray(values, dtype=float)
        nrows, ncols = values.shape
        text = [f'{header} {nrows} {ncols}']
        text.append(' '.join(repr(float(x)) for x in values.ravel()) or ' ')
        text.extend(lines)
        p = subprocess.run([self.exe], input='\n'.join(text) + '\n',
                           capture_output=True, text=True)
        assert p.returncode == 0, 'driver failed:\n' + p.stdout + p.stderr
        return p.stdout.split('\n'), (nrows, ncols)

    @staticmethod
    def _values(lines, shape):
        flat = [float(x) for x in lines if x.strip()]
        return np.array(flat, dtype=float).reshape(shape)

    def evaluate(self, values, t):
        out, shape = self._run(values, 1, [str(int(t))])
        return self._values(out[1:], shape), int(out[0])

    def solve_t(self, values, t, min_iter, max_iter, tol, offset, cv, error_control):
        cv = list(cv)
        out, shape = self._run(values, 2, [
            f'{int(t)} {int(min_iter)} {int(max_iter)} {float(tol)!r} {int(offset)} {int(error_control)} {len(cv)}',
            ' '.join(map(str, cv)) or ' '])
        c, i, e = out[0].split()
        return self._values(out[1:], shape), c == 'T', int(i), int(e)

    def solve(self, values, indexes, min_iter, max_iter, tol, offset, cv, failure_control, error_control):
        cv, indexes = list(cv), list(indexes)
        out, shape = self._run(values, 3, [
            f'{int(min_iter)} {int(max_iter)} {float(tol)!r} {int(offset)} {int(failure_control)} {int(error_control)} {len(cv)} {len(indexes)}',
            ' '.join(map(str, cv)) or ' ',
            ' '.join(map(str, indexes)) or ' '])
        n = len(indexes)
        rows = [x.split() for x in out[:n]]
        return (self._values(out[n:], shape),
                [r[0] == 'T' for r in rows],
                [int(r[1]) for r in rows],
                [int(r[2]) for r in rows])


def build_pair(script, **options):
    """Return (PythonClass, FortranClass) built from the same symbols/options."""
    symbols = fsic.parse_model(script)
    PythonClass = fsic.build_model(symbols, **options)
    source = fsic.fortran.build_fortran_definition(symbols, **options)

    class FortranClass(fsic.fortran.FortranEngine, PythonClass):
        ENGINE = GfortranEngine(source)

    return PythonClass, FortranClass


