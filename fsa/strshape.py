"""String-shape abstract domain: a string expression is summarised as a
sequence of literal pieces and symbolic pieces (`str(<expr>)`).

Accepted constructors: literals, f-strings without format specs, `+`,
`str(x)`, `'...{}...'.format(a, b)` with auto-numbered fields, names resolved
through a caller-supplied environment.  Anything else raises `Unknown`
(-> INCONCLUSIVE), never a violation.
"""

from __future__ import annotations

import ast
import string
from typing import Callable, Dict, List, Optional, Tuple

from .match import Unknown, dotted
from .source import text

Part = Tuple[str, str]  # ('lit', s) | ('sym', normalised text)


def norm(parts: List[Part]) -> List[Part]:
    out: List[Part] = []
    for k, v in parts:
        if k == 'lit':
            if not v:
                continue
            if out and out[-1][0] == 'lit':
                out[-1] = ('lit', out[-1][1] + v)
                continue
        out.append((k, v))
    return out


def shape(e: ast.AST, env: Optional[Callable[[str], Optional[List[Part]]]] = None) -> List[Part]:
    if isinstance(e, ast.Constant) and isinstance(e.value, str):
        return norm([('lit', e.value)])
    if isinstance(e, ast.JoinedStr):
        parts: List[Part] = []
        for v in e.values:
            if isinstance(v, ast.Constant):
                parts.append(('lit', str(v.value)))
            elif isinstance(v, ast.FormattedValue):
                if v.format_spec is not None or v.conversion not in (-1, 115):
                    raise Unknown(f'format spec / conversion in f-string `{text(e)}`')
                parts += shape_of_value(v.value, env)
            else:
                raise Unknown('f-string part')
        return norm(parts)
    if isinstance(e, ast.BinOp) and isinstance(e.op, ast.Add):
        return norm(shape(e.left, env) + shape(e.right, env))
    if isinstance(e, ast.BinOp) and isinstance(e.op, ast.Mod):
        raise Unknown(f'%-formatting `{text(e)}`')
    if isinstance(e, ast.Call) and dotted(e.func) == 'str' and len(e.args) == 1:
        return shape_of_value(e.args[0], env)
    if isinstance(e, ast.Call) and isinstance(e.func, ast.Attribute) and e.func.attr == 'format' \
            and isinstance(e.func.value, ast.Constant) and isinstance(e.func.value.value, str):
        fmt = e.func.value.value
        parts = []
        auto = 0
        try:
            fields = list(string.Formatter().parse(fmt))
        except ValueError:
            raise Unknown('malformed format string') from None
        for lit, field, spec, conv in fields:
            parts.append(('lit', lit))
            if field is None:
                continue
            if spec or conv:
                raise Unknown('format spec in str.format')
            if field == '':
                idx = auto
                auto += 1
            elif field.isdigit():
                idx = int(field)
            else:
                kw = [k for k in e.keywords if k.arg == field]
                if not kw:
                    raise Unknown(f'format field {field!r}')
                parts += shape_of_value(kw[0].value, env)
                continue
            if idx >= len(e.args):
                raise Unknown('format index out of range')
            parts += shape_of_value(e.args[idx], env)
        return norm(parts)
    if isinstance(e, ast.Name) and env is not None:
        r = env(e.id)
        if r is not None:
            return r
    return shape_of_value(e, env)


def shape_of_value(v: ast.AST, env=None) -> List[Part]:
    """Shape of `str(v)`"""
    if isinstance(v, ast.Constant):
        return norm([('lit', str(v.value))])
    if isinstance(v, (ast.JoinedStr,)) or (isinstance(v, ast.BinOp) and isinstance(v.op, ast.Add) and _stringy(v)):
        return shape(v, env)
    if isinstance(v, ast.Call) and dotted(v.func) == 'str' and len(v.args) == 1:
        return shape_of_value(v.args[0], env)
    if isinstance(v, ast.Name) and env is not None:
        r = env(v.id)
        if r is not None:
            return r
    return [('sym', text(v))]


def _stringy(e: ast.AST) -> bool:
    for n in ast.walk(e):
        if isinstance(n, (ast.JoinedStr,)) or (isinstance(n, ast.Constant) and isinstance(n.value, str)):
            return True
    return False


def show(parts: List[Part]) -> str:
    return ''.join(v if k == 'lit' else '<' + v + '>' for k, v in parts)
