"""fsa - repository-specific static analysis engine for ChrisThoung/fsic.

Stdlib only.  Never imports or executes `fsic`: every fact is computed from the
source text of the tree under analysis (default `/repo`, override with the
environment variable FSIC_REPO, used by the self-test on scratch copies).
"""
