"""Thorough tier: the rules' wrapper/forwarding obligations re-evaluated over
every mixin composition `class _(M1, ..., Mk, Base)` (ordered selections of
k <= 3 mixins; compositions Python itself would reject are skipped).

For each composition the C3 MRO is computed from the class statements, and for
every `super().m(...)` call in every class of the MRO:
  * the next provider of `m` along the MRO must exist (or be an attribute every
    `object` has), and
  * it must accept the call: each keyword is a named parameter or absorbed by
    `**kwargs`; the positional count fits (or `*args`).
"""

from __future__ import annotations

import ast
import itertools
from typing import Dict, Iterator, List, Optional, Tuple

from .match import is_super_call
from .source import CORE_CLASSES, FunctionInfo, Repo, Unsupported, c3_mro, iter_own_nodes, resolve_method, text

MODEL_MIXINS = ['AliasMixin', 'TracerMixin', 'PandasIndexFeaturesMixin', 'ProgressBarMixin', 'FortranEngine']
LINKER_MIXINS = ['AliasMixin', 'ProgressBarMixin']
OBJECT_ATTRS = set(dir(object))


def compositions(repo: Repo, max_k: int = 3) -> Iterator[Tuple[Tuple[str, ...], str, List[str]]]:
    for base, mixins in (('BaseModel', MODEL_MIXINS), ('BaseLinker', LINKER_MIXINS)):
        for k in range(0, max_k + 1):
            for sel in itertools.permutations(mixins, k):
                bases = [CORE_CLASSES[m] for m in sel] + [CORE_CLASSES[base]]
                try:
                    mro = c3_mro(repo, '', extra_bases=bases)
                except Unsupported:
                    continue
                yield (sel, base, mro)


def super_calls(fi: FunctionInfo) -> List[ast.Call]:
    return [n for n in ast.walk(fi.node) if is_super_call(n)]


def accepts(provider: FunctionInfo, call: ast.Call) -> Optional[str]:
    a = provider.node.args
    pos = [p.arg for p in a.posonlyargs + a.args][1:]  # drop self
    kwonly = [p.arg for p in a.kwonlyargs]
    npos = sum(1 for x in call.args if not isinstance(x, ast.Starred))
    if npos > len(pos) and a.vararg is None:
        return f'{npos} positional argument(s) but `{provider.qualname.split(".")[-2]}.{provider.name}` takes {len(pos)}'
    for k in call.keywords:
        if k.arg is None:
            continue
        if k.arg in pos or k.arg in kwonly or a.kwarg is not None:
            continue
        return f'keyword `{k.arg}=` is not accepted by `{provider.qualname.split(".")[-2]}.{provider.name}`'
    return None


def check_composition(repo: Repo, mro: List[str]) -> List[Tuple[str, str, str]]:
    """(class.method, callee name, problem) for each broken super() link."""
    out = []
    for c in mro:
        for q, fi in repo.functions.items():
            if not q.startswith(c + '.') or fi.parent is not None or fi.cls is None or fi.cls.qualname != c:
                continue
            for call in super_calls(fi):
                m = call.func.attr
                prov = resolve_method(repo, mro, m, after=c)
                if prov is None:
                    if m in OBJECT_ATTRS:
                        if m == '__init__' and (call.args or call.keywords):
                            stars_only = all(isinstance(x, ast.Starred) for x in call.args) and all(k.arg is None for k in call.keywords)
                            if not stars_only:
                                out.append((q, m, 'falls through to object.__init__ with arguments'))
                        continue
                    out.append((q, m, f'no class after {c.split(".")[-1]} in this MRO provides `{m}`'))
                    continue
                why = accepts(prov, call)
                if why:
                    out.append((q, m, why))
    return out
