"""Name-based call resolution inside the package (one level), used to decide
whether a missing element may have moved into a helper."""

from __future__ import annotations

import ast
from typing import List

from .source import FunctionInfo, Repo, iter_own_nodes


def callees_of(repo: Repo, fi: FunctionInfo) -> List[FunctionInfo]:
    names = set()
    for n in ast.walk(fi.node):
        if isinstance(n, ast.Call):
            f = n.func
            if isinstance(f, ast.Name):
                names.add(f.id)
            elif isinstance(f, ast.Attribute):
                names.add(f.attr)
    out = []
    seen = set()
    for g in repo.all_functions():
        if g.qualname == fi.qualname or g.qualname.startswith(fi.qualname + '.'):
            continue
        if g.name in names and g.qualname not in seen:
            seen.add(g.qualname)
            out.append(g)
    return out
