"""Normalisation: local *procedure* helpers are inlined at their call sites.

    def solve_t(self, t, ...):
        def set_filter() -> None:
            if errors == 'raise' and catch_first_error:
                warnings.simplefilter('error')
            else:
                warnings.simplefilter('always')
        with warnings.catch_warnings(record=True) as w:
            set_filter()
            ...

is analysed as if the body of `set_filter` stood where it is called.  A nested
function qualifies only when the rewriting is meaning-preserving by
construction:

  * it is defined directly in the body of the enclosing function, has no
    decorators, no *args/**kwargs, no yield/await, no `return` at all;
  * it has no `nonlocal`/`global` declarations and contains no nested function
    or class definitions or lambdas/comprehensions that capture its own locals;
  * every mention of its name in the enclosing function is the callee of a call
    that is a whole expression statement (so no value is used, and the helper is
    not passed around), lexically after the definition, and not inside another
    nested function;
  * every argument is passed positionally or by keyword to a declared parameter
    (defaults are filled in).

Parameters and the helper's own locals are renamed `<helper>__<name>` and bound
by plain assignments in front of the inlined body, so names cannot clash; the
rules read through such single-definition locals (Fn.expand).  Line numbers of
the inlined statements are those of the helper's body, so reports point at the
code the developer wrote.  The definition itself is left in place (a dead
nested def is an opaque statement for every rule).
"""

from __future__ import annotations

import ast
import copy
from typing import Dict, List, Optional, Set


def _own_nodes(fnode: ast.AST):
    """Nodes of a function body, not descending into nested defs / classes / lambdas."""
    stack = list(ast.iter_child_nodes(fnode))
    while stack:
        n = stack.pop()
        yield n
        if isinstance(n, (ast.FunctionDef, ast.AsyncFunctionDef, ast.ClassDef, ast.Lambda)):
            continue
        stack.extend(ast.iter_child_nodes(n))


def _qualifies(h: ast.FunctionDef) -> bool:
    if h.decorator_list or h.args.vararg or h.args.kwarg or h.args.posonlyargs:
        return False
    for n in ast.walk(h):
        if n is h:
            continue
        if isinstance(n, (ast.Return, ast.Yield, ast.YieldFrom, ast.Await, ast.Nonlocal, ast.Global, ast.FunctionDef, ast.AsyncFunctionDef,
                          ast.ClassDef, ast.Lambda, ast.ListComp, ast.SetComp, ast.DictComp, ast.GeneratorExp, ast.NamedExpr, ast.Delete)):
            return False
    return True


class _GetattrConst(ast.NodeTransformer):
    """`getattr(x, 'name')` with a literal identifier is `x.name`."""
    def visit_Call(self, node: ast.Call):
        self.generic_visit(node)
        if isinstance(node.func, ast.Name) and node.func.id == 'getattr' and len(node.args) == 2 and not node.keywords \
                and isinstance(node.args[1], ast.Constant) and isinstance(node.args[1].value, str) and node.args[1].value.isidentifier():
            return ast.copy_location(ast.Attribute(value=node.args[0], attr=node.args[1].value, ctx=ast.Load()), node)
        return node


def _stored_names(h: ast.FunctionDef) -> Set[str]:
    out: Set[str] = set()
    for n in ast.walk(h):
        if isinstance(n, ast.Name) and isinstance(n.ctx, (ast.Store, ast.Del)):
            out.add(n.id)
        elif isinstance(n, (ast.Import, ast.ImportFrom)):
            for al in n.names:
                out.add((al.asname or al.name).split('.')[0])
        elif isinstance(n, ast.ExceptHandler) and n.name:
            out.add(n.name)
    return out


class _Rename(ast.NodeTransformer):
    def __init__(self, mapping: Dict[str, str]) -> None:
        self.mapping = mapping

    def visit_Name(self, node: ast.Name):
        if node.id in self.mapping:
            return ast.copy_location(ast.Name(id=self.mapping[node.id], ctx=node.ctx), node)
        return node

    def visit_ExceptHandler(self, node: ast.ExceptHandler):
        self.generic_visit(node)
        if node.name in self.mapping:
            node.name = self.mapping[node.name]
        return node


class _SubstExpr(ast.NodeTransformer):
    def __init__(self, mapping: Dict[str, ast.AST]) -> None:
        self.mapping = mapping

    def visit_Name(self, node: ast.Name):
        if isinstance(node.ctx, ast.Load) and node.id in self.mapping:
            return ast.copy_location(copy.deepcopy(self.mapping[node.id]), node)
        return node


def _module_level_chain(a: ast.AST, f: ast.FunctionDef) -> bool:
    """`A.B.c` whose root name is bound nowhere in the enclosing function (so it is a module-level or builtin name)."""
    r = a
    while isinstance(r, ast.Attribute):
        r = r.value
    if not (isinstance(a, ast.Attribute) and isinstance(r, ast.Name)):
        return False
    local = {x.id for x in ast.walk(f) if isinstance(x, ast.Name) and isinstance(x.ctx, (ast.Store, ast.Del))}
    local |= {x.arg for x in ast.walk(f) if isinstance(x, ast.arg)}
    return r.id not in local


def _bind_args(h: ast.FunctionDef, call: ast.Call) -> Optional[Dict[str, ast.AST]]:
    params = [a.arg for a in h.args.args] + [a.arg for a in h.args.kwonlyargs]
    npos = len(h.args.args)
    if len(call.args) > npos or any(isinstance(a, ast.Starred) for a in call.args):
        return None
    bound: Dict[str, ast.AST] = {}
    for p, a in zip(h.args.args, call.args):
        bound[p.arg] = a
    for kw in call.keywords:
        if kw.arg is None or kw.arg not in params or kw.arg in bound:
            return None
        bound[kw.arg] = kw.value
    defaults = dict(zip([a.arg for a in h.args.args][npos - len(h.args.defaults):], h.args.defaults))
    for a, d in zip(h.args.kwonlyargs, h.args.kw_defaults):
        if d is not None:
            defaults[a.arg] = d
    for p in params:
        if p not in bound:
            if p not in defaults:
                return None
            if isinstance(defaults[p], ast.Name) and defaults[p].id in SENTINELS:
                bound[p] = defaults[p]   # a module-level sentinel object: the same object whenever it is evaluated
                continue
            if not isinstance(defaults[p], ast.Constant):
                return None  # defaults are evaluated at definition time: only constants are safe to move
            bound[p] = defaults[p]
    return bound


# module-level names bound once to `object()` (sentinels for "argument not given"), collected per module at load time
SENTINELS: Set[str] = set()


def _inline_in_function(f: ast.FunctionDef) -> int:
    helpers: Dict[str, ast.FunctionDef] = {}
    for s in f.body:
        if isinstance(s, ast.FunctionDef) and _qualifies(s):
            helpers[s.name] = s
    if not helpers:
        return 0
    # a helper name bound more than once, or referenced other than as a statement call, does not qualify
    uses: Dict[str, List[ast.AST]] = {k: [] for k in helpers}
    stmt_calls: Dict[int, str] = {}
    for n in ast.walk(f):
        if isinstance(n, ast.Expr) and isinstance(n.value, ast.Call) and isinstance(n.value.func, ast.Name) and n.value.func.id in helpers:
            stmt_calls[id(n.value.func)] = n.value.func.id
    own = set(id(n) for n in _own_nodes(f))
    for n in ast.walk(f):
        if isinstance(n, ast.Name) and n.id in helpers:
            if isinstance(n.ctx, ast.Load) and id(n) in stmt_calls and id(n) in own:
                continue
            uses[n.id].append(n)
    for n in ast.walk(f):
        if isinstance(n, (ast.FunctionDef, ast.AsyncFunctionDef, ast.ClassDef)) and n is not f and n.name in helpers and n is not helpers.get(n.name):
            uses[n.name].append(n)
        if isinstance(n, ast.arg) and n.arg in helpers:
            uses[n.arg].append(n)
    good = {k: h for k, h in helpers.items() if not uses[k]}
    # helpers may not call each other (keeps the rewriting one pass and obviously terminating)
    for k, h in list(good.items()):
        if any(isinstance(x, ast.Name) and x.id in helpers for x in ast.walk(h)):
            good.pop(k)
    if not good:
        return 0
    count = 0

    def rewrite_block(body: List[ast.stmt], after_def: Dict[str, bool]) -> List[ast.stmt]:
        nonlocal count
        out: List[ast.stmt] = []
        for s in body:
            if isinstance(s, ast.FunctionDef) and s.name in good and s is good[s.name]:
                after_def[s.name] = True
                out.append(s)
                continue
            if isinstance(s, ast.Expr) and isinstance(s.value, ast.Call) and isinstance(s.value.func, ast.Name) and s.value.func.id in good \
                    and after_def.get(s.value.func.id):
                h = good[s.value.func.id]
                bound = _bind_args(h, s.value)
                if bound is not None:
                    stored = _stored_names(h)
                    ren = {nm: f'{h.name}__{nm}' for nm in (stored | set(bound))}
                    direct = {}
                    expr_subst = {}
                    for p, a in bound.items():
                        # a parameter the helper never rebinds, given a plain outer name (which the helper cannot rebind
                        # either: no nonlocal) or a constant, is simply that name / constant
                        if p not in stored and isinstance(a, ast.Name):
                            ren[p] = a.id
                            direct[p] = a
                        elif p not in stored and (isinstance(a, ast.Constant) or _module_level_chain(a, f)):
                            # a constant, or an attribute chain rooted at a module-level name (`Enum.MEMBER.value`)
                            direct[p] = a
                            expr_subst[p] = a
                    for p, a in bound.items():
                        if p in direct:
                            continue
                        asg = ast.Assign(targets=[ast.Name(id=ren[p], ctx=ast.Store())], value=a)
                        ast.copy_location(asg, s)
                        ast.fix_missing_locations(asg)
                        out.append(asg)
                    for hs in h.body:
                        if isinstance(hs, ast.Expr) and isinstance(hs.value, ast.Constant) and isinstance(hs.value.value, str):
                            continue  # docstring
                        c = _Rename({k: v for k, v in ren.items() if k not in expr_subst}).visit(copy.deepcopy(hs))
                        if expr_subst:
                            c = _SubstExpr(expr_subst).visit(c)
                            c = _GetattrConst().visit(c)
                            ast.fix_missing_locations(c)
                        out.append(c)
                    if expr_subst:
                        k0 = len(out) - len([hs for hs in h.body if not (isinstance(hs, ast.Expr) and isinstance(hs.value, ast.Constant) and isinstance(hs.value.value, str))])
                        out[k0:] = _fold_constant_ifs(out[k0:])
                    count += 1
                    continue
            # recurse into compound statements (not into nested defs)
            if isinstance(s, (ast.FunctionDef, ast.AsyncFunctionDef, ast.ClassDef)):
                out.append(s)
                continue
            for fld in ('body', 'orelse', 'finalbody'):
                blk = getattr(s, fld, None)
                if isinstance(blk, list) and blk and isinstance(blk[0], ast.stmt):
                    new = rewrite_block(blk, after_def)
                    setattr(s, fld, new if new else [ast.copy_location(ast.Pass(), s)])
            if isinstance(s, ast.Try):
                for hd in s.handlers:
                    hd.body = rewrite_block(hd.body, after_def) or [ast.copy_location(ast.Pass(), hd)]
            out.append(s)
        return out

    # the definition must precede the call on every path: require the def at the top level of f's body and calls
    # lexically after it (rewrite_block tracks this in statement order; a call in a loop before the def is not rewritten
    # because `after_def` is still False when the loop body is visited)
    f.body = rewrite_block(f.body, {})
    return count


def inline_local_procedures(tree: ast.Module) -> int:
    total = 0
    for n in ast.walk(tree):
        if isinstance(n, ast.FunctionDef):
            total += _inline_in_function(n)
    return total


# ---------------------------------------------------------------------------------------------------------------------
# keyword dictionaries
#
#     options = dict(errors=errors, catch_first_error=catch_first_error)      f(t, errors=errors,
#     ...                                                               ->      catch_first_error=catch_first_error,
#     f(t, **options, iteration=iteration, **kwargs)                            iteration=iteration, **kwargs)
#
# A local bound exactly once to a dict display / `dict(...)` call with constant string keys, whose only uses are `**name`
# in calls, is written out at those calls - provided every name the values mention has, at the call, the reaching
# definitions it had where the dictionary was built (so evaluating the value at the call gives what was stored).

def _dict_items(v: ast.AST):
    """[(key or None for **, value expr)] of a dict display / dict(...) call with constant keys, else None."""
    if isinstance(v, ast.Dict):
        out = []
        for k, val in zip(v.keys, v.values):
            if k is None:
                out.append((None, val))
            elif isinstance(k, ast.Constant) and isinstance(k.value, str) and k.value.isidentifier():
                out.append((k.value, val))
            else:
                return None
        return out
    if isinstance(v, ast.Call) and isinstance(v.func, ast.Name) and v.func.id == 'dict' and not v.args:
        return [(k.arg, k.value) for k in v.keywords]
    return None


def _expand_kwargs_in_function(f: ast.FunctionDef) -> int:
    starred = {}
    for n in _own_nodes(f):
        if isinstance(n, ast.Call):
            for k in n.keywords:
                if k.arg is None and isinstance(k.value, ast.Name):
                    starred.setdefault(k.value.id, []).append((n, k))
    if not starred:
        return 0
    params = {a.arg for a in f.args.posonlyargs + f.args.args + f.args.kwonlyargs}
    if f.args.vararg:
        params.add(f.args.vararg.arg)
    if f.args.kwarg:
        params.add(f.args.kwarg.arg)
    cands = {}
    for name in starred:
        if name in params:
            continue
        binds = []
        loads = []
        bad = False
        for n in ast.walk(f):
            if isinstance(n, ast.Name) and n.id == name:
                (binds if isinstance(n.ctx, (ast.Store, ast.Del)) else loads).append(n)
            elif isinstance(n, (ast.FunctionDef, ast.AsyncFunctionDef, ast.ClassDef)) and n is not f and n.name == name:
                bad = True
            elif isinstance(n, (ast.Global, ast.Nonlocal)) and name in n.names:
                bad = True
        star_loads = {id(k.value) for (_c, k) in starred[name]}
        if bad or len(binds) != 1 or any(id(l) not in star_loads for l in loads):
            continue
        asg = [s for s in _own_nodes(f) if isinstance(s, ast.Assign) and len(s.targets) == 1 and s.targets[0] is binds[0]]
        if len(asg) != 1:
            continue
        items = _dict_items(asg[0].value)
        if items is None:
            continue
        cands[name] = (asg[0], items)
    if not cands:
        return 0
    from .cfg import CFG
    from .flow import LocalFlow, node_expr_roots
    try:
        cfg = CFG(f)
        lf = LocalFlow(cfg, sorted(params))
    except Exception:
        return 0

    def node_of(x: ast.AST):
        for n in cfg.nodes:
            if n.ast is None:
                continue
            for root in node_expr_roots(n):
                if isinstance(root, (ast.FunctionDef, ast.AsyncFunctionDef, ast.ClassDef)):
                    continue
                if any(y is x for y in ast.walk(root)):
                    return n
        return None

    count = 0
    for name, (asg, items) in cands.items():
        dn = node_of(asg.value)
        if dn is None:
            continue
        free = {y.id for (_k, v) in items for y in ast.walk(v) if isinstance(y, ast.Name) and isinstance(y.ctx, ast.Load)}
        sites = []
        ok = True
        for (call, kw) in starred[name]:
            cn = node_of(call)
            if cn is None or dn.id not in cfg.reachable_from(cfg.entry) or cn.id not in cfg.reachable_from(dn.id):
                ok = False
                break
            for nm in free:
                if nm in lf.locals and lf.defs_reaching(dn.id, nm) != lf.defs_reaching(cn.id, nm):
                    ok = False
            # the dictionary itself must be the one built there
            if lf.defs_reaching(cn.id, name) != frozenset([dn.id]):
                ok = False
            sites.append((call, kw))
        if not ok:
            continue
        for (call, kw) in sites:
            new = []
            for k in call.keywords:
                if k is kw:
                    for (key, val) in items:
                        nk = ast.keyword(arg=key, value=copy.deepcopy(val))
                        ast.copy_location(nk, k)
                        ast.fix_missing_locations(nk)
                        new.append(nk)
                else:
                    new.append(k)
            call.keywords = new
            count += 1
    return count


def expand_keyword_dicts(tree: ast.Module) -> int:
    total = 0
    for n in ast.walk(tree):
        if isinstance(n, ast.FunctionDef):
            total += _expand_kwargs_in_function(n)
    return total


# ---------------------------------------------------------------------------------------------------------------------
# private helper methods
#
#     def _conform(self, name, value, dtype):          def add_variable(self, name, value, *, dtype=None):
#         arr = np.array(value, dtype=dtype)               ...
#         if arr.shape[0] != len(self.span):        ->     _conform__arr = np.array(value_as_array, dtype=dtype)
#             raise DimensionError(...)                    if _conform__arr.shape[0] != len(self.span):
#         return arr                                           raise DimensionError(...)
#                                                          self.__dict__['_' + name] = _conform__arr
#     def add_variable(self, ...):
#         self.__dict__['_' + name] = self._conform(name, value_as_array, dtype)
#
# A method qualifies when its name starts with one underscore, it has no decorators, *args or **kwargs, its only
# `return` is the last statement of its body, and it contains no yield / nested definitions / nonlocal.  A call
# `self._m(...)` that is the whole right-hand side of an assignment, the whole value of a `return`, or a whole expression
# statement, in another method of the same class, is replaced by the body with parameters bound and locals renamed.

def _trivial_body(m: ast.FunctionDef) -> bool:
    """Docstring / pass / `raise NotImplementedError` only: a hook for subclasses to fill in, not a helper to read."""
    body = [b for b in m.body if not (isinstance(b, ast.Expr) and isinstance(b.value, ast.Constant))]
    return all(isinstance(b, ast.Pass) or (isinstance(b, ast.Raise) and b.exc is not None and 'NotImplemented' in ast.unparse(b.exc)) for b in body)


def _method_qualifies(m: ast.FunctionDef, any_name: bool = False, function: bool = False) -> bool:
    """A private helper method that can be read in place of its call: its only `return <value>` is its last statement
    (a function), or it has no `return` at all (a procedure, inlined where its call is a statement of its own)."""
    static = len(m.decorator_list) == 1 and ast.unparse(m.decorator_list[0]) == 'staticmethod'
    named_ok = function or any_name or (m.name.startswith('_') and not m.name.startswith('__'))
    if not named_ok or (m.decorator_list and not static) or m.args.vararg or m.args.kwarg or m.args.posonlyargs:
        return False
    if (not m.args.args and not static and not function) or not m.body or _trivial_body(m):
        return False
    is_function = isinstance(m.body[-1], ast.Return) and m.body[-1].value is not None
    body = [b for b in m.body if not (isinstance(b, ast.Expr) and isinstance(b.value, ast.Constant))]
    if is_function and len(body) < 2:
        return False  # a one-expression method is read through by the summaries instead
    early = [n for n in ast.walk(m) if isinstance(n, ast.Return) and not (is_function and n is m.body[-1])]
    if early and _tailify(m.body, '__r') is None:
        return False
    for n in ast.walk(m):
        if n is m or isinstance(n, ast.Return):
            continue
        if isinstance(n, (ast.Yield, ast.YieldFrom, ast.Await, ast.Nonlocal, ast.Global, ast.FunctionDef, ast.AsyncFunctionDef, ast.ClassDef, ast.Lambda)):
            return False
        if isinstance(n, ast.Call) and isinstance(n.func, ast.Attribute) and n.func.attr == m.name:
            return False
    return True


def _ends(block: List[ast.stmt]) -> bool:
    """Does control never fall off the end of `block`?"""
    if not block:
        return False
    last = block[-1]
    if isinstance(last, (ast.Return, ast.Raise)):
        return True
    if isinstance(last, ast.If):
        return bool(last.orelse) and _ends(last.body) and _ends(last.orelse)
    return False


def _has_return(s: ast.AST) -> bool:
    return any(isinstance(x, ast.Return) for x in ast.walk(s))


def _tailify(body: List[ast.stmt], ret: str) -> Optional[List[ast.stmt]]:
    """`body` with every `return E` turned into `ret = E`, for bodies whose returns sit in (nested) `if` blocks or at the top
    level: the statements after an `if` that returns on one side are moved into the side that falls through.  None if a
    return hides in a loop / try / with."""
    out: List[ast.stmt] = []
    for i, st in enumerate(body):
        rest = body[i + 1:]
        if isinstance(st, ast.Return):
            asg = ast.Assign(targets=[ast.Name(id=ret, ctx=ast.Store())], value=st.value if st.value is not None else ast.Constant(value=None))
            out.append(ast.fix_missing_locations(ast.copy_location(asg, st)))
            return out
        if not _has_return(st):
            out.append(st)
            continue
        if not isinstance(st, ast.If):
            return None
        b_body = list(st.body) + ([] if _ends(st.body) else copy.deepcopy(rest))
        b_else = list(st.orelse) + ([] if (st.orelse and _ends(st.orelse)) else copy.deepcopy(rest))
        tb, te = _tailify(b_body, ret), _tailify(b_else, ret)
        if tb is None or te is None:
            return None
        new = ast.If(test=st.test, body=tb or [ast.Pass()], orelse=te)
        out.append(ast.fix_missing_locations(ast.copy_location(new, st)))
        return out
    # fell off the end without a return on this path
    if not _ends(out):
        asg = ast.Assign(targets=[ast.Name(id=ret, ctx=ast.Store())], value=ast.Constant(value=None))
        out.append(ast.fix_missing_locations(asg))
    return out


def _const_like(e: ast.AST) -> bool:
    """None / True / False / a literal / `Enum.MEMBER` / `Enum.MEMBER.value`."""
    if isinstance(e, ast.Constant):
        return True
    if isinstance(e, ast.Attribute) and e.attr == 'value':
        e = e.value
    return isinstance(e, ast.Attribute) and isinstance(e.value, ast.Name) and e.attr.isupper() and e.value.id[:1].isupper()


def _thread_result(name: str, stmts: List[ast.stmt], rest: List[ast.stmt]) -> Optional[List[ast.stmt]]:
    """`stmts` end in an if-tree every leaf of which either binds `name` to a constant-like value as its last statement or
    does not fall through (raise / return); `rest` begins by testing `name`.  Result: `stmts` with a copy of `rest` appended to
    every leaf that binds `name`, in which `name` is replaced by that leaf's value and the tests this decides are folded
    (jump threading).  None if the shape is different, `rest` rebinds `name`, or there are too many leaves."""
    if not stmts or not rest or not isinstance(stmts[-1], ast.If):
        return None
    first = rest[0]
    if not (isinstance(first, ast.If) and any(isinstance(x, ast.Name) and x.id == name for x in ast.walk(first.test))):
        return None
    if any(isinstance(x, ast.Name) and x.id == name and isinstance(x.ctx, (ast.Store, ast.Del)) for st in rest for x in ast.walk(st)):
        return None
    if any(isinstance(x, (ast.FunctionDef, ast.AsyncFunctionDef, ast.ClassDef, ast.Lambda)) for st in rest for x in ast.walk(st)):
        return None
    leaves = []

    def visit(block: List[ast.stmt]) -> bool:
        if not block:
            return False
        last = block[-1]
        if isinstance(last, (ast.Raise, ast.Return)):
            return True
        if isinstance(last, ast.Assign) and len(last.targets) == 1 and isinstance(last.targets[0], ast.Name) and last.targets[0].id == name and _const_like(last.value):
            leaves.append((block, last.value))
            return True
        if isinstance(last, ast.If) and last.orelse:
            return visit(last.body) and visit(last.orelse)
        return False

    if not visit([stmts[-1]]) or not leaves or len(leaves) > 12:
        return None
    for (block, val) in leaves:
        cp = [_SubstExpr({name: val}).visit(copy.deepcopy(st)) for st in rest]
        block.extend(_fold_constant_ifs([ast.fix_missing_locations(x) for x in cp]))
    return stmts


def _is_simple_contextmanager(m: ast.FunctionDef, function: bool = False) -> bool:
    """A method decorated with contextlib.contextmanager whose body yields exactly once, as a statement of its own, and
    has no return / nested definitions: `with m(...): BODY` then runs the method's body with BODY in place of the yield."""
    if len(m.decorator_list) != 1 or ast.unparse(m.decorator_list[0]) not in ('contextlib.contextmanager', 'contextmanager'):
        return False
    if m.args.vararg or m.args.kwarg or m.args.posonlyargs or (not m.args.args and not function):
        return False
    ys = [n for n in ast.walk(m) if isinstance(n, (ast.Yield, ast.YieldFrom))]
    if len(ys) != 1 or not isinstance(ys[0], ast.Yield) or ys[0].value is not None:
        return False
    stmt_yields = [n for n in ast.walk(m) if isinstance(n, ast.Expr) and n.value is ys[0]]
    if len(stmt_yields) != 1:
        return False
    for n in ast.walk(m):
        if n is not m and isinstance(n, (ast.Return, ast.Await, ast.Nonlocal, ast.Global, ast.FunctionDef, ast.AsyncFunctionDef, ast.ClassDef, ast.Lambda)):
            return False
    return True


def _const_truth(t: ast.AST) -> Optional[bool]:
    if isinstance(t, ast.Constant):
        return bool(t.value)
    if isinstance(t, ast.BoolOp):
        vs = [_const_truth(v) for v in t.values]
        if isinstance(t.op, ast.And):
            if any(v is False for v in vs):
                return False
            return True if all(v is True for v in vs) else None
        if any(v is True for v in vs):
            return True
        return False if all(v is False for v in vs) else None
    if isinstance(t, ast.Compare) and len(t.ops) == 1 and isinstance(t.ops[0], (ast.Is, ast.IsNot)):
        l, r = t.left, t.comparators[0]
        same = None
        if isinstance(l, ast.Name) and isinstance(r, ast.Name) and l.id == r.id and l.id in SENTINELS:
            same = True
        elif (isinstance(l, ast.Constant) and isinstance(r, ast.Name) and r.id in SENTINELS) or (isinstance(r, ast.Constant) and isinstance(l, ast.Name) and l.id in SENTINELS):
            same = False     # a literal is never the sentinel object
        elif isinstance(l, ast.Constant) and isinstance(r, ast.Constant) and (l.value is None or r.value is None):
            same = l.value is r.value
        if same is not None:
            return same if isinstance(t.ops[0], ast.Is) else (not same)
    if isinstance(t, ast.Compare) and len(t.ops) == 1 and isinstance(t.ops[0], (ast.Eq, ast.NotEq, ast.Is, ast.IsNot)):
        l, r = t.left, t.comparators[0]
        enum_ref = lambda e: isinstance(e, ast.Attribute) and (e.attr == 'value' and isinstance(e.value, ast.Attribute) and isinstance(e.value.value, ast.Name) and e.value.attr.isupper()
                                                               or (isinstance(e.value, ast.Name) and e.attr.isupper() and e.value.id[:1].isupper()))
        same = None
        if enum_ref(l) and enum_ref(r):
            tl, tr_ = ast.unparse(l), ast.unparse(r)
            if tl.rsplit('.', 2)[0] == tr_.rsplit('.', 2)[0] or tl == tr_:
                same = tl == tr_        # distinct members of one enumeration have distinct values (C06.R1 checks the alphabet)
        elif (enum_ref(l) and isinstance(r, ast.Constant) and r.value is None) or (enum_ref(r) and isinstance(l, ast.Constant) and l.value is None):
            same = False
        if same is not None:
            return same if isinstance(t.ops[0], (ast.Eq, ast.Is)) else (not same)
    if isinstance(t, ast.UnaryOp) and isinstance(t.op, ast.Not):
        v = _const_truth(t.operand)
        return None if v is None else (not v)
    return None


def _fold_constant_ifs(body: List[ast.stmt]) -> List[ast.stmt]:
    """`if <constant>:` left behind by binding a parameter to a literal: keep the live branch only."""
    out: List[ast.stmt] = []
    for s in body:
        if isinstance(s, ast.If):
            # drop operands of an `and` that are decided true (`trace and 'start' is not _SENTINEL`)
            if isinstance(s.test, ast.BoolOp) and isinstance(s.test.op, ast.And):
                keep_ = [v_ for v_ in s.test.values if _const_truth(v_) is not True]
                if keep_ and len(keep_) < len(s.test.values) and not any(_const_truth(v_) is False for v_ in s.test.values):
                    s.test = keep_[0] if len(keep_) == 1 else ast.BoolOp(op=ast.And(), values=keep_)
            v = _const_truth(s.test)
            if v is not None:
                live = _fold_constant_ifs(s.body if v else s.orelse)
                out += live
                if live and isinstance(live[-1], (ast.Raise, ast.Return, ast.Continue, ast.Break)):
                    break
                continue
        for fld in ('body', 'orelse', 'finalbody'):
            blk = getattr(s, fld, None)
            if isinstance(blk, list) and blk and isinstance(blk[0], ast.stmt):
                new = _fold_constant_ifs(blk)
                setattr(s, fld, new if new or fld != 'body' else [ast.Pass()])
        if isinstance(s, ast.Try):
            for hd in s.handlers:
                hd.body = _fold_constant_ifs(hd.body) or [ast.Pass()]
        out.append(s)
        # nothing after an unconditional raise / return in this block is live
        if isinstance(s, (ast.Raise, ast.Return, ast.Continue, ast.Break)):
            break
    return out


def _inline_methods_in_class(c: Optional[ast.ClassDef], extra: Optional[Dict[str, ast.FunctionDef]] = None, keep=(), funcs: Optional[Dict[str, ast.FunctionDef]] = None,
                             owners: Optional[List[ast.FunctionDef]] = None, any_name: Optional[Set[str]] = None) -> int:
    """`extra`: helper methods found outside the class body (base classes, the one class of the package a mixin's
    `self._m` can refer to); `keep`: names never inlined; `funcs`: module-level helper functions (called by bare name);
    `owners`: the functions whose bodies are rewritten (default: the methods of `c`); `any_name`: method names that qualify
    without a leading underscore (methods no rule knows about)."""
    any_name = any_name or set()
    body_ = list(c.body) if c is not None else []
    helpers = {m.name: m for m in body_ if isinstance(m, ast.FunctionDef) and _method_qualifies(m, any_name=m.name in any_name)}
    own = {m.name for m in body_ if isinstance(m, ast.FunctionDef)}
    for k, m in (extra or {}).items():
        if k not in own and _method_qualifies(m):
            helpers[k] = m
    for k in keep:
        helpers.pop(k, None)
    fhelpers = {k: m for k, m in (funcs or {}).items() if _method_qualifies(m, function=True)}
    fn_ids = {id(m) for m in (funcs or {}).values()}
    # generator-based context managers: `with self._cm(...): BODY` is the manager's body with BODY at its `yield`
    cms = {}
    for m in body_ + list((extra or {}).values()):
        if isinstance(m, ast.FunctionDef) and m.name not in cms and _is_simple_contextmanager(m) and m.name not in keep:
            cms[m.name] = m
    fcms = {k: m for k, m in (funcs or {}).items() if _is_simple_contextmanager(m, function=True)}
    if not helpers and not cms and not fhelpers and not fcms:
        return 0
    count = 0

    def cm_of(e):
        if isinstance(e, ast.Call) and isinstance(e.func, ast.Name) and e.func.id in fcms:
            return fcms[e.func.id], e
        if not isinstance(e, ast.Call) or not isinstance(e.func, ast.Attribute) or e.func.attr not in cms:
            return None, None
        recv = e.func.value
        if isinstance(recv, ast.Name) and recv.id == 'self':
            return cms[e.func.attr], e
        if isinstance(recv, ast.Name) and e.args and isinstance(e.args[0], ast.Name) and e.args[0].id == 'self':
            # Class._cm(self, ...): the same call spelled through the class
            e2 = ast.Call(func=ast.Attribute(value=ast.Name(id='self', ctx=ast.Load()), attr=e.func.attr, ctx=ast.Load()), args=e.args[1:], keywords=e.keywords)
            return cms[e.func.attr], ast.copy_location(e2, e)
        return None, None

    def expand_with(h: ast.FunctionDef, call: ast.Call, w: ast.With):
        fake = ast.FunctionDef(name=h.name, args=ast.arguments(posonlyargs=[], args=(h.args.args if id(h) in fn_ids else h.args.args[1:]), vararg=None, kwonlyargs=h.args.kwonlyargs,
                                                               kw_defaults=h.args.kw_defaults, kwarg=None, defaults=h.args.defaults), body=h.body, decorator_list=[])
        bound = _bind_args(fake, call)
        if bound is None:
            return None
        stored = _stored_names(h)
        ren = {nm: f'{h.name}__{nm}' for nm in (stored | set(bound))}
        subst, pre = {}, []
        for p_, a in bound.items():
            chain = a
            while isinstance(chain, ast.Attribute):
                chain = chain.value
            if p_ not in stored and (isinstance(a, (ast.Name, ast.Constant)) or (isinstance(a, ast.Attribute) and isinstance(chain, ast.Name))):
                subst[p_] = a
            else:
                asg = ast.Assign(targets=[ast.Name(id=ren[p_], ctx=ast.Store())], value=a)
                pre.append(ast.fix_missing_locations(ast.copy_location(asg, w)))
        body = []
        for hs in h.body:
            if isinstance(hs, ast.Expr) and isinstance(hs.value, ast.Constant) and isinstance(hs.value.value, str):
                continue
            x = _Rename({k: v for k, v in ren.items() if k not in subst}).visit(copy.deepcopy(hs))
            if subst:
                x = _SubstExpr(subst).visit(x)
            body.append(ast.fix_missing_locations(x))

        def place(stmts):
            out_ = []
            for st in stmts:
                if isinstance(st, ast.Expr) and isinstance(st.value, ast.Yield):
                    out_ += w.body
                    continue
                for fld in ('body', 'orelse', 'finalbody'):
                    blk = getattr(st, fld, None)
                    if isinstance(blk, list) and blk and isinstance(blk[0], ast.stmt):
                        setattr(st, fld, place(blk))
                if isinstance(st, ast.Try):
                    for hd in st.handlers:
                        hd.body = place(hd.body)
                out_.append(st)
            return out_

        return pre + _fold_constant_ifs(place(body))

    def call_of(e):
        if isinstance(e, ast.Call) and isinstance(e.func, ast.Attribute) and isinstance(e.func.value, ast.Name) and e.func.value.id == 'self' and e.func.attr in helpers:
            return helpers[e.func.attr]
        if isinstance(e, ast.Call) and isinstance(e.func, ast.Name) and e.func.id in fhelpers:
            return fhelpers[e.func.id]
        return None

    def expand(h: ast.FunctionDef, call: ast.Call, at: ast.stmt):
        """(statements, value expression) or None."""
        is_static = any(ast.unparse(d) == 'staticmethod' for d in h.decorator_list) or id(h) in fn_ids
        fake = ast.FunctionDef(name=h.name, args=ast.arguments(posonlyargs=[], args=(h.args.args if is_static else h.args.args[1:]), vararg=None, kwonlyargs=h.args.kwonlyargs,
                                                               kw_defaults=h.args.kw_defaults, kwarg=None, defaults=h.args.defaults), body=h.body, decorator_list=[])
        bound = _bind_args(fake, call)
        if bound is None:
            return None
        stored = _stored_names(h)
        ren = {nm: f'{h.name}__{nm}' for nm in (stored | set(bound))}
        subst = {}
        pre = []
        for p, a in bound.items():
            chain = a
            while isinstance(chain, ast.Attribute):
                chain = chain.value
            if p not in stored and (isinstance(a, (ast.Name, ast.Constant)) or (isinstance(a, ast.Attribute) and isinstance(chain, ast.Name))):
                subst[p] = a
            else:
                asg = ast.Assign(targets=[ast.Name(id=ren[p], ctx=ast.Store())], value=a)
                ast.copy_location(asg, at)
                pre.append(ast.fix_missing_locations(asg))
        out = list(pre)
        is_function = isinstance(h.body[-1], ast.Return)
        hbody = h.body
        early = [n for n in ast.walk(h) if isinstance(n, ast.Return) and n is not h.body[-1]]
        if early:
            # several returns: read as assignments to one result local, then `return <that local>`
            tb = _tailify(copy.deepcopy(h.body), '__result')
            if tb is None:
                return None
            hbody = tb + [ast.Return(value=ast.Name(id='__result', ctx=ast.Load()))]
            ren['__result'] = f'{h.name}__result'
            is_function = True
        for hs in (hbody[:-1] if is_function else hbody):
            if isinstance(hs, ast.Expr) and isinstance(hs.value, ast.Constant) and isinstance(hs.value.value, str):
                continue
            x = _Rename({k: v for k, v in ren.items() if k not in subst}).visit(copy.deepcopy(hs))
            if subst:
                x = _SubstExpr(subst).visit(x)
            out.append(ast.fix_missing_locations(x))
        out = _fold_constant_ifs(out)
        if not is_function:
            return out, None
        rv = _Rename({k: v for k, v in ren.items() if k not in subst}).visit(copy.deepcopy(hbody[-1].value))
        if subst:
            rv = _SubstExpr(subst).visit(rv)
        return out, ast.fix_missing_locations(rv)

    def rewrite(body, host):
        nonlocal count
        out = []
        for i_s, s in enumerate(body):
            if getattr(rewrite, 'consumed', None) is body:
                break       # the rest of this block was moved into the branches of a threaded helper result
            h = None
            if isinstance(s, ast.Assign) and len(s.targets) == 1:
                h = call_of(s.value)
            elif isinstance(s, ast.Return) and s.value is not None:
                h = call_of(s.value)
            elif isinstance(s, ast.Expr):
                h = call_of(s.value)
            if h is None and isinstance(s, (ast.Assign, ast.Return, ast.Expr)) and isinstance(getattr(s, 'value', None), ast.Call) \
                    and not (isinstance(s, ast.Assign) and len(s.targets) != 1):
                # `return self.f(self._m(x), ...)`: the helper call is the first thing evaluated after the (pure) lookup of
                # the callee - hoist it into a local and read it in place
                outer = s.value
                fn_chain = outer.func
                while isinstance(fn_chain, ast.Attribute):
                    fn_chain = fn_chain.value
                is_super = isinstance(fn_chain, ast.Call) and isinstance(fn_chain.func, ast.Name) and fn_chain.func.id == 'super' and not fn_chain.args
                if (isinstance(fn_chain, ast.Name) or is_super) and outer.args and call_of(outer.args[0]) is not None and call_of(outer.args[0]) is not host:
                    h2 = call_of(outer.args[0])
                    if isinstance(h2.body[-1], ast.Return):
                        r2 = expand(h2, outer.args[0], s)
                        if r2 is not None and r2[1] is not None:
                            stmts2, rv2 = r2
                            tmp = f'{h2.name}__result'
                            asg = ast.Assign(targets=[ast.Name(id=tmp, ctx=ast.Store())], value=rv2)
                            out += stmts2
                            out.append(ast.fix_missing_locations(ast.copy_location(asg, s)))
                            outer.args[0] = ast.copy_location(ast.Name(id=tmp, ctx=ast.Load()), outer)
                            count += 1
                            out.append(s)
                            continue
            if h is None and isinstance(s, ast.Expr) and isinstance(s.value, ast.Call) and isinstance(s.value.func, ast.Attribute) \
                    and call_of(s.value.func.value) is not None and call_of(s.value.func.value) is not host:
                # `self._m(...).append(x)`: the helper's result is the receiver - evaluated first, so read it in place first
                h3 = call_of(s.value.func.value)
                if any(isinstance(x_, ast.Return) for x_ in ast.walk(h3)):
                    r3 = expand(h3, s.value.func.value, s)
                    if r3 is not None and r3[1] is not None:
                        stmts3, rv3 = r3
                        tmp3 = f'{h3.name}__result'
                        if not (isinstance(rv3, ast.Name) and rv3.id == tmp3):
                            stmts3 = stmts3 + [ast.fix_missing_locations(ast.copy_location(ast.Assign(targets=[ast.Name(id=tmp3, ctx=ast.Store())], value=rv3), s))]
                        out += stmts3
                        s.value.func.value = ast.copy_location(ast.Name(id=tmp3, ctx=ast.Load()), s)
                        count += 1
                        out.append(s)
                        continue
            if h is not None and h is not host:
                r = expand(h, s.value, s)
                if r is not None and r[1] is None and not isinstance(s, ast.Expr):
                    r = None    # a procedure's (None) result is used: leave the call alone
                if r is not None:
                    stmts, rv = r
                    out += stmts
                    if rv is None:
                        count += 1
                        continue
                    if isinstance(s, ast.Assign) and len(s.targets) == 1 and isinstance(s.targets[0], ast.Name) and isinstance(rv, ast.Name) \
                            and rv.id.startswith(f'{h.name}__') and rv.id != s.targets[0].id:
                        # `T = self._m(...)` where the helper returns one of its own locals: that local *is* T - call it so
                        tname = s.targets[0].id
                        used = any(isinstance(x, ast.Name) and x.id == tname for st_ in stmts for x in ast.walk(st_))
                        if not used:
                            stmts2 = [_Rename({rv.id: tname}).visit(st_) for st_ in stmts]
                            stmts2 = [ast.fix_missing_locations(x) for x in stmts2]
                            # the helper answered with one of a few constants (None, an enum value, a flag) and what follows
                            # dispatches on the answer: give each exit its own copy of what follows, with the answer known
                            th = _thread_result(tname, stmts2, list(body[i_s + 1:]))
                            if th is not None:
                                out[len(out) - len(stmts):] = rewrite(th, host)
                                rewrite.consumed = body
                                count += 1
                                continue
                            out[len(out) - len(stmts):] = stmts2
                            count += 1
                            continue
                    if isinstance(s, ast.Assign) and len(s.targets) == 1 and isinstance(s.targets[0], ast.Tuple) and isinstance(rv, ast.Name) and rv.id.startswith(f'{h.name}__') \
                            and all(isinstance(e_, ast.Name) for e_ in s.targets[0].elts):
                        # `a, b = self._m(...)` where every exit of the helper returns a pair written out: each exit binds a and b
                        tnames = [e_.id for e_ in s.targets[0].elts]
                        sites = [x_ for st_ in stmts for x_ in ast.walk(st_) if isinstance(x_, ast.Assign) and len(x_.targets) == 1 and isinstance(x_.targets[0], ast.Name)
                                 and x_.targets[0].id == rv.id]
                        mentions = any(isinstance(y_, ast.Name) and y_.id in tnames for st_ in stmts for y_ in ast.walk(st_))
                        if sites and not mentions and all(isinstance(x_.value, ast.Tuple) and len(x_.value.elts) == len(tnames)
                                                          and not any(isinstance(e_, ast.Starred) for e_ in x_.value.elts) for x_ in sites):
                            class _Split(ast.NodeTransformer):
                                def visit_Assign(self_, node):
                                    if node in sites:
                                        return [ast.fix_missing_locations(ast.copy_location(ast.Assign(targets=[ast.Name(id=nm_, ctx=ast.Store())], value=v_), node))
                                                for nm_, v_ in zip(tnames, node.value.elts)]
                                    return node
                            new_stmts = []
                            for st_ in stmts:
                                r2_ = _Split().visit(st_)
                                new_stmts += r2_ if isinstance(r2_, list) else [r2_]
                            out[len(out) - len(stmts):] = new_stmts
                            count += 1
                            continue
                    if isinstance(s, ast.Assign):
                        new = ast.Assign(targets=s.targets, value=rv)
                    elif isinstance(s, ast.Return):
                        new = ast.Return(value=rv)
                    else:
                        new = ast.Expr(value=rv)
                    out.append(ast.fix_missing_locations(ast.copy_location(new, s)))
                    count += 1
                    continue
            if isinstance(s, ast.If):
                # `if helper(x):`, `if not helper(x):`, `if A and helper(x):` - the call is hoisted into a local in front of
                # the test it decides (for `A and helper(x)` inside `if A:`), then read in place
                t_ = s.test
                pre_test = None
                neg_ = False
                core = t_
                if isinstance(core, ast.BoolOp) and isinstance(core.op, ast.And) and len(core.values) == 2:
                    pre_test, core = core.values[0], core.values[1]
                if isinstance(core, ast.UnaryOp) and isinstance(core.op, ast.Not):
                    neg_, core = True, core.operand
                hh = call_of(core)
                if hh is not None and hh is not host and isinstance(hh.body[-1], ast.Return) or (hh is not None and hh is not host and any(isinstance(x_, ast.Return) for x_ in ast.walk(hh))):
                    r_ = expand(hh, core, s)
                    if r_ is not None and r_[1] is not None:
                        stmts_, rv_ = r_
                        tmp_ = f'{hh.name}__test'
                        asg_ = ast.fix_missing_locations(ast.copy_location(ast.Assign(targets=[ast.Name(id=tmp_, ctx=ast.Store())], value=rv_), s))
                        newtest = ast.Name(id=tmp_, ctx=ast.Load())
                        if neg_:
                            newtest = ast.UnaryOp(op=ast.Not(), operand=newtest)
                        inner_if = ast.If(test=newtest, body=s.body, orelse=copy.deepcopy(s.orelse))
                        block = stmts_ + [asg_, ast.fix_missing_locations(ast.copy_location(inner_if, s))]
                        count += 1
                        if pre_test is None:
                            out += rewrite(block, host)
                        else:
                            outer_if = ast.If(test=pre_test, body=block, orelse=s.orelse)
                            out += rewrite([ast.fix_missing_locations(ast.copy_location(outer_if, s))], host)
                        continue
            if isinstance(s, ast.With) and len(s.items) == 1 and s.items[0].optional_vars is None:
                hcm, call2 = cm_of(s.items[0].context_expr)
                if hcm is not None and hcm is not host:
                    s.body = rewrite(s.body, host)
                    r = expand_with(hcm, call2, s)
                    if r is not None:
                        out += r
                        count += 1
                        continue
            if not isinstance(s, (ast.FunctionDef, ast.AsyncFunctionDef, ast.ClassDef)):
                for fld in ('body', 'orelse', 'finalbody'):
                    blk = getattr(s, fld, None)
                    if isinstance(blk, list) and blk and isinstance(blk[0], ast.stmt):
                        setattr(s, fld, rewrite(blk, host))
                if isinstance(s, ast.Try):
                    for hd in s.handlers:
                        hd.body = rewrite(hd.body, host)
            out.append(s)
        return out

    targets = owners if owners is not None else [m for m in body_ if isinstance(m, ast.FunctionDef)]
    for _round in range(4):
        before = count
        for m in targets:
            m.body = rewrite(m.body, m)
        if count == before:
            break
    return count


def inline_unknown_functions(tree: ast.Module, known_functions: Set[str], known_methods: Dict[str, Set[str]]) -> int:
    """Helpers that no rule anchors on - module-level functions and methods that did not exist when the rules were written
    (fsa/known_names.json) - are read in place of their calls, everywhere in the module."""
    funcs = {n.name: n for n in tree.body if isinstance(n, ast.FunctionDef) and n.name not in known_functions}
    total = 0
    SENTINELS.clear()
    for n in tree.body:
        tgt = n.targets[0] if isinstance(n, ast.Assign) and len(n.targets) == 1 else (n.target if isinstance(n, ast.AnnAssign) else None)
        if isinstance(tgt, ast.Name) and isinstance(getattr(n, 'value', None), ast.Call) and isinstance(n.value.func, ast.Name) and n.value.func.id == 'object' and not n.value.args:
            SENTINELS.add(tgt.id)
    owners: List[ast.FunctionDef] = []
    for n in ast.walk(tree):
        if isinstance(n, ast.FunctionDef) and n.name not in funcs:
            owners.append(n)
    if funcs:
        # helpers may call each other: rewrite them too (after the owners, so that owners see the final bodies on later rounds)
        total += _inline_methods_in_class(None, funcs=funcs, owners=list(funcs.values()) + owners)
    for c in tree.body:
        if isinstance(c, ast.ClassDef):
            new_m = {m.name for m in c.body if isinstance(m, ast.FunctionDef)} - known_methods.get(c.name, set())
            new_m = {k for k in new_m if not (k.startswith('__') and k.endswith('__'))}
            if new_m:
                total += _inline_methods_in_class(c, any_name=new_m, keep=tuple(m.name for m in c.body if isinstance(m, ast.FunctionDef) and m.name not in new_m))
    return total


KNOWN_NESTED = {'get_check_values', 'strip_comments', 'process_term_match', 'replace_type', 'escape_braces', 'default_converter', 'resolve_strings', 'resolve_by_type_pair',
                'resolve_index_in_span', 'resolve_indexes', 'create_integer_array_definition', 'convert_to_int_or_none', 'convert', 'as_list'}


def inline_unknown_nested(tree: ast.Module) -> int:
    """Value-returning helpers nested in a function, other than those of the pinned tree (KNOWN_NESTED, which rules anchor
    on), are read in place of their calls in that function.  (Nested *procedures* are handled by inline_local_procedures.)
    A nested helper sees the enclosing locals as they are at the call, which is exactly what reading it in place does."""
    total = 0
    for f in [n for n in ast.walk(tree) if isinstance(n, ast.FunctionDef)]:
        nested = {s_.name: s_ for s_ in f.body if isinstance(s_, ast.FunctionDef) and s_.name not in KNOWN_NESTED
                  and any(isinstance(x, ast.Return) and x.value is not None for x in ast.walk(s_))}
        if not nested:
            continue
        # the name must be used only as a callee, by bare name, in this function
        for k in list(nested):
            uses = [x for x in ast.walk(f) if isinstance(x, ast.Name) and x.id == k]
            callees = {id(c.func) for c in ast.walk(f) if isinstance(c, ast.Call) and isinstance(c.func, ast.Name) and c.func.id == k}
            if any(id(u) not in callees for u in uses) or any(isinstance(x, (ast.Nonlocal, ast.Global)) for x in ast.walk(nested[k])):
                nested.pop(k)
        if nested:
            total += _inline_methods_in_class(None, funcs=nested, owners=[f])
    return total


def inline_private_methods(tree: ast.Module) -> int:
    total = 0
    for n in tree.body:
        if isinstance(n, ast.ClassDef):
            total += _inline_methods_in_class(n)
    return total


def inline_return_temps(tree: ast.Module) -> int:
    """`x = E` immediately followed by `return x`, with `x` used nowhere else in the function: read as `return E` (an
    explaining variable for the result says nothing a rule should depend on)."""
    total = 0
    for f in [n for n in ast.walk(tree) if isinstance(n, (ast.FunctionDef, ast.AsyncFunctionDef))]:
        uses: Dict[str, int] = {}
        for x in ast.walk(f):
            if isinstance(x, ast.Name):
                uses[x.id] = uses.get(x.id, 0) + 1
        params = {a.arg for a in f.args.posonlyargs + f.args.args + f.args.kwonlyargs}
        for blk_owner in ast.walk(f):
            for fld in ('body', 'orelse', 'finalbody'):
                blk = getattr(blk_owner, fld, None)
                if not isinstance(blk, list) or len(blk) < 2:
                    continue
                i = 0
                while i + 1 < len(blk):
                    a, r = blk[i], blk[i + 1]
                    if isinstance(a, ast.Assign) and len(a.targets) == 1 and isinstance(a.targets[0], ast.Name) and isinstance(r, ast.Return) \
                            and isinstance(r.value, ast.Name) and r.value.id == a.targets[0].id and uses.get(r.value.id, 0) == 2 and r.value.id not in params:
                        new = ast.copy_location(ast.Return(value=a.value), a)
                        blk[i:i + 2] = [new]
                        total += 1
                        continue
                    i += 1
    return total


def normalise_yoda(tree: ast.Module) -> int:
    """`0 == d`, `'strict' != name`, `Type.VERBATIM == s.type`, `None is x`, `0 > n`: a one-operator comparison with a constant
    (a literal, or a dotted name in capitals such as an enumeration member) on the left and something else on the right is
    read with the operands the other way round."""
    FLIP = {ast.Lt: ast.Gt, ast.Gt: ast.Lt, ast.LtE: ast.GtE, ast.GtE: ast.LtE, ast.Eq: ast.Eq, ast.NotEq: ast.NotEq, ast.Is: ast.Is, ast.IsNot: ast.IsNot}

    def constant_like(e: ast.AST) -> bool:
        if isinstance(e, ast.Constant):
            return True
        if isinstance(e, ast.UnaryOp) and isinstance(e.op, ast.USub) and isinstance(e.operand, ast.Constant):
            return True
        if isinstance(e, ast.Attribute) and isinstance(e.value, ast.Name) and e.attr.isupper() and e.value.id[:1].isupper():
            return True
        return False

    total = 0
    for x in ast.walk(tree):
        if isinstance(x, ast.Compare) and len(x.ops) == 1 and type(x.ops[0]) in FLIP and constant_like(x.left) and not constant_like(x.comparators[0]):
            x.left, x.comparators[0] = x.comparators[0], x.left
            x.ops = [FLIP[type(x.ops[0])]()]
            total += 1
    return total


def normalise_negated_if(tree: ast.Module) -> int:
    """`if not C: A else: B` (both branches present, B not an `elif` chain) is read as `if C: B else: A`."""
    total = 0
    for x in ast.walk(tree):
        if isinstance(x, ast.If) and x.orelse and isinstance(x.test, ast.UnaryOp) and isinstance(x.test.op, ast.Not) \
                and not (len(x.orelse) == 1 and isinstance(x.orelse[0], ast.If)):
            x.test = x.test.operand
            x.body, x.orelse = x.orelse, x.body
            total += 1
    return total


def normalise_small_forms(tree: ast.Module) -> int:
    """Three spellings read as one:
       `x = x + <number-like>`            as `x += <number-like>`   (a literal number, `len(...)`, or arithmetic over those);
       `(not a) or (not b)` / `and`       as `not (a and b)` / `not (a or b)`;
       `if a:` holding nothing but `if b: S` (no `else` on either)   as `if a and b: S`."""
    total = 0

    def number_like(e: ast.AST) -> bool:
        if isinstance(e, ast.Constant):
            return type(e.value) in (int, float)
        if isinstance(e, ast.Call) and isinstance(e.func, ast.Name) and e.func.id == 'len':
            return True
        if isinstance(e, ast.BinOp) and isinstance(e.op, (ast.Add, ast.Sub, ast.Mult)):
            return number_like(e.left) and number_like(e.right)
        return False

    class T(ast.NodeTransformer):
        def visit_Assign(self, node):
            nonlocal total
            self.generic_visit(node)
            if len(node.targets) == 1 and isinstance(node.targets[0], ast.Name) and isinstance(node.value, ast.BinOp) and isinstance(node.value.op, (ast.Add, ast.Sub)) \
                    and isinstance(node.value.left, ast.Name) and node.value.left.id == node.targets[0].id and number_like(node.value.right):
                total += 1
                return ast.copy_location(ast.AugAssign(target=ast.Name(id=node.targets[0].id, ctx=ast.Store()), op=node.value.op, value=node.value.right), node)
            return node

        def visit_BoolOp(self, node):
            nonlocal total
            self.generic_visit(node)
            if len(node.values) >= 2 and all(isinstance(v, ast.UnaryOp) and isinstance(v.op, ast.Not) for v in node.values):
                total += 1
                dual = ast.And() if isinstance(node.op, ast.Or) else ast.Or()
                return ast.copy_location(ast.UnaryOp(op=ast.Not(), operand=ast.BoolOp(op=dual, values=[v.operand for v in node.values])), node)
            return node

        def visit_If(self, node):
            nonlocal total
            self.generic_visit(node)
            if not node.orelse and len(node.body) == 1 and isinstance(node.body[0], ast.If) and not node.body[0].orelse:
                inner = node.body[0]
                vals = (node.test.values if isinstance(node.test, ast.BoolOp) and isinstance(node.test.op, ast.And) else [node.test]) + \
                       (inner.test.values if isinstance(inner.test, ast.BoolOp) and isinstance(inner.test.op, ast.And) else [inner.test])
                total += 1
                return ast.copy_location(ast.If(test=ast.BoolOp(op=ast.And(), values=vals), body=inner.body, orelse=[]), node)
            return node

    T().visit(tree)
    ast.fix_missing_locations(tree)
    return total


def _eval_order(n: ast.AST):
    """Sub-expressions of a simple statement / expression in the order Python evaluates them, as (node, conditional)."""
    def go(x, cond):
        if x is None:
            return
        if isinstance(x, ast.Assign):
            yield from go(x.value, cond)
            for t in x.targets:
                yield from go(t, cond)
        elif isinstance(x, ast.AnnAssign):
            yield from go(x.value, cond)
            yield from go(x.target, cond)
        elif isinstance(x, ast.AugAssign):
            yield from go(x.target, cond)
            yield from go(x.value, cond)
        elif isinstance(x, (ast.Expr, ast.Return)):
            yield from go(x.value, cond)
        elif isinstance(x, ast.Raise):
            yield from go(x.exc, cond)
            yield from go(x.cause, cond)
        elif isinstance(x, ast.Assert):
            yield from go(x.test, cond)
            yield from go(x.msg, True)
        elif isinstance(x, ast.BoolOp):
            for i, v in enumerate(x.values):
                yield from go(v, cond or i > 0)
        elif isinstance(x, ast.IfExp):
            yield from go(x.test, cond)
            yield from go(x.body, True)
            yield from go(x.orelse, True)
        elif isinstance(x, ast.Call):
            yield from go(x.func, cond)
            for a_ in x.args:
                yield from go(a_, cond)
            for k_ in x.keywords:
                yield from go(k_.value, cond)
            yield (x, cond)
        elif isinstance(x, (ast.Lambda, ast.ListComp, ast.SetComp, ast.DictComp, ast.GeneratorExp)):
            yield (x, cond)
        elif isinstance(x, ast.AST):
            for c_ in ast.iter_child_nodes(x):
                if isinstance(c_, (ast.expr, ast.keyword, ast.Slice)):
                    yield from go(c_, cond)
            if isinstance(x, ast.expr):
                yield (x, cond)
    yield from go(n, False)


def _evaluated_first(stmt: ast.AST, target: ast.Name) -> bool:
    for (x, cond) in _eval_order(stmt):
        if x is target:
            return not cond
        if isinstance(x, ast.Call) and isinstance(x.func, ast.Name) and x.func.id == 'super' and not x.args:
            continue                      # `super()` runs nothing of the program's
        if isinstance(x, (ast.Call, ast.Lambda, ast.ListComp, ast.SetComp, ast.DictComp, ast.GeneratorExp)):
            return False
    return False


def inline_single_use_temps(tree: ast.Module) -> int:
    """`t = E` immediately followed by a simple statement (or an `if` test) that reads `t` exactly once, `t` appearing nowhere
    else in the function: read with `E` in the place of `t` (an explaining variable for an argument or an operand).  Not
    across a comprehension / lambda boundary (E would be evaluated once per element), not for parameters, and not when E
    builds a container that the next statement might keep under the name."""
    total = 0
    for f in [n for n in ast.walk(tree) if isinstance(n, (ast.FunctionDef, ast.AsyncFunctionDef))]:
        params = {a.arg for a in f.args.posonlyargs + f.args.args + f.args.kwonlyargs}
        changed = True
        while changed:
            changed = False
            uses: Dict[str, int] = {}
            for x in ast.walk(f):
                if isinstance(x, ast.Name):
                    uses[x.id] = uses.get(x.id, 0) + 1
                elif isinstance(x, (ast.Global, ast.Nonlocal)):
                    for nm in x.names:
                        uses[nm] = uses.get(nm, 0) + 10
            for owner in ast.walk(f):
                for fld in ('body', 'orelse', 'finalbody'):
                    blk = getattr(owner, fld, None)
                    if not isinstance(blk, list) or len(blk) < 2:
                        continue
                    for i in range(len(blk) - 1):
                        a, b = blk[i], blk[i + 1]
                        if not (isinstance(a, ast.Assign) and len(a.targets) == 1 and isinstance(a.targets[0], ast.Name)):
                            continue
                        t = a.targets[0].id
                        if t in params or uses.get(t, 0) != 2:
                            continue
                        if isinstance(a.value, (ast.Dict, ast.List, ast.Set, ast.ListComp, ast.DictComp, ast.SetComp, ast.GeneratorExp, ast.Lambda, ast.Yield, ast.Await,
                                                ast.IfExp, ast.JoinedStr, ast.BoolOp)):
                            continue        # containers built in place; and choices / formatted pieces, which read better under their names
                        if isinstance(b, (ast.Assign, ast.AugAssign, ast.AnnAssign, ast.Expr, ast.Return, ast.Raise, ast.Assert)):
                            scope_roots = [b]
                        elif isinstance(b, (ast.If, ast.While)):
                            scope_roots = [b.test]
                        else:
                            continue
                        # the single read, outside any nested scope
                        hits = []
                        def walk(n_, nested):
                            for c_ in ast.iter_child_nodes(n_):
                                ns = nested or isinstance(c_, (ast.Lambda, ast.ListComp, ast.SetComp, ast.DictComp, ast.GeneratorExp, ast.FunctionDef))
                                if isinstance(c_, ast.Name) and c_.id == t and isinstance(c_.ctx, ast.Load):
                                    hits.append((c_, ns))
                                walk(c_, ns)
                        for r_ in scope_roots:
                            if isinstance(r_, ast.Name) and r_.id == t:
                                hits.append((r_, False))
                            walk(r_, False)
                        if len(hits) != 1 or hits[0][1]:
                            continue
                        if any(isinstance(j_, ast.JoinedStr) and any(y is hits[0][0] for y in ast.walk(j_)) for r_ in scope_roots for j_ in ast.walk(r_)):
                            continue        # not into a formatted string
                        # moving E to where `t` is read must not move it past anything that runs: if E makes a call, the read has to
                        # be the first thing the next statement evaluates, unconditionally (`x[t] = g()` evaluates g() first)
                        if any(isinstance(y, ast.Call) for y in ast.walk(a.value)) and not _evaluated_first(b if not isinstance(b, (ast.If, ast.While)) else b.test, hits[0][0]):
                            continue
                        if isinstance(b, (ast.Assign, ast.AugAssign)) and any(isinstance(y, ast.Name) and y.id == t and isinstance(y.ctx, ast.Store) for y in ast.walk(b)):
                            continue
                        target = hits[0][0]

                        class S(ast.NodeTransformer):
                            def visit_Name(self, node):
                                return a.value if node is target else node
                        if isinstance(b, (ast.If, ast.While)):
                            b.test = S().visit(b.test) if b.test is not target else a.value
                        else:
                            S().visit(b)
                        del blk[i]
                        total += 1
                        changed = True
                        break
                    if changed:
                        break
                if changed:
                    break
    ast.fix_missing_locations(tree)
    return total
