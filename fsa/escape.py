"""Exception-escape summaries.

esc(f) = explicit raises of f not caught by an enclosing handler
       + `assert` statements (AssertionError)
       + sites of a frozen table of implicit raisers used in the package
       + esc(callee) for every resolved call, filtered through the handlers
         that enclose the call site.

Handlers are modelled: a site inside a `try` body is removed when a handler
class covers it; the handler's own raises are sites of their own.  Resolution
is name-based inside one module (bare names -> module functions and nested
functions; `.attr(...)` / `.attr` -> methods / properties of the module's
classes; `str(x)` -> `__str__` of the module's classes).
"""

from __future__ import annotations

import ast
from dataclasses import dataclass
from typing import Dict, List, Optional, Set, Tuple

from .cfg import ExcHierarchy, handler_names, raised_class
from .match import dotted, is_call, method_call
from .source import FunctionInfo, Repo, iter_own_nodes, text


@dataclass(frozen=True)
class Site:
    exc: str
    kind: str  # 'raise', 'assert', or a raiser-table kind
    func: str  # qualified name of the function containing the site
    key: str  # normalised text of the statement / expression
    line: int


def _parents(fnode: ast.AST) -> Dict[int, ast.AST]:
    par: Dict[int, ast.AST] = {}
    for n in ast.walk(fnode):
        for c in ast.iter_child_nodes(n):
            par[id(c)] = n
    return par


def enclosing_handlers(par: Dict[int, ast.AST], node: ast.AST, stop: ast.AST) -> List[ast.Try]:
    """Try statements whose *body* contains `node`, innermost first."""
    out = []
    child, cur = node, par.get(id(node))
    while cur is not None and child is not stop:
        if isinstance(cur, ast.Try) and any(child is s for s in cur.body):
            out.append(cur)
        child, cur = cur, par.get(id(cur))
    return out


class Escape:
    def __init__(self, repo: Repo, modname: str, hierarchy: ExcHierarchy) -> None:
        self.repo = repo
        self.mod = repo.module(modname)
        self.modname = modname
        self.h = hierarchy
        self.funcs: Dict[str, FunctionInfo] = {
            q: f for q, f in repo.functions.items() if q.startswith(modname + '.')
        }
        self.by_name: Dict[str, List[FunctionInfo]] = {}
        for f in self.funcs.values():
            self.by_name.setdefault(f.name, []).append(f)
        self.props: Set[str] = set()
        for f in self.funcs.values():
            for d in f.node.decorator_list:
                if isinstance(d, ast.Name) and d.id == 'property':
                    self.props.add(f.name)
        self._memo: Dict[str, Set[Site]] = {}
        self._stack: List[str] = []
        self.recursive: Set[str] = set()

    # -- resolution ----------------------------------------------------------
    def callees(self, f: FunctionInfo, node: ast.AST) -> List[FunctionInfo]:
        out: List[FunctionInfo] = []
        if isinstance(node, ast.Call):
            fn = node.func
            if isinstance(fn, ast.Name):
                if fn.id == 'str' and node.args and not isinstance(node.args[0], ast.Constant):
                    out += self.by_name.get('__str__', [])
                # nested function of f (or of its parents) first, then module level
                cands = [g for g in self.by_name.get(fn.id, [])]
                nested = [g for g in cands if g.qualname.startswith(f.qualname + '.<locals>.')]
                scope = f
                while not nested and scope.parent is not None:
                    scope = scope.parent
                    nested = [g for g in cands if g.qualname.startswith(scope.qualname + '.<locals>.')]
                if nested:
                    out += nested
                else:
                    out += [g for g in cands if g.qualname == f'{self.modname}.{fn.id}']
            elif isinstance(fn, ast.Attribute):
                if fn.attr in self.by_name and fn.attr not in ('format', 'get', 'append', 'join', 'strip', 'split', 'index', 'items', 'values', 'keys'):
                    out += [g for g in self.by_name[fn.attr] if g.cls is not None]
        elif isinstance(node, ast.Attribute) and isinstance(node.ctx, ast.Load) and node.attr in self.props:
            out += [g for g in self.by_name.get(node.attr, []) if g.cls is not None]
        elif isinstance(node, ast.Name) and isinstance(node.ctx, ast.Load) and node.id in self.by_name:
            # a function passed by reference (map(strip_comments, ...), filter(f, ...))
            cands = self.by_name[node.id]
            out += [g for g in cands if g.qualname.startswith(f.qualname + '.<locals>.')]
        return out

    # -- raiser table --------------------------------------------------------
    def table_sites(self, f: FunctionInfo, node: ast.AST) -> List[Tuple[str, str]]:
        """(exception class, kind) for implicit raisers at `node`."""
        out: List[Tuple[str, str]] = []
        if isinstance(node, ast.Call):
            d = dotted(node.func)
            if d == 'int' and node.args and not isinstance(node.args[0], ast.Constant):
                out.append(('ValueError', 'int()'))
            if d in ('exec', 'eval'):
                out.append(('BaseException', d + '()'))
            if d == 'compile':
                if 'PyCF_ONLY_AST' in text(node):
                    out.append(('SyntaxError', 'ast.parse()'))
                else:
                    out.append(('SyntaxError', 'compile()'))
            if d == 'ast.parse':
                out.append(('SyntaxError', 'ast.parse()'))
            if d == 'next' and len(node.args) == 1:
                out.append(('StopIteration', 'next()'))
            if method_call(node, 'format') and not isinstance(node.func.value, ast.Constant):
                out += [('ValueError', 'str.format()'), ('IndexError', 'str.format()'), ('KeyError', 'str.format()')]
            if method_call(node, 'index') and len(node.args) >= 1:
                out.append(('ValueError', '.index()'))
        if isinstance(node, ast.Subscript) and isinstance(node.ctx, ast.Load):
            b = dotted(node.value)
            if b and b.split('.')[-1] in ('Type', 'SolutionStatus') and not isinstance(node.slice, ast.Constant):
                out.append(('KeyError', 'Enum[name]'))
        if isinstance(node, ast.Subscript) and isinstance(node.ctx, ast.Load) and isinstance(node.value, ast.Name) \
                and isinstance(node.slice, (ast.Constant, ast.UnaryOp)) and not isinstance(getattr(node.slice, 'value', None), str):
            # s[0] / s[-1] on a string captured by a regex group (may be empty): IndexError unless guarded
            nm = node.value.id
            captured = False
            gd_names = {t.id for a in ast.walk(f.node) if isinstance(a, ast.Assign) and method_call(a.value, 'groupdict')
                        for t in a.targets if isinstance(t, ast.Name)}
            for a in ast.walk(f.node):
                if isinstance(a, ast.Assign) and any(isinstance(t, ast.Name) and t.id == nm for t in a.targets):
                    v = a.value
                    if (isinstance(v, ast.Subscript) and ('groupdict' in text(v.value) or (isinstance(v.value, ast.Name) and v.value.id in gd_names))) \
                            or (isinstance(v, ast.Call) and isinstance(v.func, ast.Attribute) and v.func.attr == 'group'):
                        captured = True
            if captured:
                out.append(('IndexError', 'index of a regex capture'))
        if isinstance(node, ast.Assign) and isinstance(node.targets[0], (ast.Tuple, ast.List)) \
                and method_call(node.value, 'split', 'rsplit', 'partition'):
            if node.value.func.attr != 'partition':
                out.append(('ValueError', 'unpack of split()'))
        return out

    # -- summary -------------------------------------------------------------
    def esc(self, q: str) -> Set[Site]:
        if q in self._memo:
            return self._memo[q]
        if q in self._stack:
            self.recursive.add(q)
            return set()
        self._stack.append(q)
        f = self.funcs[q]
        par = _parents(f.node)
        out: Set[Site] = set()

        def through_handlers(node: ast.AST, exc: str) -> Optional[str]:
            """Class that escapes the handlers around `node` (None = caught)."""
            for tr in enclosing_handlers(par, node, f.node):
                for h in tr.handlers:
                    names = handler_names(h)
                    if any(self.h.is_sub(exc, n) for n in names):
                        return None
                    if not self.h.known(exc) and any(n in ('Exception', 'BaseException') for n in names):
                        return None
                    # a handler for a subclass catches only part: keep the class (conservative)
            return exc

        for n in iter_own_nodes(f.node):
            if isinstance(n, ast.Raise):
                cls = raised_class(n)
                if cls is None:
                    continue  # bare re-raise: the original class was already accounted for
                e = through_handlers(n, cls)
                if e:
                    out.add(Site(e, 'raise', q, text(n)[:120], n.lineno))
            elif isinstance(n, ast.Assert):
                e = through_handlers(n, 'AssertionError')
                if e:
                    out.add(Site(e, 'assert', q, text(n)[:120], n.lineno))
            for (cls, kind) in self.table_sites(f, n):
                e = through_handlers(n, cls)
                if e:
                    out.add(Site(e, kind, q, text(n)[:120], getattr(n, 'lineno', 0)))
            for g in self.callees(f, n):
                if g.qualname == q:
                    self.recursive.add(q)
                    continue
                for s in self.esc(g.qualname):
                    e = through_handlers(n, s.exc)
                    if e:
                        out.add(s)
        self._stack.pop()
        self._memo[q] = out
        return out

    def reachable_functions(self, q: str) -> Set[str]:
        seen: Set[str] = set()
        stack = [q]
        while stack:
            c = stack.pop()
            if c in seen or c not in self.funcs:
                continue
            seen.add(c)
            f = self.funcs[c]
            for n in iter_own_nodes(f.node):
                for g in self.callees(f, n):
                    stack.append(g.qualname)
        return seen
