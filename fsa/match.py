"""AST matching helpers and normalisers (the anti-brittleness layer).

Rules compare *normal forms*, never source text positions:
 - integer index expressions -> affine normal form (`-1 - self.leads` == `-(self.leads + 1)`)
 - comparisons -> canonical `affine (<|<=|==|!=) 0`, oriented
 - call targets -> dotted names with aliases of numpy resolved (`np.absolute` == `np.abs`)
"""

from __future__ import annotations

import ast
from fractions import Fraction
from typing import Dict, Iterable, Iterator, List, Optional, Sequence, Tuple, Union

from .source import text, iter_own_nodes


# ---------------------------------------------------------------------------
# basic shapes
# ---------------------------------------------------------------------------

def dotted(node: ast.AST) -> Optional[str]:
    """`a.b.c` for Name/Attribute chains, else None."""
    parts = []
    while isinstance(node, ast.Attribute):
        parts.append(node.attr)
        node = node.value
    if isinstance(node, ast.Name):
        parts.append(node.id)
        return '.'.join(reversed(parts))
    return None


def call_name(node: ast.AST) -> Optional[str]:
    if isinstance(node, ast.Call):
        return dotted(node.func)
    return None


def is_call(node: ast.AST, *names: str) -> bool:
    return isinstance(node, ast.Call) and dotted(node.func) in names


def method_call(node: ast.AST, *attrs: str) -> bool:
    """`<expr>.attr(...)` with attr in attrs."""
    return isinstance(node, ast.Call) and isinstance(node.func, ast.Attribute) and node.func.attr in attrs


def is_self_call(node: ast.AST, *methods: str, self_name: str = 'self') -> bool:
    return (
        isinstance(node, ast.Call)
        and isinstance(node.func, ast.Attribute)
        and isinstance(node.func.value, ast.Name)
        and node.func.value.id == self_name
        and (not methods or node.func.attr in methods)
    )


def is_super_call(node: ast.AST, *methods: str) -> bool:
    """`super().m(...)`"""
    return (
        isinstance(node, ast.Call)
        and isinstance(node.func, ast.Attribute)
        and isinstance(node.func.value, ast.Call)
        and isinstance(node.func.value.func, ast.Name)
        and node.func.value.func.id == 'super'
        and (not methods or node.func.attr in methods)
    )


def const_value(node: ast.AST):
    if isinstance(node, ast.Constant):
        return node.value
    if isinstance(node, ast.UnaryOp) and isinstance(node.op, ast.USub) and isinstance(node.operand, ast.Constant):
        v = node.operand.value
        if isinstance(v, (int, float)):
            return -v
    raise ValueError('not a constant')


def is_const(node: ast.AST, value=...) -> bool:
    try:
        v = const_value(node)
    except ValueError:
        return False
    if value is ...:
        return True
    return v == value and type(v) is type(value)


def calls_in(root: ast.AST, own_scope: bool = True) -> Iterator[ast.Call]:
    it = iter_own_nodes(root) if own_scope and isinstance(root, (ast.FunctionDef, ast.AsyncFunctionDef)) else ast.walk(root)
    for n in it:
        if isinstance(n, ast.Call):
            yield n


def kwarg(call: ast.Call, name: str) -> Optional[ast.AST]:
    for k in call.keywords:
        if k.arg == name:
            return k.value
    return None


def has_star_kwargs(call: ast.Call, name: Optional[str] = None) -> bool:
    for k in call.keywords:
        if k.arg is None:
            if name is None or (isinstance(k.value, ast.Name) and k.value.id == name):
                return True
    return False


def has_star_args(call: ast.Call, name: Optional[str] = None) -> bool:
    for a in call.args:
        if isinstance(a, ast.Starred):
            if name is None or (isinstance(a.value, ast.Name) and a.value.id == name):
                return True
    return False


# ---------------------------------------------------------------------------
# affine normal form over opaque atoms
# ---------------------------------------------------------------------------

class Affine:
    """c0 + sum(ci * atom_i); atoms are normalised source texts."""

    def __init__(self, const: Fraction = Fraction(0), terms: Optional[Dict[str, Fraction]] = None) -> None:
        self.const = Fraction(const)
        self.terms: Dict[str, Fraction] = {k: Fraction(v) for k, v in (terms or {}).items() if v != 0}

    def __add__(self, o: 'Affine') -> 'Affine':
        t = dict(self.terms)
        for k, v in o.terms.items():
            t[k] = t.get(k, Fraction(0)) + v
        return Affine(self.const + o.const, t)

    def scale(self, k) -> 'Affine':
        k = Fraction(k)
        return Affine(self.const * k, {a: v * k for a, v in self.terms.items()})

    def __sub__(self, o: 'Affine') -> 'Affine':
        return self + o.scale(-1)

    def __eq__(self, o: object) -> bool:
        return isinstance(o, Affine) and self.const == o.const and self.terms == o.terms

    def __hash__(self) -> int:
        return hash((self.const, tuple(sorted(self.terms.items()))))

    def is_const(self) -> bool:
        return not self.terms

    def __repr__(self) -> str:
        parts = []
        for a in sorted(self.terms):
            c = self.terms[a]
            if c == 1:
                parts.append(f'+{a}')
            elif c == -1:
                parts.append(f'-{a}')
            else:
                parts.append(f'{"+" if c > 0 else ""}{c}*{a}')
        if self.const != 0 or not parts:
            parts.append(f'{"+" if self.const >= 0 else ""}{self.const}')
        return ''.join(parts).lstrip('+')


def affine(node: ast.AST, subst: Optional[Dict[str, 'Affine']] = None) -> Affine:
    """Affine normal form of an integer expression.  Non-arithmetic
    sub-expressions become opaque atoms keyed by their normalised text."""
    subst = subst or {}
    if isinstance(node, ast.Constant) and isinstance(node.value, (int, float)) and not isinstance(node.value, bool):
        return Affine(Fraction(node.value))
    if isinstance(node, ast.UnaryOp) and isinstance(node.op, ast.USub):
        return affine(node.operand, subst).scale(-1)
    if isinstance(node, ast.UnaryOp) and isinstance(node.op, ast.UAdd):
        return affine(node.operand, subst)
    if isinstance(node, ast.BinOp):
        if isinstance(node.op, ast.Add):
            return affine(node.left, subst) + affine(node.right, subst)
        if isinstance(node.op, ast.Sub):
            return affine(node.left, subst) - affine(node.right, subst)
        if isinstance(node.op, ast.Mult):
            l, r = affine(node.left, subst), affine(node.right, subst)
            if l.is_const():
                return r.scale(l.const)
            if r.is_const():
                return l.scale(r.const)
    key = text(node)
    if key in subst:
        return subst[key]
    return Affine(Fraction(0), {key: Fraction(1)})


class Cmp:
    """Canonical comparison `expr OP 0` with OP in {'<', '<=', '==', '!='}."""

    def __init__(self, op: str, expr: Affine) -> None:
        self.op = op
        self.expr = expr

    def negate(self) -> 'Cmp':
        if self.op == '<':  # not (e < 0)  ==  -e <= 0
            return Cmp('<=', self.expr.scale(-1))
        if self.op == '<=':
            return Cmp('<', self.expr.scale(-1))
        if self.op == '==':
            return Cmp('!=', self.expr)
        return Cmp('==', self.expr)

    def as_int(self) -> 'Cmp':
        """Over the integers `e <= 0` is `e - 1 < 0`."""
        if self.op == '<=':
            return Cmp('<', self.expr + Affine(Fraction(-1)))
        return self

    def __eq__(self, o: object) -> bool:
        if not isinstance(o, Cmp):
            return False
        if self.op != o.op:
            return False
        if self.op in ('==', '!='):
            return self.expr == o.expr or self.expr == o.expr.scale(-1)
        return self.expr == o.expr

    def __hash__(self) -> int:
        return hash((self.op, self.expr))

    def __repr__(self) -> str:
        return f'({self.expr!r}) {self.op} 0'


def cmp_of(node: ast.AST, subst: Optional[Dict[str, Affine]] = None) -> Optional[Cmp]:
    """Canonical form of a single two-operand comparison, else None."""
    neg = False
    while isinstance(node, ast.UnaryOp) and isinstance(node.op, ast.Not):
        neg = not neg
        node = node.operand
    if not (isinstance(node, ast.Compare) and len(node.ops) == 1):
        return None
    l = affine(node.left, subst)
    r = affine(node.comparators[0], subst)
    op = node.ops[0]
    if isinstance(op, ast.Lt):
        c = Cmp('<', l - r)
    elif isinstance(op, ast.LtE):
        c = Cmp('<=', l - r)
    elif isinstance(op, ast.Gt):
        c = Cmp('<', r - l)
    elif isinstance(op, ast.GtE):
        c = Cmp('<=', r - l)
    elif isinstance(op, ast.Eq):
        c = Cmp('==', l - r)
    elif isinstance(op, ast.NotEq):
        c = Cmp('!=', l - r)
    else:
        return None
    return c.negate() if neg else c


def conj_atoms(node: ast.AST) -> List[ast.AST]:
    """Conjuncts of an `and` chain (a single expression is its own conjunct)."""
    if isinstance(node, ast.BoolOp) and isinstance(node.op, ast.And):
        out: List[ast.AST] = []
        for v in node.values:
            out += conj_atoms(v)
        return out
    return [node]


def disj_atoms(node: ast.AST) -> List[ast.AST]:
    if isinstance(node, ast.BoolOp) and isinstance(node.op, ast.Or):
        out: List[ast.AST] = []
        for v in node.values:
            out += disj_atoms(v)
        return out
    return [node]


def str_eq_test(node: ast.AST) -> Optional[Tuple[str, str, bool]]:
    """`name == 'lit'` / `'lit' == name` / `name != 'lit'` -> (name, lit, positive)."""
    if isinstance(node, ast.Compare) and len(node.ops) == 1 and isinstance(node.ops[0], (ast.Eq, ast.NotEq)):
        a, b = node.left, node.comparators[0]
        pos = isinstance(node.ops[0], ast.Eq)
        if isinstance(b, ast.Constant) and isinstance(b.value, str):
            nm = dotted(a) or text(a)
            return (nm, b.value, pos)
        if isinstance(a, ast.Constant) and isinstance(a.value, str):
            nm = dotted(b) or text(b)
            return (nm, a.value, pos)
    return None


# ---------------------------------------------------------------------------
# numpy idioms
# ---------------------------------------------------------------------------

NP_ALIASES = ('np', 'numpy')
ABS_FUNCS = {f'{m}.{f}' for m in NP_ALIASES for f in ('abs', 'absolute', 'fabs')} | {'abs'}
ALL_FUNCS = {f'{m}.all' for m in NP_ALIASES} | {f'{m}.alltrue' for m in NP_ALIASES}
ANY_FUNCS = {f'{m}.any' for m in NP_ALIASES}
ISFINITE = {f'{m}.isfinite' for m in NP_ALIASES}


def nonfinite_test(node: ast.AST) -> Optional[str]:
    """Recognise `np.any(~np.isfinite(X))`, `not np.all(np.isfinite(X))`,
    `(~np.isfinite(X)).any()`, `np.isnan(X).any() or np.isinf(X).any()` is NOT
    accepted (unknown idiom).  Returns the normalised text of X."""
    neg = False
    n = node
    while isinstance(n, ast.UnaryOp) and isinstance(n.op, ast.Not):
        neg = not neg
        n = n.operand
    inner = None
    kind = None
    if isinstance(n, ast.Call) and dotted(n.func) in ANY_FUNCS and len(n.args) == 1:
        inner, kind = n.args[0], 'any'
    elif isinstance(n, ast.Call) and dotted(n.func) in ALL_FUNCS and len(n.args) == 1:
        inner, kind = n.args[0], 'all'
    elif method_call(n, 'any') and not n.args:
        inner, kind = n.func.value, 'any'
    elif method_call(n, 'all') and not n.args:
        inner, kind = n.func.value, 'all'
    if inner is None:
        return None
    inv = False
    while isinstance(inner, ast.UnaryOp) and isinstance(inner.op, (ast.Invert, ast.Not)):
        inv = not inv
        inner = inner.operand
    if isinstance(inner, ast.Call) and dotted(inner.func) == 'np.logical_not' and len(inner.args) == 1:
        inv = not inv
        inner = inner.args[0]
    if not (isinstance(inner, ast.Call) and dotted(inner.func) in ISFINITE and len(inner.args) == 1):
        return None
    x = text(inner.args[0])
    # any(~finite) , not all(finite)  -> "some non-finite"
    if kind == 'any' and inv and not neg:
        return x
    if kind == 'all' and not inv and neg:
        return x
    return None


class Unknown(Exception):
    """An idiom outside the accepted table."""


class Wrong(Unknown):
    """A shape that is positively not the required predicate (reported as a
    violation by the rule that owns it, INCONCLUSIVE for rules that only need
    to locate the construct)."""


def convergence_test(node: ast.AST) -> Tuple[str, str, ast.AST, ast.AST, bool]:
    """Recognise the accepted forms of the convergence predicate.

    Returns (quantifier, op, operand, tol_expr, has_abs) where quantifier is
    'all' or 'any' (of the element-wise test), op in {'<', '<=', '>', '>='} is
    the element-wise comparison oriented as `operand OP tol`, and has_abs tells
    whether the operand was wrapped in an absolute-value call (then `operand`
    is the argument of that call).  Raises Unknown if the shape is not in the
    table.
    """
    neg = False
    n = node
    while isinstance(n, ast.UnaryOp) and isinstance(n.op, ast.Not):
        neg = not neg
        n = n.operand
    while isinstance(n, ast.Call) and isinstance(n.func, ast.Name) and n.func.id == 'bool' and len(n.args) == 1 and not n.keywords:
        n = n.args[0]
        while isinstance(n, ast.UnaryOp) and isinstance(n.op, ast.Not):
            neg = not neg
            n = n.operand
    quant = None
    inner = None
    if isinstance(n, ast.Call) and dotted(n.func) in (ALL_FUNCS | {'all'}) and len(n.args) == 1:
        quant, inner = 'all', n.args[0]
    elif isinstance(n, ast.Call) and dotted(n.func) in (ANY_FUNCS | {'any'}) and len(n.args) == 1:
        quant, inner = 'any', n.args[0]
    elif method_call(n, 'all') and not n.args:
        quant, inner = 'all', n.func.value
    elif method_call(n, 'any') and not n.args:
        quant, inner = 'any', n.func.value
    if quant is None and isinstance(n, ast.Call) and (dotted(n.func) or '').split('.')[-1] in ('allclose', 'isclose', 'array_equal', 'array_equiv'):
        raise Wrong(f'`{text(node)}`: {(dotted(n.func) or "").split(".")[-1]}() is not the stated test (a relative tolerance is added / equality is tested); '
                    f'expected every |movement| < tol')
    if quant is None and isinstance(n, ast.Compare) and len(n.ops) == 1:
        # norm-based tests: only the infinity norm equals the per-variable maximum
        for side, other in ((n.left, n.comparators[0]), (n.comparators[0], n.left)):
            if isinstance(side, ast.Call) and (dotted(side.func) or '').endswith('linalg.norm'):
                ord_ = side.args[1] if len(side.args) > 1 else kwarg(side, 'ord')
                if ord_ is not None and text(ord_) in ('np.inf', 'numpy.inf', 'inf', "float('inf')", 'math.inf'):
                    opmap = {ast.Lt: '<', ast.LtE: '<=', ast.Gt: '>', ast.GtE: '>='}
                    op = opmap.get(type(n.ops[0]))
                    if op is not None:
                        if side is n.comparators[0]:
                            op = {'<': '>', '<=': '>=', '>': '<', '>=': '<='}[op]
                        q, o = _apply_neg('all', op, neg)
                        r_ = ConvTest((q, o, side.args[0], other, True))
                        r_.nan_permissive = bool(neg)
                        return r_
                raise Wrong(f'`{text(node)}`: a vector norm other than the infinity norm is compared with tol: with two or more check variables each may move '
                            f'by less than tol while the norm does not (expected every |movement| < tol)')
            # max(abs(d)) OP tol : equivalent for non-empty d, raises ValueError for an empty check list
            if isinstance(side, ast.Call) and ((dotted(side.func) or '').split('.')[-1] in ('max', 'amax') or method_call(side, 'max')):
                inner_ = side.args[0] if side.args else (side.func.value if isinstance(side.func, ast.Attribute) else None)
                if inner_ is not None and abs_arg(inner_) is not None:
                    raise Wrong(f'`{text(node)}`: the maximum of |movement| raises ValueError when there is no check variable at all (a model without '
                                f'endogenous variables must solve trivially); expected all(|movement| < tol), which is True for an empty list')
    if quant is None:
        # abs(<reduction of a signed quantity>) OP tol : the absolute value is taken after the reduction
        if isinstance(n, ast.Compare) and len(n.ops) == 1:
            for side in (n.left, n.comparators[0]):
                a = abs_arg(side)
                if a is not None:
                    red = None
                    if method_call(a, 'max', 'min', 'sum', 'mean') and not a.args:
                        red = a.func.attr
                    elif isinstance(a, ast.Call) and (dotted(a.func) or '').split('.')[-1] in ('max', 'min', 'sum', 'mean', 'amax', 'amin') and len(a.args) == 1:
                        red = (dotted(a.func) or '').split('.')[-1]
                    if red:
                        raise Wrong(f'`{text(node)}` takes the absolute value *after* reducing with {red}(): movements of opposite sign are '
                                    f'ignored or cancel (expected: every |movement| < tol)')
        raise Unknown(f'no all/any reduction in `{text(node)}`')
    if isinstance(inner, (ast.GeneratorExp, ast.ListComp)):
        if len(inner.generators) != 1 or inner.generators[0].ifs:
            raise Unknown('filtered or nested generator in convergence test')
        elt = inner.elt
        it = inner.generators[0].iter
        var = inner.generators[0].target
        # nested reduction: all(np.all(P(v)) for v in D) -- same quantifier twice
        inner_perm = False
        try:
            rr_ = convergence_test(elt)
            q2, op, d, tol, has_abs = rr_
            inner_perm = getattr(rr_, 'nan_permissive', False)
            if q2 != quant:
                quant = 'any'  # an existential layer anywhere makes the whole test existential
        except Wrong:
            raise
        except Unknown:
            op, d, tol, has_abs = elementwise(elt)
        if isinstance(var, ast.Name) and isinstance(d, ast.Name) and d.id == var.id:
            d = it
        q, o = _apply_neg(quant, op, neg)
        r_ = ConvTest((q, o, d, tol, has_abs))
        r_.nan_permissive = bool(neg) != bool(inner_perm)
        return r_
    op, d, tol, has_abs = elementwise(inner)
    q, o = _apply_neg(quant, op, neg)
    r_ = ConvTest((q, o, d, tol, has_abs))
    r_.nan_permissive = bool(neg)
    return r_


class ConvTest(tuple):
    """(quantifier, op, operand, tol, has_abs) plus `nan_permissive`: the comparison was read through a negation
    (`not (x >= tol)` as `x < tol`), which is the same for numbers but not for NaN - NaN compares False both ways, so a
    NaN movement passes the negated form (`not any(|d| >= tol)`) and fails the plain one (`all(|d| < tol)`)."""
    nan_permissive = False


def _apply_neg(quant: str, op: str, neg: bool) -> Tuple[str, str]:
    _apply_neg.last_flipped = bool(neg)
    if not neg:
        return (quant, op)
    # not all(p) == any(not p); not any(p) == all(not p)
    flip = {'<': '>=', '<=': '>', '>': '<=', '>=': '<'}
    return ('any' if quant == 'all' else 'all', flip[op])


def abs_arg(x: ast.AST) -> Optional[ast.AST]:
    if isinstance(x, ast.Call) and dotted(x.func) in ABS_FUNCS and len(x.args) == 1 and not x.keywords:
        return x.args[0]
    return None


def elementwise(n: ast.AST, tol_name: str = 'tol') -> Tuple[str, ast.AST, ast.AST, bool]:
    if not (isinstance(n, ast.Compare) and len(n.ops) == 1):
        raise Unknown(f'element-wise test is not a single comparison: `{text(n)}`')
    l, r = n.left, n.comparators[0]
    opmap = {ast.Lt: '<', ast.LtE: '<=', ast.Gt: '>', ast.GtE: '>='}
    op = opmap.get(type(n.ops[0]))
    if op is None:
        raise Unknown(f'unsupported comparison operator in `{text(n)}`')
    flip = {'<': '>', '<=': '>=', '>': '<', '>=': '<='}
    la, ra = abs_arg(l), abs_arg(r)
    if la is not None and ra is None:
        return (op, la, r, True)
    if ra is not None and la is None:
        return (flip[op], ra, l, True)
    # no absolute value: orient by the tolerance name
    if isinstance(r, ast.Name) and r.id == tol_name:
        return (op, l, r, False)
    if isinstance(l, ast.Name) and l.id == tol_name:
        return (flip[op], r, l, False)
    raise Unknown(f'cannot orient element-wise test `{text(n)}` (no abs(), no `{tol_name}` operand)')


# ---------------------------------------------------------------------------
# series / backing store access
# ---------------------------------------------------------------------------

def dict_slot(node: ast.AST) -> Optional[Tuple[str, ast.AST]]:
    """`X.__dict__[key]` -> (text(X), key)"""
    if (
        isinstance(node, ast.Subscript)
        and isinstance(node.value, ast.Attribute)
        and node.value.attr == '__dict__'
    ):
        return (text(node.value.value), node.slice)
    return None


def is_underscore_key(key: ast.AST) -> Optional[ast.AST]:
    """`'_' + name` or f'_{name}' -> the name expression."""
    if isinstance(key, ast.BinOp) and isinstance(key.op, ast.Add) and is_const(key.left, '_'):
        return key.right
    if isinstance(key, ast.JoinedStr) and len(key.values) == 2:
        a, b = key.values
        if isinstance(a, ast.Constant) and a.value == '_' and isinstance(b, ast.FormattedValue):
            return b.value
    return None


def subscript_store_targets(stmt: ast.AST) -> List[ast.Subscript]:
    out = []
    tgts: List[ast.AST] = []
    if isinstance(stmt, ast.Assign):
        tgts = list(stmt.targets)
    elif isinstance(stmt, (ast.AugAssign, ast.AnnAssign)):
        tgts = [stmt.target]
    for t in tgts:
        for x in ast.walk(t):
            if isinstance(x, ast.Subscript) and isinstance(x.ctx, ast.Store):
                out.append(x)
    return out


def attr_store_targets(stmt: ast.AST) -> List[ast.Attribute]:
    out = []
    tgts: List[ast.AST] = []
    if isinstance(stmt, ast.Assign):
        tgts = list(stmt.targets)
    elif isinstance(stmt, (ast.AugAssign, ast.AnnAssign)):
        tgts = [stmt.target]
    for t in tgts:
        for x in ast.walk(t):
            if isinstance(x, ast.Attribute) and isinstance(x.ctx, ast.Store):
                out.append(x)
    return out


def root_name(node: ast.AST) -> Optional[str]:
    """Leftmost Name of an attribute/subscript/call chain."""
    while True:
        if isinstance(node, ast.Name):
            return node.id
        if isinstance(node, (ast.Attribute, ast.Subscript, ast.Starred)):
            node = node.value
        elif isinstance(node, ast.Call):
            node = node.func
        else:
            return None


def enum_value_ref(node: ast.AST, enum_name: str = 'SolutionStatus') -> Optional[str]:
    """`SolutionStatus.X.value` -> 'X'"""
    if isinstance(node, ast.Attribute) and node.attr == 'value':
        d = dotted(node.value)
        if d and d.split('.')[-2:-1] == [enum_name]:
            return d.split('.')[-1]
    return None


# ---------------------------------------------------------------------------
# predicates for Run.require (searching callees for a moved element)
# ---------------------------------------------------------------------------

def pred_call_attr(*attrs: str):
    return lambda n: isinstance(n, ast.Call) and isinstance(n.func, ast.Attribute) and n.func.attr in attrs


def pred_raise(*classes: str):
    def p(n: ast.AST) -> bool:
        if not isinstance(n, ast.Raise) or n.exc is None:
            return False
        e = n.exc.func if isinstance(n.exc, ast.Call) else n.exc
        return (dotted(e) or '').split('.')[-1] in classes
    return p


def pred_series_store(series: str, aug: Optional[bool] = None):
    def p(n: ast.AST) -> bool:
        if isinstance(n, ast.Assign) and aug is not True:
            tg = n.targets
        elif isinstance(n, ast.AugAssign) and aug is not False:
            tg = [n.target]
        else:
            return False
        for t in tg:
            if isinstance(t, ast.Subscript) and isinstance(t.value, ast.Attribute) and t.value.attr == series:
                return True
        return False
    return p


def pred_compare_names(*names: str):
    def p(n: ast.AST) -> bool:
        if not isinstance(n, ast.Compare):
            return False
        ids = {x.id for x in ast.walk(n) if isinstance(x, ast.Name)}
        return set(names) <= ids
    return p


# ---------------------------------------------------------------------------
# boolean normal form of guards; expansion of single-definition locals
# ---------------------------------------------------------------------------

def nnf_atoms(test: ast.AST, truth: bool) -> List[Tuple[ast.AST, bool]]:
    """Atoms whose truth value is *known* when `test` evaluates to `truth`
    (De Morgan pushed through not/and/or).  `a and b` true -> a, b true;
    `a or b` false -> a, b false; `not x` flips.  A disjunction known true (or
    a conjunction known false) yields itself as one opaque atom."""
    if isinstance(test, ast.UnaryOp) and isinstance(test.op, ast.Not):
        return nnf_atoms(test.operand, not truth)
    if isinstance(test, ast.BoolOp):
        conj = isinstance(test.op, ast.And)
        if conj == truth:  # and-true / or-false: every operand is known
            out: List[Tuple[ast.AST, bool]] = []
            for v in test.values:
                out += nnf_atoms(v, truth)
            return out
        return [(test, truth)]
    # canonical polarity for negated comparison operators: `x is not y` true == `x is y` false, etc.
    if isinstance(test, ast.Compare) and len(test.ops) == 1:
        flip = {ast.IsNot: ast.Is, ast.NotEq: ast.Eq, ast.NotIn: ast.In}
        for neg_op, pos_op in flip.items():
            if isinstance(test.ops[0], neg_op):
                pos = ast.Compare(left=test.left, ops=[pos_op()], comparators=test.comparators)
                ast.copy_location(pos, test)
                return [(pos, not truth)]
    return [(test, truth)]


class _Subst(ast.NodeTransformer):
    def __init__(self, mapping):
        self.mapping = mapping

    def visit_Name(self, node):
        if isinstance(node.ctx, ast.Load) and node.id in self.mapping:
            return self.mapping[node.id]
        return node


def substitute(expr: ast.AST, mapping: Dict[str, ast.AST]) -> ast.AST:
    import copy as _copy
    return ast.fix_missing_locations(_Subst(mapping).visit(_copy.deepcopy(expr)))


def atoms_equal(a: ast.AST, b: ast.AST) -> bool:
    """Are two condition atoms the same fact?  Equal text; or the same symmetric comparison with operands
    swapped (`a == b` / `b == a`, `x is None`); or equal canonical ordering comparisons (`a < b` / `b > a`,
    integer forms `a <= b - 1`)."""
    if text(a) == text(b):
        return True
    if isinstance(a, ast.Compare) and isinstance(b, ast.Compare) and len(a.ops) == 1 and len(b.ops) == 1:
        if type(a.ops[0]) is type(b.ops[0]) and isinstance(a.ops[0], (ast.Eq, ast.Is)):
            if text(a.left) == text(b.comparators[0]) and text(a.comparators[0]) == text(b.left):
                return True
        ca, cb = cmp_of(a), cmp_of(b)
        if ca is not None and cb is not None and (ca == cb or ca.as_int() == cb.as_int()):
            return True
    return False


def same_literal(a: ast.AST, ta: bool, b: ast.AST, tb: bool) -> bool:
    """Do `a` having truth `ta` and `b` having truth `tb` state the same fact?  (`i < m` true is `i >= m` false.)"""
    if atoms_equal(a, b):
        return ta == tb
    ca, cb = cmp_of(a), cmp_of(b)
    if ca is not None and cb is not None:
        if not ta:
            ca = ca.negate()
        if not tb:
            cb = cb.negate()
        return ca == cb or ca.as_int() == cb.as_int()
    return False


def entails(atoms, target: ast.AST, truth: bool = True, depth: int = 2) -> bool:
    """Is `target` known to have value `truth`, given the facts `atoms` ((atom, truth, ...) tuples)?  Direct match, or
    unit propagation through a conjunction known false / a disjunction known true: if `A and B and C` is false and
    B, C are known true, A is false."""
    lits = [(t[0], t[1]) for t in atoms]
    for (a, tr) in lits:
        if same_literal(a, tr, target, truth):
            return True
    if depth <= 0:
        return False
    for (a, tr) in lits:
        if not isinstance(a, ast.BoolOp):
            continue
        conj = isinstance(a.op, ast.And)
        if conj == tr:
            continue    # and-true / or-false were already split into atoms by nnf_atoms
        # and-false: some conjunct is false; or-true: some disjunct is true.  `want`: the value the odd one out must take
        want = not conj
        parts = []
        for v in a.values:
            l = nnf_atoms(v, True)
            if len(l) != 1:
                parts = None
                break
            parts.append(l[0])
        if not parts:
            continue
        for i, (pa, pt) in enumerate(parts):
            # (pa has truth pt) == part i true.  part i must be `want`  =>  pa has truth (pt if want else not pt)
            implied = pt if want else (not pt)
            if not same_literal(pa, implied, target, truth):
                continue
            rest = [p_ for j, p_ in enumerate(parts) if j != i]
            others = [x for x in lits if x[0] is not a]
            # every other part must be known to be `not want`
            if all(entails(others, qa, (qt if not want else (not qt)), depth - 1) for (qa, qt) in rest):
                return True
    return False


def fact(src: str) -> Tuple[ast.AST, bool]:
    """Parse a fact like 'start is not None' into its canonical (atom, truth) form."""
    atoms = nnf_atoms(ast.parse(src, mode='eval').body, True)
    if len(atoms) != 1:
        raise ValueError(f'fact `{src}` is not a single atom')
    return atoms[0]


def has_fact(atoms, src: str, truth: bool = True) -> bool:
    """`atoms`: iterable of (atom, truth, ...) tuples as produced by guard_atoms."""
    fa, ft = fact(src)
    want = ft if truth else (not ft)
    for t in atoms:
        a, tr = t[0], t[1]
        if tr == want and atoms_equal(a, fa):
            return True
    return False
