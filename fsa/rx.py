"""Facts over `re._parser` ASTs of the folded regex constants (never matched
against sample strings)."""

from __future__ import annotations

import re
import re._constants as sc  # type: ignore
import re._parser as sp  # type: ignore
from typing import Any, Iterator, List, Optional, Set, Tuple

from .source import Unsupported

Item = Tuple[Any, Any]


def parse(pattern: str, flags: int):
    try:
        return sp.parse(pattern, flags)
    except re.error as e:
        raise Unsupported(f'regex does not parse: {e}') from None


def items(sub) -> List[Item]:
    return list(sub)


def top_alternatives(parsed) -> List[List[Item]]:
    """Alternatives of the top-level alternation (common prefixes factored out
    by the regex parser are re-attached to every alternative)."""
    its = items(parsed)
    prefix: List[Item] = []
    for k, (op, av) in enumerate(its):
        if op is sc.BRANCH:
            rest = its[k + 1:]
            return [prefix + items(a) + rest for a in av[1]]
        prefix.append((op, av))
    return [its]


def walk(its: List[Item]) -> Iterator[Item]:
    for (op, av) in its:
        yield (op, av)
        if op is sc.BRANCH:
            for a in av[1]:
                yield from walk(items(a))
        elif op is sc.SUBPATTERN:
            yield from walk(items(av[3]))
        elif op in (sc.MAX_REPEAT, sc.MIN_REPEAT, sc.POSSESSIVE_REPEAT):
            yield from walk(items(av[2]))
        elif op in (sc.ASSERT, sc.ASSERT_NOT):
            yield from walk(items(av[1]))
        elif op is sc.ATOMIC_GROUP:
            yield from walk(items(av))


def group_numbers(its: List[Item]) -> Set[int]:
    return {av[0] for (op, av) in walk(its) if op is sc.SUBPATTERN and av[0] is not None}


def find_group(its: List[Item], num: int) -> Optional[List[Item]]:
    for (op, av) in walk(its):
        if op is sc.SUBPATTERN and av[0] == num:
            return items(av[3])
    return None


def is_ws_star(it: Item) -> bool:
    op, av = it
    if op is not sc.MAX_REPEAT:
        return False
    lo, hi, sub = av
    s = items(sub)
    if lo != 0 or hi is not sc.MAXREPEAT or len(s) != 1:
        return False
    o2, a2 = s[0]
    return o2 is sc.IN and list(a2) == [(sc.CATEGORY, sc.CATEGORY_SPACE)]


def is_literal(it: Item, ch: str) -> bool:
    return it[0] is sc.LITERAL and it[1] == ord(ch)


def is_lazy_any(it: Item, min_count: int = 0) -> bool:
    op, av = it
    if op is not sc.MIN_REPEAT:
        return False
    lo, hi, sub = av
    s = items(sub)
    return lo == min_count and hi is sc.MAXREPEAT and len(s) == 1 and s[0][0] is sc.ANY


def is_word_boundary(it: Item) -> bool:
    op, av = it
    if op is sc.AT and av is sc.AT_BOUNDARY:
        return True
    if op is sc.ASSERT_NOT and av[0] == 1:
        # (?![_A-Za-z0-9]) or (?!\w)
        s = items(av[1])
        if len(s) == 1 and s[0][0] is sc.IN:
            cls = charclass(s[0])
            need = set('_abcdefghijklmnopqrstuvwxyzABCDEFGHIJKLMNOPQRSTUVWXYZ0123456789')
            return cls is not None and need <= cls
    return False


def charclass(it: Item) -> Optional[Set[str]]:
    """ASCII members of a character class item (IN / LITERAL), None if it has
    negation or categories we do not expand."""
    op, av = it
    if op is sc.LITERAL:
        return {chr(av)}
    if op is not sc.IN:
        return None
    out: Set[str] = set()
    for (o, a) in av:
        if o is sc.LITERAL:
            out.add(chr(a))
        elif o is sc.RANGE:
            out |= {chr(c) for c in range(a[0], a[1] + 1)}
        elif o is sc.CATEGORY and a is sc.CATEGORY_WORD:
            out |= set('_abcdefghijklmnopqrstuvwxyzABCDEFGHIJKLMNOPQRSTUVWXYZ0123456789')
        elif o is sc.CATEGORY and a is sc.CATEGORY_DIGIT:
            out |= set('0123456789')
        else:
            return None
    return out


IDENT_START = set('_abcdefghijklmnopqrstuvwxyzABCDEFGHIJKLMNOPQRSTUVWXYZ')
IDENT_REST = IDENT_START | set('0123456789')


def is_identifier(its: List[Item]) -> bool:
    """[_A-Za-z][_A-Za-z0-9]*"""
    if len(its) != 2:
        return False
    a, b = its
    if charclass(a) != IDENT_START:
        return False
    op, av = b
    if op is not sc.MAX_REPEAT or av[0] != 0 or av[1] is not sc.MAXREPEAT:
        return False
    s = items(av[2])
    return len(s) == 1 and charclass(s[0]) == IDENT_REST


def finite_language(its: List[Item], limit: int = 5000) -> Optional[Set[str]]:
    """The finite set of strings matched by a sequence of LITERAL / IN(literals)
    / BRANCH / non-capturing SUBPATTERN items; None if not finite/simple."""
    langs: Set[str] = {''}
    for (op, av) in its:
        if op is sc.LITERAL:
            nxt = {chr(av)}
        elif op is sc.IN:
            cc = charclass((op, av))
            if cc is None:
                return None
            nxt = cc
        elif op is sc.BRANCH:
            nxt = set()
            for a in av[1]:
                l = finite_language(items(a), limit)
                if l is None:
                    return None
                nxt |= l
        elif op is sc.SUBPATTERN:
            l = finite_language(items(av[3]), limit)
            if l is None:
                return None
            nxt = l
        else:
            return None
        langs = {x + y for x in langs for y in nxt}
        if len(langs) > limit:
            return None
    return langs


def strip_ws(its: List[Item]) -> List[Item]:
    return [it for it in its if not is_ws_star(it)]
