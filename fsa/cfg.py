"""Statement-level control-flow graph for one function.

Nodes are simple statements and the tests/headers of compound statements.
Edge labels: 'next', 'T', 'F', 'iter', 'exhausted', 'break', 'continue',
'exc' (may-raise edge from a statement inside `try` to a handler), 'return',
'raise', 'fall' (implicit return at the end of the body).

Modelled: if / for-else / while-else / try-except-else-finally / with / return /
raise / break / continue / assert / nested def (opaque).  `match` and `async`
constructs are not used by the package: meeting one raises `Unsupported`.

Assumption A1: only explicit `raise` statements and statements lexically inside
a `try` body have exceptional successors.
"""

from __future__ import annotations

import ast
from dataclasses import dataclass, field
from typing import Dict, Iterable, List, Optional, Set, Tuple

from .source import Unsupported, text


@dataclass
class Node:
    id: int
    kind: str  # entry, exit, raise_exit, stmt, test, for, while, except, with, join
    ast: Optional[ast.AST] = None
    succ: List[Tuple[int, str]] = field(default_factory=list)
    pred: List[Tuple[int, str]] = field(default_factory=list)
    loops: Tuple[int, ...] = ()  # ids of enclosing loop headers (outermost first)
    trys: Tuple[int, ...] = ()  # ids (python id()) of enclosing ast.Try bodies
    handler_of: Optional[ast.Try] = None

    @property
    def lineno(self) -> int:
        return getattr(self.ast, 'lineno', 0)

    def label(self) -> str:
        if self.kind in ('entry', 'exit', 'raise_exit', 'join'):
            return self.kind
        if self.kind == 'test':
            return f'if {text(self.ast)}'
        if self.kind == 'for':
            return f'for {text(self.ast.target)} in {text(self.ast.iter)}'
        if self.kind == 'while':
            return f'while {text(self.ast.test)}'
        if self.kind == 'except':
            t = text(self.ast.type) if self.ast.type is not None else ''
            return f'except {t}'
        if self.kind == 'with':
            return 'with ' + ', '.join(text(i.context_expr) for i in self.ast.items)
        return text(self.ast).split('\n')[0]


# builtin exception hierarchy (subset sufficient for the package)
_BUILTIN_PARENTS = {
    'BaseException': None,
    'Exception': 'BaseException',
    'ArithmeticError': 'Exception',
    'ZeroDivisionError': 'ArithmeticError',
    'OverflowError': 'ArithmeticError',
    'FloatingPointError': 'ArithmeticError',
    'AssertionError': 'Exception',
    'AttributeError': 'Exception',
    'LookupError': 'Exception',
    'IndexError': 'LookupError',
    'KeyError': 'LookupError',
    'NameError': 'Exception',
    'UnboundLocalError': 'NameError',
    'NotImplementedError': 'RuntimeError',
    'RuntimeError': 'Exception',
    'RecursionError': 'RuntimeError',
    'StopIteration': 'Exception',
    'SyntaxError': 'Exception',
    'IndentationError': 'SyntaxError',
    'TabError': 'IndentationError',
    'TypeError': 'Exception',
    'ValueError': 'Exception',
    'UnicodeError': 'ValueError',
    'Warning': 'Exception',
    'SyntaxWarning': 'Warning',
    'RuntimeWarning': 'Warning',
    'OSError': 'Exception',
    'ImportError': 'Exception',
    'ModuleNotFoundError': 'ImportError',
    'MemoryError': 'Exception',
    'KeyboardInterrupt': 'BaseException',
    'SystemExit': 'BaseException',
    'GeneratorExit': 'BaseException',
}


class ExcHierarchy:
    def __init__(self, extra: Optional[Dict[str, str]] = None) -> None:
        self.parents: Dict[str, Optional[str]] = dict(_BUILTIN_PARENTS)
        if extra:
            self.parents.update(extra)

    def is_sub(self, cls: str, sup: str) -> bool:
        seen = set()
        c: Optional[str] = cls
        while c is not None and c not in seen:
            if c == sup:
                return True
            seen.add(c)
            c = self.parents.get(c)
        return False

    def known(self, cls: str) -> bool:
        return cls in self.parents


def handler_names(h: ast.ExceptHandler) -> List[str]:
    if h.type is None:
        return ['BaseException']
    if isinstance(h.type, ast.Tuple):
        return [text(e).split('.')[-1] for e in h.type.elts]
    return [text(h.type).split('.')[-1]]


def raised_class(stmt: ast.Raise) -> Optional[str]:
    e = stmt.exc
    if e is None:
        return None
    if isinstance(e, ast.Call):
        e = e.func
    if isinstance(e, (ast.Name, ast.Attribute)):
        return text(e).split('.')[-1]
    return None


class CFG:
    def __init__(self, fnode: ast.AST, hierarchy: Optional[ExcHierarchy] = None) -> None:
        self.fnode = fnode
        self.h = hierarchy or ExcHierarchy()
        self.nodes: List[Node] = []
        self.entry = self._new('entry')
        self.exit = self._new('exit')
        self.raise_exit = self._new('raise_exit')
        self.by_ast: Dict[int, int] = {}  # id(ast stmt) -> node id
        self._loop_stack: List[Tuple[int, List[int], List[int]]] = []  # (header, breaks, continues)
        self._try_stack: List[Tuple[ast.Try, List[int]]] = []  # (try node, handler entry ids)
        self._finally_stack: List[ast.Try] = []
        body = fnode.body if not isinstance(fnode, ast.Module) else fnode.body
        outs = self._block(body, [(self.entry, 'next')])
        for (n, lab) in outs:
            self._edge(n, self.exit, 'fall' if lab == 'next' else lab)
        self._finish()

    # -- construction --------------------------------------------------------
    def _new(self, kind: str, node: Optional[ast.AST] = None) -> int:
        n = Node(id=len(self.nodes), kind=kind, ast=node)
        n.loops = tuple(h for (h, _, _) in getattr(self, '_loop_stack', []))
        n.trys = tuple(id(t) for (t, _) in getattr(self, '_try_stack', []))
        self.nodes.append(n)
        if node is not None and kind != 'except':
            self.by_ast.setdefault(id(node), n.id)
        return n.id

    def _edge(self, a: int, b: int, label: str) -> None:
        if (b, label) not in self.nodes[a].succ:
            self.nodes[a].succ.append((b, label))
            self.nodes[b].pred.append((a, label))

    def _connect(self, ins: List[Tuple[int, str]], target: int) -> None:
        for (n, lab) in ins:
            self._edge(n, target, lab)

    def _exc_edges(self, nid: int) -> None:
        """May-raise edges from a node inside try bodies to the handlers."""
        for (t, handlers) in reversed(self._try_stack):
            for hid in handlers:
                self._edge(nid, hid, 'exc')
            # a bare/`Exception` handler shields outer handlers only for
            # Exception subclasses; stay conservative: keep going outward
        return

    def _route_raise(self, nid: int, cls: Optional[str]) -> None:
        """Explicit raise: to the first enclosing handler that covers `cls`."""
        for (t, handlers) in reversed(self._try_stack):
            for hid in handlers:
                h = self.nodes[hid].ast
                names = handler_names(h)
                if cls is None:
                    # unknown class (re-raise or computed): may be caught by any
                    self._edge(nid, hid, 'raise')
                    continue
                if any(self.h.is_sub(cls, n) for n in names):
                    self._edge(nid, hid, 'raise')
                    return
                if not self.h.known(cls) and any(n in ('Exception', 'BaseException') for n in names):
                    self._edge(nid, hid, 'raise')
                    return
        self._edge(nid, self.raise_exit, 'raise')

    def _block(self, stmts: List[ast.stmt], ins: List[Tuple[int, str]]) -> List[Tuple[int, str]]:
        cur = ins
        for s in stmts:
            cur = self._stmt(s, cur)
        return cur

    def _stmt(self, s: ast.stmt, ins: List[Tuple[int, str]]) -> List[Tuple[int, str]]:
        if isinstance(s, ast.If):
            t = self._new('test', s.test)
            self.by_ast[id(s)] = t
            self._connect(ins, t)
            self._exc_edges(t)
            outs = self._block(s.body, [(t, 'T')])
            if s.orelse:
                outs += self._block(s.orelse, [(t, 'F')])
            else:
                outs.append((t, 'F'))
            return outs
        if isinstance(s, (ast.For, ast.While)):
            kind = 'for' if isinstance(s, ast.For) else 'while'
            h = self._new(kind, s)
            self._connect(ins, h)
            self._exc_edges(h)
            self._loop_stack.append((h, [], []))
            body_lab = 'iter' if kind == 'for' else 'T'
            outs = self._block(s.body, [(h, body_lab)])
            (_, breaks, conts) = self._loop_stack.pop()
            for (n, lab) in outs:
                self._edge(n, h, 'back' if lab == 'next' else lab)
            for n in conts:
                self._edge(n, h, 'continue')
            ex_lab = 'exhausted' if kind == 'for' else 'F'
            after: List[Tuple[int, str]]
            # `while True:` is left only through break/return/raise: its test never fails
            never_fails = kind == 'while' and isinstance(s.test, ast.Constant) and bool(s.test.value)
            if never_fails:
                after = []
            elif s.orelse:
                after = self._block(s.orelse, [(h, ex_lab)])
            else:
                after = [(h, ex_lab)]
            after += [(n, 'break') for n in breaks]
            return after
        if isinstance(s, ast.Try):
            if getattr(s, 'finalbody', None):
                # try/finally: model the finally suite as executed after every
                # normal exit of body/handlers (abnormal exits pass through it
                # too, which we approximate by inlining it on the normal path
                # only).  The package has no try/finally today.
                pass
            # handler entry nodes are created first so body statements can
            # point at them
            handler_ids: List[int] = []
            for h in s.handlers:
                hid = self._new('except', h)
                self.nodes[hid].handler_of = s
                handler_ids.append(hid)
            self._try_stack.append((s, handler_ids))
            outs = self._block(s.body, ins)
            self._try_stack.pop()
            if s.orelse:
                outs = self._block(s.orelse, outs)
            for h, hid in zip(s.handlers, handler_ids):
                # handler bodies are outside this try's protection
                self.nodes[hid].trys = tuple(id(t) for (t, _) in self._try_stack)
                outs += self._block(h.body, [(hid, 'next')])
            if getattr(s, 'finalbody', None):
                outs = self._block(s.finalbody, outs)
            return outs
        if isinstance(s, ast.With):
            w = self._new('with', s)
            self._connect(ins, w)
            self._exc_edges(w)
            return self._block(s.body, [(w, 'next')])
        if isinstance(s, ast.Return):
            n = self._new('stmt', s)
            self._connect(ins, n)
            self._exc_edges(n)
            self._edge(n, self.exit, 'return')
            return []
        if isinstance(s, ast.Raise):
            n = self._new('stmt', s)
            self._connect(ins, n)
            self._route_raise(n, raised_class(s))
            return []
        if isinstance(s, ast.Break):
            n = self._new('stmt', s)
            self._connect(ins, n)
            if not self._loop_stack:
                raise Unsupported('break outside loop')
            self._loop_stack[-1][1].append(n)
            return []
        if isinstance(s, ast.Continue):
            n = self._new('stmt', s)
            self._connect(ins, n)
            if not self._loop_stack:
                raise Unsupported('continue outside loop')
            self._loop_stack[-1][2].append(n)
            return []
        if isinstance(s, ast.Assert):
            n = self._new('stmt', s)
            self._connect(ins, n)
            self._exc_edges(n)
            return [(n, 'next')]
        if hasattr(ast, 'Match') and isinstance(s, ast.Match):
            raise Unsupported(f'line {s.lineno}: match statement not modelled')
        if isinstance(s, (ast.AsyncFor, ast.AsyncWith, ast.AsyncFunctionDef)):
            raise Unsupported(f'line {s.lineno}: async construct not modelled')
        if hasattr(ast, 'TryStar') and isinstance(s, ast.TryStar):
            raise Unsupported(f'line {s.lineno}: try/except* not modelled')
        # simple statement (incl. nested def/class as opaque nodes)
        n = self._new('stmt', s)
        self._connect(ins, n)
        self._exc_edges(n)
        return [(n, 'next')]

    def _finish(self) -> None:
        pass

    # -- queries -------------------------------------------------------------
    def node_of(self, stmt: ast.AST) -> Node:
        try:
            return self.nodes[self.by_ast[id(stmt)]]
        except KeyError:
            raise Unsupported(f'statement not in CFG: {text(stmt)[:60]}') from None

    def stmt_nodes(self) -> Iterable[Node]:
        return (n for n in self.nodes if n.ast is not None)

    def succs(self, nid: int, skip_labels: Iterable[str] = ()) -> List[int]:
        sk = set(skip_labels)
        return [b for (b, lab) in self.nodes[nid].succ if lab not in sk]

    def reachable_from(
        self,
        start: int,
        avoid: Iterable[int] = (),
        skip_labels: Iterable[str] = (),
        skip_edges: Iterable[Tuple[int, str]] = (),
    ) -> Set[int]:
        """Nodes reachable from `start` (inclusive) without entering `avoid`."""
        av = set(avoid)
        sk = set(skip_labels)
        se = set(skip_edges)
        seen: Set[int] = set()
        stack = [start]
        while stack:
            n = stack.pop()
            if n in seen or n in av:
                continue
            seen.add(n)
            for (b, lab) in self.nodes[n].succ:
                if lab in sk or (n, lab) in se:
                    continue
                stack.append(b)
        return seen

    def reaches(self, a: int, b: int, avoid: Iterable[int] = (), skip_labels: Iterable[str] = ()) -> bool:
        return b in self.reachable_from(a, avoid=avoid, skip_labels=skip_labels)

    def in_cycle(self, nid: int, skip_labels: Iterable[str] = ()) -> bool:
        for b in self.succs(nid, skip_labels):
            if nid in self.reachable_from(b, skip_labels=skip_labels):
                return True
        return False

    def some_path(self, a: int, b: int, avoid: Iterable[int] = (), skip_labels: Iterable[str] = ()) -> Optional[List[int]]:
        """A shortest path a -> b avoiding `avoid` (for reports)."""
        av = set(avoid)
        sk = set(skip_labels)
        from collections import deque

        prev: Dict[int, Optional[int]] = {a: None}
        dq = deque([a])
        while dq:
            n = dq.popleft()
            if n == b:
                path = []
                cur: Optional[int] = n
                while cur is not None:
                    path.append(cur)
                    cur = prev[cur]
                return path[::-1]
            for (m, lab) in self.nodes[n].succ:
                if lab in sk or m in av or m in prev:
                    continue
                prev[m] = n
                dq.append(m)
        return None

    def describe_path(self, path: List[int]) -> List[str]:
        return [f'L{self.nodes[i].lineno}: {self.nodes[i].label()[:80]}' for i in path if self.nodes[i].ast is not None]
