"""Obligations, verdicts, known-finding matching, evidence and exit codes."""

from __future__ import annotations

import hashlib
import json
import os
import sys
import time
import traceback
from pathlib import Path
from typing import Any, Callable, Dict, List, Optional

from .source import AnchorMissing, Repo, Unsupported, stmt_key, text
from .match import Unknown

VERIF = Path(__file__).resolve().parent.parent


def out_dir() -> Path:
    """Where evidence and reports go (the self-test redirects it to a scratch dir)."""
    return Path(os.environ.get('FSA_OUT', str(VERIF / 'evidence')))

ASSUMPTIONS = [
    'A1: only explicit `raise` statements and statements lexically inside a `try` body have exceptional '
    'successors in the CFG; implicit exceptions of arbitrary expressions are not edges (rules that depend on '
    'a specific implicit raiser take it from the raiser table in fsa/escape.py)',
    'A2: NumPy, pandas, `re` and the Python interpreter behave as documented (in-place element/slice stores '
    'keep shape and dtype; leftmost-first regex alternation; f-string/str.format semantics)',
    'A3: classes are composed only by the MROs enumerated (core classes; thorough tier: mixin compositions)',
    'A4: no resource exhaustion (RecursionError, MemoryError) and no monkey-patching of the analysed names',
    'trusted base: CPython `ast` / `re._parser` of the analysing interpreter (/venv/bin/python, the one the '
    'test-suite uses), the rule tables in /verif/rules',
]


class Run:
    def __init__(self, prop: str, tier: str, seed: int, repo: Repo, quiet: bool = False) -> None:
        self.prop = prop
        self.tier = tier
        self.seed = seed
        self.repo = repo
        self.quiet = quiet
        self.t0 = time.time()
        self.obligations: List[Dict[str, Any]] = []
        self.violations: List[Dict[str, Any]] = []
        self.known_hits: List[Dict[str, Any]] = []
        self.inconclusives: List[Dict[str, Any]] = []
        self.stats: Dict[str, int] = {'functions_analysed': 0, 'cfg_nodes': 0, 'call_sites': 0}
        self.rules_run: List[str] = []
        self.explanation = ''
        self.extra_assumptions: List[str] = []
        self.selftest: Optional[Dict[str, Any]] = None
        self._funcs_seen = set()
        kf = VERIF / 'known_findings.json'
        self.known = json.loads(kf.read_text())['findings'] if kf.exists() else []
        self.current_rule = '?'

    # -- bookkeeping ---------------------------------------------------------
    def saw_function(self, fi, cfg=None) -> None:
        if fi.qualname not in self._funcs_seen:
            self._funcs_seen.add(fi.qualname)
            self.stats['functions_analysed'] += 1
            if cfg is not None:
                self.stats['cfg_nodes'] += len(cfg.nodes)

    def count_calls(self, n: int = 1) -> None:
        self.stats['call_sites'] += n

    def ok(self, construct: str, what: str, detail: Any = None, trivial: bool = False, rule: Optional[str] = None) -> None:
        self.obligations.append(
            {
                'rule': rule or self.current_rule,
                'construct': construct,
                'obligation': what,
                'verdict': 'HOLDS',
                'detail': detail,
                'trivial': trivial,
            }
        )

    def violation(
        self,
        construct: str,
        key: str,
        what: str,
        *,
        where: str = '',
        detail: Any = None,
        path: Optional[List[str]] = None,
        rule: Optional[str] = None,
        mismatch: bool = False,
    ) -> None:
        """`mismatch`: the finding is the absence of an expected element, or a difference between the code and the form the rule
        expects - on a function rewritten since the reference tree that means 'idiom not read' (see `check`)."""
        rule = rule or self.current_rule
        if mismatch and not any(k['property'] == self.prop and k['rule'] == rule and k['construct'] == construct and k['key'] == key for k in self.known):
            why = self._rewritten(construct)
            if why is not None:
                self.inconclusive(construct, f'{what} - but the code this rule reads has been rewritten ({why}): a mismatch with the expected form is not a finding there', rule=rule)
                return
        rec = {
            'property': self.prop,
            'rule': rule,
            'construct': construct,
            'key': key,
            'what': what,
            'where': where,
            'detail': detail,
            'path': path,
        }
        for k in self.known:
            if (
                k['property'] == self.prop
                and k['rule'] == rule
                and k['construct'] == construct
                and k['key'] == key
            ):
                rec['known'] = k['what']
                self.known_hits.append(rec)
                self.obligations.append(
                    {
                        'rule': rule,
                        'construct': construct,
                        'obligation': what,
                        'verdict': 'KNOWN-FINDING',
                        'detail': detail,
                        'trivial': False,
                    }
                )
                return
        self.violations.append(rec)
        self.obligations.append(
            {
                'rule': rule,
                'construct': construct,
                'obligation': what,
                'verdict': 'VIOLATION',
                'detail': detail,
                'trivial': False,
            }
        )

    def inconclusive(self, construct: str, why: str, rule: Optional[str] = None) -> None:
        rec = {'property': self.prop, 'rule': rule or self.current_rule, 'construct': construct, 'why': why}
        self.inconclusives.append(rec)
        self.obligations.append(
            {
                'rule': rec['rule'],
                'construct': construct,
                'obligation': why,
                'verdict': 'INCONCLUSIVE',
                'detail': None,
                'trivial': False,
            }
        )

    def expect(self, construct: str, found: int, minimum: int, what: str) -> bool:
        """Instance pinning: fewer instances than confirmed by hand = anchor vanished."""
        if found < minimum:
            self.inconclusive(construct, f'anchor vanished: {what}: found {found}, pinned minimum {minimum}')
            return False
        return True

    def require(self, construct: str, found: int, what: str, *, fi=None, pred=None, where: str = '', minimum: int = 1) -> bool:
        """A required element of an existing function.  Present: fine.  Absent
        from the function but matched by `pred` in a package function it calls:
        INCONCLUSIVE (moved into a helper - unknown idiom).  Absent everywhere:
        VIOLATION `missing:<what>` (the absence itself is the offending construct)."""
        if found >= minimum:
            return True
        if fi is not None and pred is not None:
            from .calls import callees_of
            import ast as _ast
            hits = []
            for n in _ast.walk(fi.node):
                try:
                    hit = pred(n)
                except Exception:
                    hit = False
                if hit:
                    hits.append(n)
            # more candidates in the function than the rule managed to read: some are written in a form it does not
            # model (inconclusive).  As many (or fewer) candidates as were read: the element really is missing.
            if len(hits) > found:
                self.inconclusive(construct, f'{what}: {found} found in the form this rule reads, but {fi.qualname} contains {len(hits)} candidate(s) (e.g. line '
                                             f'{getattr(hits[-1], "lineno", "?")}): idiom not modelled')
                return False

            for cal in callees_of(self.repo, fi):
                for n in __import__('ast').walk(cal.node):
                    try:
                        hit = pred(n)
                    except Exception:
                        hit = False
                    if hit:
                        self.inconclusive(construct, f'{what}: not found in {fi.qualname} but a match exists in its callee '
                                                     f'{cal.qualname} (element moved into a helper: idiom not modelled)')
                        return False
        why = self._rewritten(construct, fi)
        if why is not None:
            self.inconclusive(construct, f'{what}: not found in the form this rule reads, and the code it reads has been rewritten ({why}): not decided')
            return False
        self.violation(construct, f'missing:{what}', f'required element missing: {what} (found {found}, need {minimum}; '
                       f'not in the function nor in any package function it calls)', where=where or (fi.where if fi else ''))
        return False

    def _rewritten(self, construct: str, fi=None) -> Optional[str]:
        """Why a mismatch found in `construct` is not to be trusted as a finding: the function has been rewritten since the
        reference tree (Repo.rewritten).  A rule that compares code with the form it expects says VIOLATION only where the code
        is still what it was, give or take an edit; on rewritten code a mismatch means 'idiom not read'."""
        try:
            for c in ([construct] + ([fi.qualname] if fi is not None else [])):
                r = self.repo.rewritten(c)
                if r is not None:
                    return r
        except Exception:
            return None
        return None

    def check(self, cond: bool, construct: str, key: str, what_ok: str, what_bad: str, decided: bool = False, **kw) -> bool:
        """`decided`: the rule read the construct completely (values, not shapes) and the failure names a positively wrong
        element - reported as a VIOLATION wherever it is found.  Otherwise a failure is a mismatch between the code and the form
        the rule expects: a VIOLATION on code that is as it was in the reference tree (give or take an edit), INCONCLUSIVE on code
        that has been rewritten since."""
        if cond:
            self.ok(construct, what_ok, detail=kw.get('detail'))
        else:
            why = None if decided else self._rewritten(construct)
            if why is not None and any(k['property'] == self.prop and k['rule'] == (kw.get('rule') or self.current_rule) and k['construct'] == construct and k['key'] == key
                                       for k in self.known):
                why = None          # a finding on file: reported as such, rewritten or not
            if why is not None:
                self.inconclusive(construct, f'{what_bad} - but the code this rule reads has been rewritten ({why}): a mismatch with the expected form is not a finding there')
            else:
                self.violation(construct, key, what_bad, **kw)
        return cond

    # -- running rules -------------------------------------------------------
    def rule(self, rule_id: str, fn: Callable[[], None]) -> None:
        self.current_rule = rule_id
        self.rules_run.append(rule_id)
        try:
            fn()
        except (AnchorMissing, Unsupported, Unknown) as e:
            self.inconclusive('<rule>', f'{type(e).__name__}: {e}', rule=rule_id)
        except Exception as e:  # analyser bug: fail closed, distinctly
            tb = traceback.format_exc(limit=6)
            self.inconclusive('<rule>', f'analyser exception {type(e).__name__}: {e}\n{tb}', rule=rule_id)
        finally:
            self.current_rule = '?'

    # -- finishing -----------------------------------------------------------
    def _report_path(self, rec: Dict[str, Any]) -> Path:
        h = hashlib.sha256(
            json.dumps([rec['property'], rec['rule'], rec['construct'], rec['key']]).encode()
        ).hexdigest()[:10]
        d = out_dir() / 'reports'
        d.mkdir(parents=True, exist_ok=True)
        rule = rec['rule'].replace('.', '_')
        return d / f'{rule}-{h}.json'

    def finish(self) -> int:
        wall = time.time() - self.t0
        out = sys.stdout
        # stale reports of this property are removed so the directory reflects this run
        rep_dir = out_dir() / 'reports'
        if rep_dir.is_dir():
            for p in rep_dir.glob(f'{self.prop}_*.json'):
                try:
                    p.unlink()
                except OSError:
                    pass
        for rec in self.known_hits:
            p = self._report_path(rec)
            p.write_text(json.dumps(rec, indent=1, default=str))
            print(f"KNOWN-FINDING: property={self.prop} {rec['known']} [{rec['rule']} {rec['construct']}]", file=out)
        for rec in self.inconclusives:
            print(
                f"ANALYSIS-ERROR property={self.prop} rule={rec['rule']} construct={rec['construct']} {rec['why']}",
                file=out,
            )
        for rec in self.violations:
            p = self._report_path(rec)
            p.write_text(json.dumps(rec, indent=1, default=str))
            try:
                shown = p.relative_to(VERIF)
            except ValueError:
                shown = p
            print(f"VIOLATION property={self.prop} replay={shown}", file=out)
            print(f"  rule={rec['rule']} construct={rec['construct']} {rec['where']}", file=out)
            print(f"  {rec['what']}", file=out)
            if rec.get('path'):
                for line in rec['path'][:12]:
                    print(f'    {line}', file=out)

        n_obl = len(self.obligations)
        n_ok = sum(1 for o in self.obligations if o['verdict'] == 'HOLDS')
        distinct = len({(o['rule'], o['construct']) for o in self.obligations if not o['trivial']})
        samples = []
        seen_rules = set()
        for o in self.obligations:  # one sample per rule first, then violations
            if o['rule'] not in seen_rules or o['verdict'] != 'HOLDS':
                seen_rules.add(o['rule'])
                samples.append({k: o[k] for k in ('rule', 'construct', 'obligation', 'verdict', 'detail')})
        samples = samples[:60]
        ev = {
            'property_id': self.prop,
            'tier': self.tier,
            'seed': self.seed,
            'level': 'other',
            'coverage': {
                'explanation': self.explanation
                or f'static analysis of {len(self.repo.modules)} modules; rules {", ".join(self.rules_run)}',
                'evaluations': n_obl,
                'distinct_nontrivial': distinct,
                'rule': 'one evaluation = one rule instance (obligation) evaluated on the current source; '
                'distinct_nontrivial = distinct (rule, construct) pairs whose obligation is not trivially true',
                'obligations': n_obl,
                'discharged': n_ok,
                'known_findings': len(self.known_hits),
                'violations': len(self.violations),
                'inconclusive': len(self.inconclusives),
                'rules': self.rules_run,
                'files': len(self.repo.modules),
                **self.stats,
                'samples': samples,
                'source_digest': self.repo.digest(),
                'exhaustive': False,
            },
            'assumptions': ASSUMPTIONS + self.extra_assumptions,
            'wall_s': round(wall, 3),
            'violations': len(self.violations),
        }
        if self.selftest is not None:
            ev['coverage']['selftest'] = self.selftest
        evdir = out_dir()
        evdir.mkdir(parents=True, exist_ok=True)
        (evdir / f'{self.prop}.json').write_text(json.dumps(ev, indent=1, default=str))
        status = 'HOLDS'
        code = 0
        if self.violations:
            status, code = 'VIOLATED', 1
        elif self.inconclusives:
            status, code = 'INCONCLUSIVE', 2
        if not self.quiet:
            print(
                f'{self.prop} [{self.tier}] {status}: {n_ok}/{n_obl} obligations discharged, '
                f'{len(self.known_hits)} known finding(s), {len(self.violations)} violation(s), '
                f'{len(self.inconclusives)} inconclusive; {self.stats["functions_analysed"]} functions, '
                f'{self.stats["cfg_nodes"]} CFG nodes; {wall:.2f}s',
                file=out,
            )
        return code
