"""Dataflow over the statement CFG: dominators, post-dominators, guards,
reaching definitions of local names, definite assignment."""

from __future__ import annotations

import ast
from typing import Dict, FrozenSet, Iterable, List, Optional, Set, Tuple

from .cfg import CFG, Node
from .source import iter_own_nodes, text


# ---------------------------------------------------------------------------
# dominators
# ---------------------------------------------------------------------------

def dominators(cfg: CFG, skip_labels: Iterable[str] = ()) -> Dict[int, Set[int]]:
    """dom[n] = set of nodes that dominate n (including n), from cfg.entry.
    Unreachable nodes get the empty set."""
    sk = set(skip_labels)
    reach = cfg.reachable_from(cfg.entry, skip_labels=sk)
    allr = set(reach)
    dom: Dict[int, Set[int]] = {n: set(allr) for n in reach}
    dom[cfg.entry] = {cfg.entry}
    changed = True
    order = sorted(reach)
    while changed:
        changed = False
        for n in order:
            if n == cfg.entry:
                continue
            preds = [a for (a, lab) in cfg.nodes[n].pred if lab not in sk and a in reach]
            if not preds:
                new = {n}
            else:
                new = set.intersection(*(dom[p] for p in preds)) | {n}
            if new != dom[n]:
                dom[n] = new
                changed = True
    for n in range(len(cfg.nodes)):
        dom.setdefault(n, set())
    return dom


def postdominators(cfg: CFG, exits: Optional[Iterable[int]] = None) -> Dict[int, Set[int]]:
    """pdom[n] = nodes that lie on every path from n to one of `exits`
    (default: normal exit and raise exit)."""
    ex = set(exits) if exits is not None else {cfg.exit, cfg.raise_exit}
    N = len(cfg.nodes)
    # nodes that can reach an exit
    can: Set[int] = set()
    stack = list(ex)
    while stack:
        n = stack.pop()
        if n in can:
            continue
        can.add(n)
        for (a, _lab) in cfg.nodes[n].pred:
            stack.append(a)
    pdom: Dict[int, Set[int]] = {n: set(can) for n in can}
    for e in ex:
        pdom[e] = {e}
    changed = True
    while changed:
        changed = False
        for n in sorted(can, reverse=True):
            if n in ex:
                continue
            succs = [b for (b, _l) in cfg.nodes[n].succ if b in can]
            if not succs:
                new = {n}
            else:
                new = set.intersection(*(pdom[s] for s in succs)) | {n}
            if new != pdom[n]:
                pdom[n] = new
                changed = True
    for n in range(N):
        pdom.setdefault(n, set())
    return pdom


def guards(cfg: CFG, nid: int) -> List[Tuple[int, str]]:
    """Branch edges (test node, label) that every entry -> nid path takes."""
    out = []
    for n in cfg.nodes:
        if n.kind not in ('test', 'for', 'while'):
            continue
        labs = {lab for (_b, lab) in n.succ}
        for lab in labs:
            if lab in ('exc',):
                continue
            r = cfg.reachable_from(cfg.entry, skip_edges=[(n.id, lab)])
            if nid not in r and nid in cfg.reachable_from(cfg.entry):
                out.append((n.id, lab))
    return out


def must_pass(cfg: CFG, src: int, dst: int, via: Iterable[int], skip_labels: Iterable[str] = ()) -> bool:
    """True iff every path src -> dst passes through one of `via`."""
    return dst not in cfg.reachable_from(src, avoid=set(via), skip_labels=skip_labels)


# ---------------------------------------------------------------------------
# names bound / used by a CFG node
# ---------------------------------------------------------------------------

def _target_names(t: ast.AST) -> List[str]:
    if isinstance(t, ast.Name):
        return [t.id]
    if isinstance(t, (ast.Tuple, ast.List)):
        out: List[str] = []
        for e in t.elts:
            out += _target_names(e)
        return out
    if isinstance(t, ast.Starred):
        return _target_names(t.value)
    return []


def node_expr_roots(n: Node) -> List[ast.AST]:
    """The AST parts evaluated *at* this CFG node (not its nested suites)."""
    a = n.ast
    if a is None:
        return []
    if n.kind == 'test':
        return [a]
    if n.kind == 'for':
        return [a.iter]
    if n.kind == 'while':
        return [a.test]
    if n.kind == 'with':
        return [i.context_expr for i in a.items]
    if n.kind == 'except':
        return [a.type] if a.type is not None else []
    if isinstance(a, (ast.FunctionDef, ast.AsyncFunctionDef, ast.ClassDef)):
        return list(a.decorator_list)
    return [a]


def names_bound(n: Node) -> List[str]:
    a = n.ast
    if a is None:
        return []
    if n.kind == 'for':
        return []  # bound on the 'iter' edge only; see bound_on_edge
    if n.kind == 'with':
        out: List[str] = []
        for i in a.items:
            if i.optional_vars is not None:
                out += _target_names(i.optional_vars)
        return out
    if n.kind == 'except':
        return [a.name] if a.name else []
    if n.kind in ('test', 'while'):
        return _walrus_names(a)
    if isinstance(a, ast.Assign):
        out = []
        for t in a.targets:
            out += _target_names(t)
        return out + _walrus_names(a.value)
    if isinstance(a, ast.AnnAssign):
        return _target_names(a.target) if a.value is not None else []
    if isinstance(a, ast.AugAssign):
        return _target_names(a.target)
    if isinstance(a, (ast.FunctionDef, ast.AsyncFunctionDef, ast.ClassDef)):
        return [a.name]
    if isinstance(a, (ast.Import, ast.ImportFrom)):
        return [(al.asname or al.name).split('.')[0] for al in a.names]
    return _walrus_names(a)


def _walrus_names(a: ast.AST) -> List[str]:
    return [x.target.id for x in ast.walk(a) if isinstance(x, ast.NamedExpr) and isinstance(x.target, ast.Name)]


def bound_on_edge(cfg: CFG, a: int, lab: str) -> List[str]:
    n = cfg.nodes[a]
    if n.kind == 'for' and lab == 'iter':
        return _target_names(n.ast.target)
    return []


def names_loaded(n: Node) -> List[ast.Name]:
    out: List[ast.Name] = []
    for root in node_expr_roots(n):
        for x in _walk_no_scopes(root):
            if isinstance(x, ast.Name) and isinstance(x.ctx, ast.Load):
                out.append(x)
    if isinstance(n.ast, ast.AugAssign) and isinstance(n.ast.target, ast.Name):
        out.append(ast.copy_location(ast.Name(id=n.ast.target.id, ctx=ast.Load()), n.ast.target))
    return out


def _walk_no_scopes(root: ast.AST):
    """Walk an expression/statement, descending into lambdas/comprehensions
    (they read enclosing locals) but hiding names they bind themselves."""
    stack = [(root, frozenset())]
    while stack:
        x, hidden = stack.pop()
        if isinstance(x, ast.Name) and x.id in hidden:
            continue
        if isinstance(x, (ast.FunctionDef, ast.AsyncFunctionDef, ast.ClassDef)):
            continue
        yield x
        if isinstance(x, (ast.ListComp, ast.SetComp, ast.GeneratorExp, ast.DictComp)):
            h = set(hidden)
            for g in x.generators:
                h |= set(_target_names(g.target))
            hf = frozenset(h)
            for c in ast.iter_child_nodes(x):
                stack.append((c, hf))
            continue
        if isinstance(x, ast.Lambda):
            h = set(hidden)
            a = x.args
            for p in a.posonlyargs + a.args + a.kwonlyargs:
                h.add(p.arg)
            if a.vararg:
                h.add(a.vararg.arg)
            if a.kwarg:
                h.add(a.kwarg.arg)
            stack.append((x.body, frozenset(h)))
            continue
        for c in ast.iter_child_nodes(x):
            stack.append((c, hidden))


# ---------------------------------------------------------------------------
# reaching definitions / definite assignment of local names
# ---------------------------------------------------------------------------

PARAM = -1  # pseudo definition site: function parameter


class LocalFlow:
    """Reaching definitions and definite assignment for the local names of one
    function.  A definition site is a CFG node id (or PARAM)."""

    def __init__(self, cfg: CFG, params: Iterable[str]) -> None:
        self.cfg = cfg
        self.params = [p.lstrip('*') for p in params]
        self.locals: Set[str] = set(self.params)
        for n in cfg.nodes:
            self.locals |= set(names_bound(n))
            if n.kind == 'for':
                self.locals |= set(_target_names(n.ast.target))
        self._solve()

    def _solve(self) -> None:
        cfg = self.cfg
        N = len(cfg.nodes)
        # reaching defs: IN[n] : dict name -> frozenset(def sites)
        self.rd_in: List[Dict[str, FrozenSet[int]]] = [dict() for _ in range(N)]
        self.da_in: List[Optional[Set[str]]] = [None] * N  # definitely assigned
        start_rd = {p: frozenset([PARAM]) for p in self.params}
        self.rd_in[cfg.entry] = dict(start_rd)
        self.da_in[cfg.entry] = set(self.params)
        work = [cfg.entry]
        inwork = {cfg.entry}
        while work:
            n = work.pop()
            inwork.discard(n)
            node = cfg.nodes[n]
            base_rd = dict(self.rd_in[n])
            base_da = set(self.da_in[n]) if self.da_in[n] is not None else set()
            for nm in names_bound(node):
                base_rd[nm] = frozenset([n])
                base_da.add(nm)
            for (b, lab) in node.succ:
                out_rd = base_rd
                out_da = base_da
                extra = bound_on_edge(cfg, n, lab)
                if extra:
                    out_rd = dict(base_rd)
                    out_da = set(base_da)
                    for nm in extra:
                        out_rd[nm] = frozenset([n])
                        out_da.add(nm)
                if lab == 'exc':
                    # the raising statement may or may not have completed its
                    # own bindings: merge both views
                    out_rd = dict(out_rd)
                    for nm, ds in self.rd_in[n].items():
                        out_rd[nm] = out_rd.get(nm, frozenset()) | ds
                    out_da = set(self.da_in[n] or set())
                changed = False
                tgt_rd = self.rd_in[b]
                for nm, ds in out_rd.items():
                    cur = tgt_rd.get(nm, frozenset())
                    new = cur | ds
                    if new != cur:
                        tgt_rd[nm] = new
                        changed = True
                if self.da_in[b] is None:
                    self.da_in[b] = set(out_da)
                    changed = True
                else:
                    new_da = self.da_in[b] & out_da
                    if new_da != self.da_in[b]:
                        self.da_in[b] = new_da
                        changed = True
                if changed and b not in inwork:
                    work.append(b)
                    inwork.add(b)

    # -- queries -------------------------------------------------------------
    def defs_reaching(self, nid: int, name: str) -> FrozenSet[int]:
        return self.rd_in[nid].get(name, frozenset())

    def possibly_unbound_uses(self) -> List[Tuple[int, str]]:
        """(node id, name) pairs where a local may be read before assignment."""
        out = []
        for n in self.cfg.nodes:
            if self.da_in[n.id] is None:
                continue  # unreachable
            for nm in names_loaded(n):
                if nm.id in self.locals and nm.id not in self.da_in[n.id]:
                    out.append((n.id, nm.id))
        return out

    def def_value(self, site: int, name: str) -> Optional[ast.AST]:
        """The expression assigned to `name` at definition site `site`, when it
        is a plain single-target assignment."""
        if site == PARAM:
            return None
        a = self.cfg.nodes[site].ast
        if isinstance(a, ast.Assign) and len(a.targets) == 1 and isinstance(a.targets[0], ast.Name):
            if a.targets[0].id == name:
                return a.value
        if isinstance(a, ast.AnnAssign) and isinstance(a.target, ast.Name) and a.target.id == name:
            return a.value
        # a, b = x, y  is read element-wise;  a, b = e  as e[0], e[1]
        if isinstance(a, ast.Assign) and len(a.targets) == 1 and isinstance(a.targets[0], (ast.Tuple, ast.List)) and self.cfg.nodes[site].kind == 'stmt':
            t = a.targets[0]
            if not any(isinstance(e, ast.Starred) for e in t.elts):
                idx = [i for i, e in enumerate(t.elts) if isinstance(e, ast.Name) and e.id == name]
                if len(idx) == 1:
                    if isinstance(a.value, (ast.Tuple, ast.List)) and len(a.value.elts) == len(t.elts) and not any(isinstance(e, ast.Starred) for e in a.value.elts):
                        # simultaneous assignment: safe to read element-wise only if no target is read by another element
                        tn = {e.id for e in t.elts if isinstance(e, ast.Name)}
                        others = [v for j, v in enumerate(a.value.elts) if j != idx[0]]
                        if not any(isinstance(x, ast.Name) and x.id in tn for v in a.value.elts for x in ast.walk(v)):
                            return a.value.elts[idx[0]]
                        return None
                    sub = ast.Subscript(value=a.value, slice=ast.Constant(value=idx[0]), ctx=ast.Load())
                    return ast.fix_missing_locations(ast.copy_location(sub, a))
        return None

    def values_reaching(self, nid: int, name: str) -> List[Tuple[int, Optional[ast.AST]]]:
        return [(s, self.def_value(s, name)) for s in sorted(self.defs_reaching(nid, name))]
