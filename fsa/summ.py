"""Return-value summaries of small helper functions.

`summarise_return(fn)` gives the value a function returns as one expression over
its parameters (and free names), when the body is straight-line code with
conditionals:

    def replace_type(term, new_type):          term._replace(type=new_type)
        if term.type == Type.VARIABLE:    ->       if term.type == Type.VARIABLE
            term = term._replace(type=new_type)    else term
        return term

    def contains(terms, ty):                   any(t.type == ty for t in terms)
        for t in terms:
            if t.type == ty:              ->
                return True
        return False

Statements handled: assignments to plain names, `if`/`else`, `return`, `pass`,
docstrings, and the search-loop idiom above (and its `all` dual).  Anything else
(raise, try, while, calls as statements, augmented assignment, ...) makes the
function not summarisable (None): the caller then treats a call of it as opaque.
The summary is used for *reading* an expression through the helper, never for
executing anything.
"""

from __future__ import annotations

import ast
import copy
from typing import Dict, List, Optional, Tuple


class NotSummarisable(Exception):
    pass


class _Sub(ast.NodeTransformer):
    def __init__(self, env: Dict[str, ast.AST]) -> None:
        self.env = env
        self.shadow: List[set] = []

    def visit_Name(self, node: ast.Name):
        if isinstance(node.ctx, ast.Load) and node.id in self.env and not any(node.id in s for s in self.shadow):
            rep_ = self.env[node.id]
            if self.shadow:
                # no capture: the replacement's free names must not be bound by an enclosing comprehension / lambda
                free = {x.id for x in ast.walk(rep_) if isinstance(x, ast.Name) and isinstance(x.ctx, ast.Load)}
                if any(free & s for s in self.shadow):
                    return node
            return copy.deepcopy(rep_)
        return node

    def _comp(self, node):
        # comprehension targets shadow outer names
        names = {x.id for g in node.generators for x in ast.walk(g.target) if isinstance(x, ast.Name)}
        # the first iterable is evaluated in the enclosing scope
        node.generators[0].iter = self.visit(node.generators[0].iter)
        self.shadow.append(names)
        for i, g in enumerate(node.generators):
            if i:
                g.iter = self.visit(g.iter)
            g.ifs = [self.visit(c) for c in g.ifs]
        for fld in ('elt', 'key', 'value'):
            if hasattr(node, fld):
                setattr(node, fld, self.visit(getattr(node, fld)))
        self.shadow.pop()
        return node

    visit_ListComp = visit_SetComp = visit_GeneratorExp = visit_DictComp = _comp

    def visit_Lambda(self, node: ast.Lambda):
        names = {a.arg for a in node.args.args + node.args.kwonlyargs}
        self.shadow.append(names)
        node.body = self.visit(node.body)
        self.shadow.pop()
        return node


def _subst(e: ast.AST, env: Dict[str, ast.AST]) -> ast.AST:
    if not env:
        return copy.deepcopy(e)
    return ast.fix_missing_locations(_Sub(env).visit(copy.deepcopy(e)))


def _is_const(e: ast.AST, v) -> bool:
    return isinstance(e, ast.Constant) and e.value is v


def _run(stmts: List[ast.stmt], env: Dict[str, ast.AST]) -> Tuple[Dict[str, ast.AST], Optional[ast.AST]]:
    for i, s in enumerate(stmts):
        if isinstance(s, ast.Pass) or (isinstance(s, ast.Expr) and isinstance(s.value, ast.Constant)):
            continue
        if isinstance(s, ast.FunctionDef):
            continue
        if isinstance(s, ast.Assign) and len(s.targets) == 1 and isinstance(s.targets[0], ast.Name):
            env = dict(env)
            env[s.targets[0].id] = _subst(s.value, env)
            continue
        if isinstance(s, ast.AnnAssign) and isinstance(s.target, ast.Name) and s.value is not None:
            env = dict(env)
            env[s.target.id] = _subst(s.value, env)
            continue
        if isinstance(s, ast.Assign) and len(s.targets) == 1 and isinstance(s.targets[0], (ast.Tuple, ast.List)) \
                and all(isinstance(e, ast.Name) for e in s.targets[0].elts):
            # a, b = x, y  element-wise;  a, b, c = e  as e[0], e[1], e[2]
            env = dict(env)
            val = _subst(s.value, env)
            tg = s.targets[0].elts
            if isinstance(val, (ast.Tuple, ast.List)) and len(val.elts) == len(tg) and not any(isinstance(e, ast.Starred) for e in val.elts):
                for t_, v_ in zip(tg, val.elts):
                    env[t_.id] = v_
            else:
                for i_, t_ in enumerate(tg):
                    env[t_.id] = ast.Subscript(value=copy.deepcopy(val), slice=ast.Constant(value=i_), ctx=ast.Load())
            continue
        if isinstance(s, ast.Return):
            if s.value is None:
                return env, ast.Constant(value=None)
            return env, _subst(s.value, env)
        if isinstance(s, ast.If):
            t = _subst(s.test, env)
            env_t, rt = _run(s.body, env)
            env_f, rf = _run(s.orelse, env)
            rest = stmts[i + 1:]
            if rt is not None and rf is not None:
                return env, ast.IfExp(test=t, body=rt, orelse=rf)
            if rt is not None:
                _e2, r2 = _run(rest, env_f)
                if r2 is None:
                    raise NotSummarisable('falls off the end')
                return env, ast.IfExp(test=t, body=rt, orelse=r2)
            if rf is not None:
                _e2, r2 = _run(rest, env_t)
                if r2 is None:
                    raise NotSummarisable('falls off the end')
                return env, ast.IfExp(test=t, body=r2, orelse=rf)
            merged = dict(env)
            for k in set(env_t) | set(env_f):
                a, b = env_t.get(k), env_f.get(k)
                if a is None:
                    a = ast.Name(id=k, ctx=ast.Load())
                if b is None:
                    b = ast.Name(id=k, ctx=ast.Load())
                if ast.dump(a) == ast.dump(b):
                    merged[k] = a
                else:
                    merged[k] = ast.IfExp(test=copy.deepcopy(t), body=a, orelse=b)
            env = merged
            continue
        if isinstance(s, ast.For) and not s.orelse and len(s.body) == 1 and isinstance(s.body[0], ast.If) and not s.body[0].orelse \
                and len(s.body[0].body) == 1 and isinstance(s.body[0].body[0], ast.Return) and len(stmts) == i + 2 and isinstance(stmts[i + 1], ast.Return):
            inner, outer = s.body[0].body[0].value, stmts[i + 1].value
            names = {x.id for x in ast.walk(s.target) if isinstance(x, ast.Name)}
            env2 = {k: v for k, v in env.items() if k not in names}
            cond = _subst(s.body[0].test, env2)
            it = _subst(s.iter, env)
            gen = lambda c: ast.GeneratorExp(elt=c, generators=[ast.comprehension(target=copy.deepcopy(s.target), iter=it, ifs=[], is_async=0)])
            if inner is not None and outer is not None and _is_const(inner, True) and _is_const(outer, False):
                return env, ast.Call(func=ast.Name(id='any', ctx=ast.Load()), args=[gen(cond)], keywords=[])
            if inner is not None and outer is not None and _is_const(inner, False) and _is_const(outer, True):
                return env, ast.Call(func=ast.Name(id='all', ctx=ast.Load()), args=[gen(ast.UnaryOp(op=ast.Not(), operand=cond))], keywords=[])
            raise NotSummarisable('search loop with non-boolean results')
        if isinstance(s, ast.Try) and not s.finalbody and not s.orelse and s.handlers and all(h.body and isinstance(h.body[-1], ast.Raise) for h in s.handlers) \
                and not any(isinstance(x, ast.Return) for h in s.handlers for x in ast.walk(h)):
            # try: <body> except E: ... raise: what is returned comes from the body (the handlers only raise)
            env_b, rb = _run(s.body, env)
            if rb is not None:
                return env, rb
            env = env_b
            continue
        if TRY_FALLBACK[0] and isinstance(s, ast.Try) and not s.finalbody and not s.orelse and len(s.handlers) == 1 and len(s.body) == 1 \
                and isinstance(s.body[0], ast.Return) and s.body[0].value is not None and s.handlers[0].type is not None \
                and not (s.handlers[0].name and any(isinstance(x, ast.Name) and x.id == s.handlers[0].name for b_ in s.handlers[0].body for x in ast.walk(b_))):
            # try: return A / except E: <fallback>   ==   <fallback> if __raised__(A, 'E') else A
            a_ = _subst(s.body[0].value, env)
            hv = _run_handler(list(s.handlers[0].body) + list(stmts[i + 1:]), env)
            test = ast.Call(func=ast.Name(id='__raised__', ctx=ast.Load()), args=[copy.deepcopy(a_), ast.Constant(value=ast.unparse(s.handlers[0].type))], keywords=[])
            return env, ast.IfExp(test=test, body=hv, orelse=a_)
        raise NotSummarisable(type(s).__name__)
    return env, None


# opt-in (set by a rule around its own reading): `try: return A except E: ...` summarised with the pseudo-calls
# `__raised__(A, 'E')`, `__reraise__()`, `__raise__(exc)`
TRY_FALLBACK = [False]


def _run_handler(stmts: List[ast.stmt], env: Dict[str, ast.AST]) -> ast.AST:
    for i, s in enumerate(stmts):
        if isinstance(s, ast.Pass) or (isinstance(s, ast.Expr) and isinstance(s.value, ast.Constant)):
            continue
        if isinstance(s, ast.Raise):
            if s.exc is None:
                return ast.Call(func=ast.Name(id='__reraise__', ctx=ast.Load()), args=[], keywords=[])
            return ast.Call(func=ast.Name(id='__raise__', ctx=ast.Load()), args=[_subst(s.exc, env)], keywords=[])
        if isinstance(s, ast.Return):
            return _subst(s.value, env) if s.value is not None else ast.Constant(value=None)
        if isinstance(s, ast.If):
            rest = list(stmts[i + 1:])
            return ast.IfExp(test=_subst(s.test, env), body=_run_handler(list(s.body) + rest, env), orelse=_run_handler(list(s.orelse) + rest, env))
        if isinstance(s, ast.Assign) and len(s.targets) == 1 and isinstance(s.targets[0], ast.Name):
            env = dict(env)
            env[s.targets[0].id] = _subst(s.value, env)
            continue
        raise NotSummarisable(type(s).__name__)
    raise NotSummarisable('falls off the end')


def summarise_return(fn: ast.FunctionDef, lenient: bool = False) -> Optional[ast.AST]:
    """`lenient`: also read through a memoising decorator and past helper functions nested at the top of the body (their
    names stay opaque free names of the result) - for a caller that wants this one function read, not every helper."""
    # a memoising decorator hands back what the function returns
    for d in fn.decorator_list:
        dn = d.func if isinstance(d, ast.Call) else d
        if not lenient or ast.unparse(dn) not in ('functools.lru_cache', 'lru_cache', 'functools.cache', 'cache'):
            return None
    if fn.args.vararg or fn.args.kwarg:
        return None
    own: List[ast.AST] = []
    stack: List[ast.AST] = list(fn.body)
    while stack:
        n = stack.pop()
        if lenient and isinstance(n, (ast.FunctionDef, ast.AsyncFunctionDef)) and n in fn.body:
            continue            # a nested helper defined at the top of the body: its name stays an opaque free name
        own.append(n)
        stack.extend(ast.iter_child_nodes(n))
    for n in own:
        if isinstance(n, (ast.Yield, ast.YieldFrom, ast.Await, ast.Global, ast.Nonlocal)):
            return None
        if isinstance(n, (ast.FunctionDef, ast.AsyncFunctionDef, ast.ClassDef)):
            return None
    try:
        env, r = _run(fn.body, {})
    except NotSummarisable:
        return None
    except RecursionError:
        return None
    if r is None:
        return None
    if lenient:
        r = _inline_nested(fn, r, env)
    return ast.fix_missing_locations(ast.copy_location(r, fn))


def _bind_call(h: ast.FunctionDef, node: ast.Call) -> Optional[Dict[str, ast.AST]]:
    names = [a.arg for a in h.args.posonlyargs + h.args.args]
    if len(node.args) > len(names) or any(isinstance(a, ast.Starred) for a in node.args):
        return None
    bound = dict(zip(names, node.args))
    allp = names + [a.arg for a in h.args.kwonlyargs]
    for kw in node.keywords:
        if kw.arg is None or kw.arg in bound or kw.arg not in allp:
            return None
        bound[kw.arg] = kw.value
    dflt = dict(zip(names[len(names) - len(h.args.defaults):], h.args.defaults))
    for a, d in zip(h.args.kwonlyargs, h.args.kw_defaults):
        if d is not None:
            dflt[a.arg] = d
    for p in allp:
        if p not in bound:
            if p in dflt and isinstance(dflt[p], ast.Constant):
                bound[p] = dflt[p]
            else:
                return None
    return bound


def _inline_nested(fn: ast.FunctionDef, r: ast.AST, env: Dict[str, ast.AST]) -> ast.AST:
    """Calls, in the summarised return value, of helpers nested at the top of `fn`'s body are replaced by those
    helpers' own summaries (their free names read from `fn`'s locals; a helper passed as an argument and called
    through the parameter is followed too)."""
    nested = {s.name: s for s in fn.body if isinstance(s, ast.FunctionDef)}
    if not nested:
        return r
    summ = {}
    for k, h in nested.items():
        rv = summarise_return(h, lenient=True)
        if rv is not None:
            summ[k] = rv

    class T(ast.NodeTransformer):
        changed = False

        def visit_Call(self, node):
            self.generic_visit(node)
            if isinstance(node.func, ast.Name) and node.func.id in summ:
                bound = _bind_call(nested[node.func.id], node)
                if bound is not None:
                    T.changed = True
                    # the helper's own free names are read from the enclosing locals; then its parameters from the call
                    outer = {k: v for k, v in env.items() if k not in bound}
                    body = _subst(summ[node.func.id], outer)
                    return _subst(body, bound)
            return node

    out = copy.deepcopy(r)
    for _ in range(4):
        T.changed = False
        out = T().visit(out)
        if not T.changed:
            break
    return ast.fix_missing_locations(out)
