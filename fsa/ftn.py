"""Reader for FORTRAN_TEMPLATE (a string constant in fsic/fortran.py).

The template uses a small, line-oriented subset of free-form Fortran:
module / subroutine units, declarations, assignment, `if/else if/else/end if`,
`do/end do`, `cycle/exit/return`, `call`, `&` continuation, `!` comments, and
`{placeholder}` fields filled by `str.format`.  Each subroutine body is
translated statement by statement into a *Python* AST (array references on the
left of `=` become subscripts; `.not./.and./.or.`, `/=` are mapped) so that the
same CFG / dominator / guard / comparison machinery serves both back-ends.

Nothing is compiled or executed.
"""

from __future__ import annotations

import ast
import re
from dataclasses import dataclass, field
from typing import Dict, List, Optional, Tuple

from .source import Unsupported


@dataclass
class Decl:
    name: str
    type: str
    dims: Optional[str]
    intent: Optional[str]
    init: Optional[str]
    order: int


@dataclass
class FSub:
    name: str
    args: List[str]
    decls: Dict[str, Decl]
    uses: List[str]
    pyfunc: ast.FunctionDef
    lines: List[Tuple[int, str]]


@dataclass
class FModule:
    name: str
    consts: Dict[str, str]


@dataclass
class FUnit:
    modules: Dict[str, FModule]
    subs: Dict[str, FSub]
    placeholders: List[str]


PLACEHOLDER = re.compile(r'^\{(\w+)\}$')


def _logical_lines(src: str) -> List[Tuple[int, str]]:
    """Join continuation lines, strip comments; (first line number, text)."""
    out: List[Tuple[int, str]] = []
    buf = ''
    start = 0
    for i, raw in enumerate(src.splitlines(), 1):
        line = raw
        # strip comment (no string literals containing '!' in the template)
        if '!' in line:
            line = line[: line.index('!')]
        line = line.rstrip()
        if not line.strip():
            continue
        s = line.strip()
        if s.startswith('&'):
            s = s[1:].lstrip()
        if not buf:
            start = i
        if s.endswith('&'):
            buf += s[:-1].rstrip() + ' '
            continue
        buf += s
        out.append((start, buf))
        buf = ''
    if buf:
        out.append((start, buf))
    return out


def _split_args(s: str) -> List[str]:
    out, depth, cur = [], 0, ''
    for ch in s:
        if ch in '([':
            depth += 1
        elif ch in ')]':
            depth -= 1
        if ch == ',' and depth == 0:
            out.append(cur.strip())
            cur = ''
        else:
            cur += ch
    if cur.strip():
        out.append(cur.strip())
    return out


def f2py_expr(s: str) -> str:
    s = re.sub(r'\.not\.', ' not ', s, flags=re.I)
    s = re.sub(r'\.and\.', ' and ', s, flags=re.I)
    s = re.sub(r'\.or\.', ' or ', s, flags=re.I)
    s = re.sub(r'\.true\.', ' True ', s, flags=re.I)
    s = re.sub(r'\.false\.', ' False ', s, flags=re.I)
    s = s.replace('/=', '!=')
    return s.strip()


def _pyexpr(s: str, lineno: int) -> ast.AST:
    try:
        e = ast.parse(f2py_expr(s), mode='eval').body
    except SyntaxError as ex:
        raise Unsupported(f'FORTRAN_TEMPLATE line {lineno}: cannot read expression `{s}`: {ex}') from None
    for n in ast.walk(e):
        n.lineno = lineno
        n.col_offset = 0
        n.end_lineno = lineno
        n.end_col_offset = 0
    return e


def _stmt(node: ast.stmt, lineno: int) -> ast.stmt:
    for n in ast.walk(node):
        if not hasattr(n, 'lineno') or True:
            try:
                n.lineno = getattr(n, 'lineno', lineno) or lineno
                n.col_offset = 0
                n.end_lineno = n.lineno
                n.end_col_offset = 0
            except AttributeError:
                pass
    node.lineno = lineno
    return node


_IF_THEN = re.compile(r'^if\s*\((.*)\)\s*then$', re.I)
_ELIF = re.compile(r'^else\s*if\s*\((.*)\)\s*then$', re.I)
_DO = re.compile(r'^do\s+(\w+)\s*=\s*(.+)$', re.I)
_CALL = re.compile(r'^call\s+(\w+)\s*\((.*)\)$', re.I)
_ASSIGN = re.compile(r'^([A-Za-z_]\w*)\s*(\(.*?\))?\s*=(?!=)\s*(.+)$')


def _parse_block(lines: List[Tuple[int, str]], i: int, stop: Tuple[str, ...]) -> Tuple[List[ast.stmt], int, str]:
    """Parse statements until a line whose lowercase text starts with one of `stop`."""
    body: List[ast.stmt] = []
    while i < len(lines):
        ln, t = lines[i]
        low = re.sub(r'\s+', ' ', t.lower())
        for s in stop:
            if low == s or low.startswith(s + ' ') or low.startswith(s + '('):
                return body, i, s
        m = _IF_THEN.match(t)
        if m:
            test = _pyexpr(m.group(1), ln)
            then, i, why = _parse_block(lines, i + 1, ('else if', 'else', 'end if', 'endif'))
            node = ast.If(test=test, body=then or [ast.Pass()], orelse=[])
            cur = node
            while why == 'else if':
                m2 = _ELIF.match(lines[i][1])
                if not m2:
                    raise Unsupported(f'FORTRAN_TEMPLATE line {lines[i][0]}: malformed else-if')
                t2 = _pyexpr(m2.group(1), lines[i][0])
                blk, i, why = _parse_block(lines, i + 1, ('else if', 'else', 'end if', 'endif'))
                nxt = ast.If(test=t2, body=blk or [ast.Pass()], orelse=[])
                _stmt(nxt, lines[i][0])
                cur.orelse = [nxt]
                cur = nxt
            if why == 'else':
                blk, i, why = _parse_block(lines, i + 1, ('end if', 'endif'))
                cur.orelse = blk
            body.append(_stmt(node, ln))
            i += 1
            continue
        m = _DO.match(t)
        if m:
            var = m.group(1)
            parts = _split_args(m.group(2))
            if len(parts) not in (2, 3):
                raise Unsupported(f'FORTRAN_TEMPLATE line {ln}: do-loop bounds `{m.group(2)}`')
            lo = _pyexpr(parts[0], ln)
            hi = _pyexpr(parts[1], ln)
            # do v = lo, hi   ==  for v in range(lo, hi + 1)
            rng = ast.Call(
                func=ast.Name(id='range', ctx=ast.Load()),
                args=[lo, ast.BinOp(left=hi, op=ast.Add(), right=ast.Constant(value=1))]
                + ([_pyexpr(parts[2], ln)] if len(parts) == 3 else []),
                keywords=[],
            )
            blk, i, why = _parse_block(lines, i + 1, ('end do', 'enddo'))
            node = ast.For(target=ast.Name(id=var, ctx=ast.Store()), iter=rng, body=blk or [ast.Pass()], orelse=[])
            body.append(_stmt(node, ln))
            i += 1
            continue
        if low == 'return':
            body.append(_stmt(ast.Return(value=None), ln))
            i += 1
            continue
        if low == 'cycle':
            body.append(_stmt(ast.Continue(), ln))
            i += 1
            continue
        if low == 'exit':
            body.append(_stmt(ast.Break(), ln))
            i += 1
            continue
        m = _CALL.match(t)
        if m:
            args = [_pyexpr(a, ln) for a in _split_args(m.group(2))]
            call = ast.Call(func=ast.Name(id=m.group(1), ctx=ast.Load()), args=args, keywords=[])
            body.append(_stmt(ast.Expr(value=call), ln))
            i += 1
            continue
        pm = PLACEHOLDER.match(t.strip())
        if pm:
            body.append(_stmt(ast.Expr(value=ast.Name(id=f'__PLACEHOLDER_{pm.group(1)}__', ctx=ast.Load())), ln))
            i += 1
            continue
        m = _ASSIGN.match(t)
        if m:
            name, idx, rhs = m.group(1), m.group(2), m.group(3)
            value = _pyexpr(rhs, ln)
            if idx:
                inner = idx[1:-1]
                elts = [_pyexpr(a, ln) for a in _split_args(inner)]
                sl = elts[0] if len(elts) == 1 else ast.Tuple(elts=elts, ctx=ast.Load())
                tgt: ast.expr = ast.Subscript(value=ast.Name(id=name, ctx=ast.Load()), slice=sl, ctx=ast.Store())
            else:
                tgt = ast.Name(id=name, ctx=ast.Store())
            body.append(_stmt(ast.Assign(targets=[tgt], value=value), ln))
            i += 1
            continue
        raise Unsupported(f'FORTRAN_TEMPLATE line {ln}: statement not in the modelled subset: `{t}`')
    return body, i, ''


_DECL = re.compile(r'^(integer|real\s*\(\s*8\s*\)|logical)\s*(.*?)::\s*(.+)$', re.I)


def _parse_decl(t: str, order: int) -> List[Decl]:
    m = _DECL.match(t)
    if not m:
        return []
    typ = re.sub(r'\s+', '', m.group(1).lower())
    attrs = m.group(2)
    dims = None
    intent = None
    dm = re.search(r'dimension\s*\(([^)]*)\)', attrs, re.I)
    if dm:
        dims = dm.group(1).strip()
    im = re.search(r'intent\s*\(\s*(\w+)\s*\)', attrs, re.I)
    if im:
        intent = im.group(1).lower()
    out = []
    for k, item in enumerate(_split_args(m.group(3))):
        if '=' in item:
            nm, init = item.split('=', 1)
            out.append(Decl(nm.strip(), typ, dims, intent, init.strip(), order * 100 + k))
        else:
            out.append(Decl(item.strip(), typ, dims, intent, None, order * 100 + k))
    return out


def parse_template(src: str) -> FUnit:
    lines = _logical_lines(src)
    modules: Dict[str, FModule] = {}
    subs: Dict[str, FSub] = {}
    placeholders: List[str] = re.findall(r'\{(\w+)\}', src)
    i = 0
    while i < len(lines):
        ln, t = lines[i]
        low = t.lower()
        mm = re.match(r'^module\s+(\w+)$', low)
        if mm:
            name = mm.group(1)
            consts: Dict[str, str] = {}
            i += 1
            while i < len(lines) and not lines[i][1].lower().startswith('end module'):
                for d in _parse_decl(lines[i][1], i):
                    if d.init is not None:
                        consts[d.name] = d.init
                i += 1
            modules[name] = FModule(name, consts)
            i += 1
            continue
        sm = re.match(r'^subroutine\s+(\w+)\s*\((.*)\)$', t, re.I)
        if sm:
            name = sm.group(1)
            args = _split_args(sm.group(2))
            decls: Dict[str, Decl] = {}
            uses: List[str] = []
            i += 1
            # specification part
            while i < len(lines):
                l2 = lines[i][1]
                lw = l2.lower()
                if lw.startswith('use'):
                    um = re.match(r'^use\s*(?:,\s*intrinsic\s*::)?\s*(\w+)', lw)
                    if um:
                        uses.append(um.group(1))
                    i += 1
                    continue
                if lw.startswith('implicit'):
                    i += 1
                    continue
                ds = _parse_decl(l2, i)
                if ds:
                    for d in ds:
                        decls[d.name] = d
                    i += 1
                    continue
                break
            body, i, why = _parse_block(lines, i, ('end subroutine',))
            if why != 'end subroutine':
                raise Unsupported(f'FORTRAN_TEMPLATE: subroutine {name} not terminated')
            fn = ast.FunctionDef(
                name=name,
                args=ast.arguments(
                    posonlyargs=[], args=[ast.arg(arg=a) for a in args], vararg=None, kwonlyargs=[], kw_defaults=[],
                    kwarg=None, defaults=[],
                ),
                body=body or [ast.Pass()],
                decorator_list=[],
                returns=None,
                type_params=[],
            )
            fn.lineno = ln
            ast.fix_missing_locations(fn)
            subs[name] = FSub(name, args, decls, uses, fn, lines)
            i += 1
            continue
        # header comment placeholders etc.
        i += 1
    return FUnit(modules, subs, placeholders)
