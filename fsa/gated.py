"""Gated symbolic values of locals: what a local *is*, as one expression over the
function's inputs, at a given statement.

The evaluator walks the structured statement tree once, keeping an environment
name -> expression:

    x = a                      x |-> a
    if c: x = b                x |-> (b if c else a)
    t, u = p, q                element-wise
    d = {}; d[k] = v           d |-> {k: v}            (display literals are extended)
    l = []; l.append(e)        l |-> [e]
    x += e                     x |-> x + e
    h(args)  with h a local one-expression helper (fsa/summ.py): read through,
             its free names taken from the environment at the call (late binding)

Names bound in loops, `with`, `try`, by unpacking a non-tuple, or mutated through
an unknown method are *opaque* from there on (a fresh symbol `name@line`), as
are comprehension-local names.  A branch that ends in return/raise/continue/break
does not contribute to the merge after the `if`.  Nothing is executed and no
solver is involved; the result is used to compare what a function computes with
the expected form, independently of how many intermediate names or helpers the
computation is spread over.

`canon(e)` normalises the idioms that differ between equivalent spellings:
`x if not c else y`, `len(s) > 0` / `len(s) != 0` / `bool(s)` as truth tests of s,
`is not` / `!=` / `not in` under negation, commutative max/min argument order.
"""

from __future__ import annotations

import ast
import copy
from typing import Dict, List, Optional, Set, Tuple

from .summ import _Sub, summarise_return

Env = Dict[str, ast.AST]

MUTATORS = {'append', 'extend', 'insert', 'pop', 'remove', 'clear', 'sort', 'reverse', 'update', 'setdefault', 'popitem', 'add', 'discard',
            '__setitem__', '__delitem__', 'fill', 'put', 'resize'}


def _names_stored(node: ast.AST) -> Set[str]:
    out: Set[str] = set()
    for n in ast.walk(node):
        if isinstance(n, ast.Name) and isinstance(n.ctx, (ast.Store, ast.Del)):
            out.add(n.id)
        elif isinstance(n, (ast.FunctionDef, ast.AsyncFunctionDef, ast.ClassDef)):
            out.add(n.name)
        elif isinstance(n, ast.ExceptHandler) and n.name:
            out.add(n.name)
        elif isinstance(n, (ast.Import, ast.ImportFrom)):
            for al in n.names:
                out.add((al.asname or al.name).split('.')[0])
    return out


def _mutated_names(node: ast.AST) -> Set[str]:
    out: Set[str] = set()
    for n in ast.walk(node):
        if isinstance(n, ast.Call) and isinstance(n.func, ast.Attribute) and n.func.attr in MUTATORS:
            # `groups[k].append(x)` changes what `groups` holds just as `groups.update(...)` does
            r = n.func.value
            while isinstance(r, ast.Subscript):
                r = r.value
            if isinstance(r, ast.Name):
                out.add(r.id)
        if isinstance(n, (ast.Subscript, ast.Attribute)) and isinstance(n.ctx, (ast.Store, ast.Del)):
            r = n
            while isinstance(r, (ast.Subscript, ast.Attribute)):
                r = r.value
            if isinstance(r, ast.Name):
                out.add(r.id)
    return out


class SymExec:
    def __init__(self, fnode: ast.FunctionDef, inline_helpers: bool = True, keep_raise: bool = False, effect_vars=None, with_resets=None, extra_helpers=None) -> None:
        """`effect_vars`: {dotted call name: pseudo-variable}; an expression statement `name(arg)` is read as
        `pseudo = arg` (e.g. `warnings.simplefilter(x)` sets the pseudo-variable holding the active filter).
        `with_resets`: {dotted context-manager name: [pseudo-variables reset to `<inherited>` on entry]}."""
        self.fnode = fnode
        self.keep_raise = keep_raise
        self.effect_vars = dict(effect_vars or {})
        self.with_resets = dict(with_resets or {})
        self.extra_helpers = dict(extra_helpers or {})
        self.before: Dict[int, Env] = {}
        self.helpers: Dict[str, Tuple[ast.FunctionDef, ast.AST]] = dict(extra_helpers or {})
        self.inline_helpers = inline_helpers
        self._opaque = 0
        a = fnode.args
        self.params = {x.arg for x in a.posonlyargs + a.args + a.kwonlyargs}
        self._run(fnode.body, {})

    # -- expression reading -------------------------------------------------------------------------
    def opaque(self, name: str, at: ast.AST) -> ast.AST:
        return ast.Name(id=f'{name}@{getattr(at, "lineno", 0)}', ctx=ast.Load())

    def subst(self, e: ast.AST, env: Env, depth: int = 4) -> ast.AST:
        out = ast.fix_missing_locations(_Sub(env).visit(copy.deepcopy(e))) if env else copy.deepcopy(e)
        if self.inline_helpers and depth > 0 and self.helpers:
            out2 = self._inline(out, env, depth)
            return out2
        return out

    def _inline(self, e: ast.AST, env: Env, depth: int) -> ast.AST:
        helpers = self.helpers

        def key_of(call):
            if isinstance(call.func, ast.Name):
                return call.func.id
            if isinstance(call.func, ast.Attribute) and isinstance(call.func.value, ast.Name) and call.func.value.id in ('self', 'cls'):
                return f'self.{call.func.attr}'
            return None

        if not any(isinstance(x, ast.Call) and key_of(x) in helpers for x in ast.walk(e)):
            return e
        me = self

        class T(ast.NodeTransformer):
            def visit_Call(self, node):
                self.generic_visit(node)
                if key_of(node) in helpers:
                    h, body = helpers[key_of(node)]
                    names = [a.arg for a in h.args.posonlyargs + h.args.args]
                    recv_bind = {}
                    if key_of(node).startswith('self.'):
                        recv_bind = {names[0]: node.func.value}
                        names = names[1:]
                    if len(node.args) > len(names) or any(isinstance(a, ast.Starred) for a in node.args):
                        return node
                    bound = dict(zip(names, node.args))
                    allp = names + [a.arg for a in h.args.kwonlyargs]
                    for kw in node.keywords:
                        if kw.arg is None or kw.arg in bound or kw.arg not in allp:
                            return node
                        bound[kw.arg] = kw.value
                    dflt = dict(zip(names[len(names) - len(h.args.defaults):], h.args.defaults))
                    for a, d in zip(h.args.kwonlyargs, h.args.kw_defaults):
                        if d is not None:
                            dflt[a.arg] = d
                    for p in allp:
                        if p not in bound:
                            if p in dflt and isinstance(dflt[p], ast.Constant):
                                bound[p] = dflt[p]
                            else:
                                return node
                    # free names of the helper body are read from the environment at the call (late binding)
                    full = {k: v for k, v in env.items() if k not in bound} if not recv_bind and h.name in {x.name for x in me.fnode.body if isinstance(x, ast.FunctionDef)} else {}
                    full.update(bound)
                    full.update(recv_bind)
                    return me.subst(body, full, depth - 1)
                return node

        return ast.fix_missing_locations(T().visit(e))

    # -- statements ---------------------------------------------------------------------------------------
    def _havoc(self, env: Env, names: Set[str], at: ast.AST) -> Env:
        env = dict(env)
        for n in names:
            env[n] = self.opaque(n, at)
        return env

    def _bind_target(self, env: Env, target: ast.AST, value: ast.AST, at: ast.AST) -> Env:
        if isinstance(target, ast.Name):
            env = dict(env)
            env[target.id] = value
            return env
        if isinstance(target, (ast.Tuple, ast.List)):
            if isinstance(value, (ast.Tuple, ast.List)) and len(value.elts) == len(target.elts) and not any(isinstance(e, ast.Starred) for e in target.elts + value.elts):
                for t, v in zip(target.elts, value.elts):
                    env = self._bind_target(env, t, v, at)
                return env
            if not any(isinstance(e, ast.Starred) for e in target.elts):
                for i, t in enumerate(target.elts):
                    env = self._bind_target(env, t, ast.Subscript(value=copy.deepcopy(value), slice=ast.Constant(value=i), ctx=ast.Load()), at)
                return env
            stars = [i for i, e in enumerate(target.elts) if isinstance(e, ast.Starred)]
            if len(stars) == 1 and isinstance(target.elts[stars[0]].value, ast.Name):
                # a, *rest, z = v :  a = v[0], rest = list(v[1:-1]), z = v[-1]
                k = stars[0]
                after = len(target.elts) - k - 1
                for i, t in enumerate(target.elts):
                    if i < k:
                        sub = ast.Subscript(value=copy.deepcopy(value), slice=ast.Constant(value=i), ctx=ast.Load())
                    elif i == k:
                        sl = ast.Slice(lower=ast.Constant(value=k) if k else None, upper=ast.UnaryOp(op=ast.USub(), operand=ast.Constant(value=after)) if after else None)
                        sub = ast.Call(func=ast.Name(id='list', ctx=ast.Load()), args=[ast.Subscript(value=copy.deepcopy(value), slice=sl, ctx=ast.Load())], keywords=[])
                        t = t.value
                    else:
                        sub = ast.Subscript(value=copy.deepcopy(value), slice=ast.UnaryOp(op=ast.USub(), operand=ast.Constant(value=len(target.elts) - i)), ctx=ast.Load())
                    env = self._bind_target(env, t, ast.fix_missing_locations(sub), at)
                return env
            return self._havoc(env, _names_stored(target), at)
        if isinstance(target, ast.Subscript) and isinstance(target.value, ast.Name):
            nm = target.value.id
            cur = env.get(nm)
            if isinstance(cur, ast.Dict) and not isinstance(target.slice, ast.Slice):
                env = dict(env)
                new = copy.deepcopy(cur)
                new.keys.append(self.subst(target.slice, env))
                new.values.append(value)
                env[nm] = new
                return env
            if not isinstance(target.slice, ast.Slice) and (nm in env or nm in self.params) and not isinstance(cur, ast.Dict):
                # an item store on something that is not a dict display: recorded as a layer `<setitem>(object, key, value)`
                env = dict(env)
                base = copy.deepcopy(cur) if cur is not None else ast.Name(id=nm, ctx=ast.Load())
                env[nm] = ast.Call(func=ast.Name(id='<setitem>', ctx=ast.Load()), args=[base, self.subst(target.slice, env), value], keywords=[])
                return env
            if nm in env:
                return self._havoc(env, {nm}, at)
            return env
        if isinstance(target, (ast.Attribute, ast.Subscript)):
            r = target
            while isinstance(r, (ast.Subscript, ast.Attribute)):
                r = r.value
            if isinstance(r, ast.Name) and r.id in env and not isinstance(env[r.id], ast.Name):
                return self._havoc(env, {r.id}, at)
            return env
        return env

    def _expr_stmt(self, env: Env, s: ast.Expr) -> Env:
        v = s.value
        if self.effect_vars and isinstance(v, ast.Call) and len(v.args) >= 1:
            d = ast.unparse(v.func)
            if d in self.effect_vars:
                env = dict(env)
                env[self.effect_vars[d]] = self.subst(v.args[0], env)
                return env
        if isinstance(v, ast.Call) and isinstance(v.func, ast.Attribute) and isinstance(v.func.value, ast.Name):
            nm, m = v.func.value.id, v.func.attr
            cur = env.get(nm)
            if m == 'append' and isinstance(cur, ast.List) and len(v.args) == 1:
                env = dict(env)
                new = copy.deepcopy(cur)
                new.elts.append(self.subst(v.args[0], env))
                env[nm] = new
                return env
            if m == 'update' and isinstance(cur, ast.Dict):
                env = dict(env)
                new = copy.deepcopy(cur)
                okk = True
                for a in v.args:
                    a2 = self.subst(a, env)
                    if isinstance(a2, ast.Dict):
                        new.keys += a2.keys
                        new.values += a2.values
                    else:
                        new.keys.append(None)
                        new.values.append(a2)
                for kw in v.keywords:
                    if kw.arg is None:
                        new.keys.append(None)
                        new.values.append(self.subst(kw.value, env))
                    else:
                        new.keys.append(ast.Constant(value=kw.arg))
                        new.values.append(self.subst(kw.value, env))
                env[nm] = new
                return env
            if m == 'update' and nm in env and not isinstance(cur, ast.Dict) and len(v.args) == 1 and not v.keywords:
                # a mapping bound to something else than a display: recorded as the merge `cur | arg` (later layers win)
                env = dict(env)
                env[nm] = ast.BinOp(left=copy.deepcopy(cur), op=ast.BitOr(), right=self.subst(v.args[0], env))
                return env
            if m == 'update' and nm not in env and len(v.args) == 1 and not v.keywords and nm in self.params:
                env = dict(env)
                env[nm] = ast.BinOp(left=ast.Name(id=nm, ctx=ast.Load()), op=ast.BitOr(), right=self.subst(v.args[0], env))
                return env
            if m in MUTATORS and nm in env:
                return self._havoc(env, {nm}, s)
        return env

    def _unroll_first_match(self, s: ast.For, env: Env):
        """`for T in <constant table>: [x = e] if C: <assignments>; break` - the first matching row applies: the names
        assigned become a chain of conditional expressions over the rows.  None if the loop is not of that shape."""
        it = self.subst(s.iter, env)
        if not (isinstance(it, (ast.Tuple, ast.List)) and 0 < len(it.elts) <= 12 and not any(isinstance(e, ast.Starred) for e in it.elts)):
            return None
        pre, tail = s.body[:-1], s.body[-1]
        if not all(isinstance(x, ast.Assign) and len(x.targets) == 1 and isinstance(x.targets[0], ast.Name) for x in pre):
            return None
        if not (isinstance(tail, ast.If) and not tail.orelse and tail.body and isinstance(tail.body[-1], ast.Break)
                and all(isinstance(x, ast.Assign) and len(x.targets) == 1 and isinstance(x.targets[0], ast.Name) for x in tail.body[:-1])):
            return None
        assigned = [x.targets[0].id for x in tail.body[:-1]]
        loop_locals = {x.id for x in ast.walk(s.target) if isinstance(x, ast.Name)} | {x.targets[0].id for x in pre}
        if set(assigned) & loop_locals:
            return None
        acc = {v: env.get(v, ast.Name(id=v, ctx=ast.Load())) for v in assigned}
        for elt in reversed(it.elts):
            env_i = self._bind_target(dict(env), s.target, elt, s)
            for x in pre:
                env_i = self._bind_target(env_i, x.targets[0], self.subst(x.value, env_i), x)
            cond = self.subst(tail.test, env_i)
            arm = dict(env_i)
            for x in tail.body[:-1]:
                arm = self._bind_target(arm, x.targets[0], self.subst(x.value, arm), x)
            for v in assigned:
                acc[v] = ast.IfExp(test=copy.deepcopy(cond), body=arm[v], orelse=acc[v])
        return acc

    def _loop_as_comprehension(self, s: ast.For, env: Env):
        """`for T in I: [if C: continue] [x = e] [if D:] L.append(E)` with L an empty list before the loop (or `M[K] = V` with M
        an empty dict) and nothing else happening: (name, equivalent comprehension), else None."""
        targets = {x.id for x in ast.walk(s.target) if isinstance(x, ast.Name)}
        conds: List[ast.AST] = []
        local: Env = {k: ast.Name(id=k, ctx=ast.Load()) for k in targets}
        found = []

        def rd(e: ast.AST) -> ast.AST:
            outer = {k: v for k, v in env.items() if k not in local}
            return self.subst(e, {**outer, **local})

        def block(stmts) -> bool:
            for i, st in enumerate(stmts):
                if isinstance(st, ast.Pass) or (isinstance(st, ast.Expr) and isinstance(st.value, ast.Constant)):
                    continue
                if isinstance(st, ast.Assign) and len(st.targets) == 1 and isinstance(st.targets[0], ast.Name) and not found:
                    local[st.targets[0].id] = rd(st.value)
                    continue
                if isinstance(st, ast.If) and not st.orelse and len(st.body) == 1 and isinstance(st.body[0], ast.Continue) and not found:
                    conds.append(ast.UnaryOp(op=ast.Not(), operand=rd(st.test)))
                    continue
                if isinstance(st, ast.If) and not st.orelse and i == len(stmts) - 1 and not found:
                    conds.append(rd(st.test))
                    return block(st.body)
                if isinstance(st, ast.Continue) and i == len(stmts) - 1 and found:
                    continue
                if isinstance(st, ast.Expr) and isinstance(st.value, ast.Call) and isinstance(st.value.func, ast.Attribute) and st.value.func.attr == 'append' \
                        and isinstance(st.value.func.value, ast.Name) and len(st.value.args) == 1 and not found:
                    found.append(('list', st.value.func.value.id, rd(st.value.args[0]), None))
                    continue
                if isinstance(st, ast.Assign) and len(st.targets) == 1 and isinstance(st.targets[0], ast.Subscript) and isinstance(st.targets[0].value, ast.Name) \
                        and not isinstance(st.targets[0].slice, ast.Slice) and not found:
                    found.append(('dict', st.targets[0].value.id, rd(st.value), rd(st.targets[0].slice)))
                    continue
                return False
            return True

        if not block(s.body) or len(found) != 1:
            return None
        kind, name, val, key = found[0]
        cur = env.get(name)
        gens = [ast.comprehension(target=copy.deepcopy(s.target), iter=self.subst(s.iter, env), ifs=conds, is_async=0)]
        if kind == 'list' and isinstance(cur, ast.List) and not cur.elts and name not in targets:
            return name, ast.fix_missing_locations(ast.ListComp(elt=val, generators=gens))
        if kind == 'dict' and isinstance(cur, ast.Dict) and not cur.keys and name not in targets:
            return name, ast.fix_missing_locations(ast.DictComp(key=key, value=val, generators=gens))
        return None

    def _run(self, stmts: List[ast.stmt], env: Env) -> Optional[Env]:
        """Environment after the block, or None if every path through it leaves (return/raise/break/continue)."""
        for s in stmts:
            self.before[id(s)] = env
            if isinstance(s, (ast.Return, ast.Raise, ast.Break, ast.Continue)):
                return None
            if isinstance(s, ast.Assign):
                val = self.subst(s.value, env)
                for t in s.targets:
                    env = self._bind_target(env, t, val, s)
                continue
            if isinstance(s, ast.AnnAssign):
                if s.value is not None:
                    env = self._bind_target(env, s.target, self.subst(s.value, env), s)
                continue
            if isinstance(s, ast.AugAssign):
                if isinstance(s.target, ast.Name):
                    cur = env.get(s.target.id, ast.Name(id=s.target.id, ctx=ast.Load()))
                    env = dict(env)
                    env[s.target.id] = ast.BinOp(left=copy.deepcopy(cur), op=s.op, right=self.subst(s.value, env))
                else:
                    env = self._bind_target(env, s.target, self.opaque('aug', s), s)
                continue
            if isinstance(s, ast.Expr):
                env = self._expr_stmt(env, s)
                continue
            if isinstance(s, ast.If):
                test = self.subst(s.test, env)
                et = self._run(s.body, env)
                ef = self._run(s.orelse, env) if s.orelse else env
                if et is None and ef is None:
                    return None
                if (et is None or ef is None) and self.keep_raise:
                    # one arm leaves: what the other arm assigns holds only under its condition
                    live, live_is_true = (ef, False) if et is None else (et, True)
                    gone = s.body if et is None else s.orelse
                    mark = ast.Name(id='<raise>' if gone and isinstance(gone[-1], ast.Raise) else '<leaves>', ctx=ast.Load())
                    merged2: Env = {}
                    for k, v in live.items():
                        before = env.get(k)
                        if before is not None and ast.dump(before) == ast.dump(v):
                            merged2[k] = v
                        elif before is None and isinstance(v, ast.Name) and v.id == k:
                            merged2[k] = v
                        else:
                            merged2[k] = ast.IfExp(test=copy.deepcopy(test), body=v, orelse=mark) if live_is_true else ast.IfExp(test=copy.deepcopy(test), body=mark, orelse=v)
                    env = merged2
                elif et is None:
                    env = ef
                elif ef is None:
                    env = et
                else:
                    merged: Env = {}
                    for k in set(et) | set(ef):
                        a = et.get(k, ast.Name(id=k, ctx=ast.Load()))
                        b = ef.get(k, ast.Name(id=k, ctx=ast.Load()))
                        merged[k] = a if ast.dump(a) == ast.dump(b) else ast.IfExp(test=copy.deepcopy(test), body=a, orelse=b)
                    env = merged
                continue
            if isinstance(s, (ast.For, ast.While)):
                bound = _names_stored(s) | {n for n in _mutated_names(s) if n in env}
                env_in = self._havoc(env, bound, s)
                env_body = dict(env_in)
                if isinstance(s, ast.For):
                    # inside the body the loop targets simply name the current element
                    for x in ast.walk(s.target):
                        if isinstance(x, ast.Name):
                            env_body[x.id] = ast.Name(id=x.id, ctx=ast.Load())
                self._run(s.body, env_body)
                if s.orelse:
                    self._run(s.orelse, env_in)
                built = self._loop_as_comprehension(s, env) if isinstance(s, ast.For) and not s.orelse else None
                unrolled = self._unroll_first_match(s, env) if isinstance(s, ast.For) and not s.orelse and built is None else None
                env = env_in
                if built is not None:
                    env = dict(env)
                    env[built[0]] = built[1]
                if unrolled is not None:
                    env = dict(env)
                    env.update(unrolled)
                continue
            if isinstance(s, ast.With):
                bound = set()
                resets = []
                for i in s.items:
                    if i.optional_vars is not None:
                        bound |= _names_stored(i.optional_vars)
                    cm = i.context_expr.func if isinstance(i.context_expr, ast.Call) else i.context_expr
                    resets += self.with_resets.get(ast.unparse(cm), [])
                env_w = self._havoc(env, bound, s)
                for r_ in resets:
                    env_w[r_] = ast.Name(id='<inherited>', ctx=ast.Load())
                env2 = self._run(s.body, env_w)
                if env2 is None:
                    return None
                env = env2
                continue
            if isinstance(s, ast.Try):
                bound = _names_stored(s) | {n for n in _mutated_names(s) if n in env}
                outs = []
                eb = self._run(s.body, env)
                if eb is not None and s.orelse:
                    eb = self._run(s.orelse, eb)
                if eb is not None:
                    outs.append(eb)
                for h in s.handlers:
                    eh = self._run(h.body, self._havoc(env, bound, h))
                    if eh is not None:
                        outs.append(eh)
                if not outs:
                    return None
                if len(outs) == 1:
                    env = outs[0]
                else:
                    merged = {}
                    for k in set().union(*[set(o) for o in outs]):
                        vals = [o.get(k) for o in outs]
                        if all(v is not None and ast.dump(v) == ast.dump(vals[0]) for v in vals):
                            merged[k] = vals[0]
                        else:
                            merged[k] = self.opaque(k, s)
                    env = merged
                if s.finalbody:
                    e2 = self._run(s.finalbody, env)
                    if e2 is None:
                        return None
                    env = e2
                continue
            if isinstance(s, (ast.FunctionDef, ast.AsyncFunctionDef)):
                if isinstance(s, ast.FunctionDef):
                    rv = summarise_return(s)
                    if rv is not None and not any(isinstance(x, ast.Name) and x.id == s.name for x in ast.walk(rv)):
                        self.helpers[s.name] = (s, rv)
                    else:
                        self.helpers.pop(s.name, None)
                env = dict(env)
                env.pop(s.name, None)
                continue
            if isinstance(s, (ast.ClassDef, ast.Import, ast.ImportFrom, ast.Delete, ast.Global, ast.Nonlocal)):
                env = self._havoc(env, _names_stored(s), s) if not isinstance(s, (ast.Import, ast.ImportFrom)) else env
                continue
            if isinstance(s, (ast.Pass, ast.Assert)):
                continue
            # unknown statement kind: forget everything it may bind
            env = self._havoc(env, _names_stored(s), s)
        return env

    # -- queries -----------------------------------------------------------------------------------------------
    def env_before(self, stmt: ast.AST) -> Env:
        if id(stmt) not in self.before:
            raise KeyError('statement not visited by the symbolic evaluator')
        return self.before[id(stmt)]

    def value(self, stmt: ast.AST, e: ast.AST) -> ast.AST:
        """`e` as read just before `stmt` executes."""
        return self.subst(e, self.env_before(stmt))


# -------------------------------------------------------------------------------------------------------------------
def _truth_operand(t: ast.AST) -> Optional[Tuple[ast.AST, bool]]:
    """(X, positive) if `t` tests the truth of X: `len(X) > 0`, `len(X) != 0`, `len(X) >= 1`, `bool(X)`, `0 < len(X)`;
    (X, False) for `len(X) == 0`, `len(X) < 1`."""
    def is_len(e):
        return isinstance(e, ast.Call) and isinstance(e.func, ast.Name) and e.func.id == 'len' and len(e.args) == 1 and not e.keywords

    def const(e, v):
        return isinstance(e, ast.Constant) and type(e.value) is int and e.value == v

    if isinstance(t, ast.Call) and isinstance(t.func, ast.Name) and t.func.id == 'bool' and len(t.args) == 1:
        return (t.args[0], True)
    if isinstance(t, ast.Compare) and len(t.ops) == 1:
        l, op, r = t.left, t.ops[0], t.comparators[0]
        if is_len(r) and not is_len(l):
            flip = {ast.Lt: ast.Gt, ast.Gt: ast.Lt, ast.LtE: ast.GtE, ast.GtE: ast.LtE, ast.Eq: ast.Eq, ast.NotEq: ast.NotEq}
            if type(op) in flip:
                l, op, r = r, flip[type(op)](), l
        if is_len(l):
            x = l.args[0]
            if (isinstance(op, ast.Gt) and const(r, 0)) or (isinstance(op, ast.NotEq) and const(r, 0)) or (isinstance(op, ast.GtE) and const(r, 1)):
                return (x, True)
            if (isinstance(op, ast.Eq) and const(r, 0)) or (isinstance(op, ast.Lt) and const(r, 1)) or (isinstance(op, ast.LtE) and const(r, 0)):
                return (x, False)
    return None


def _as_test(t: ast.AST) -> ast.AST:
    """Normal form of an expression in test position."""
    if isinstance(t, ast.UnaryOp) and isinstance(t.op, ast.Not):
        return ast.UnaryOp(op=ast.Not(), operand=_as_test(t.operand))
    if isinstance(t, ast.BoolOp):
        return ast.BoolOp(op=t.op, values=[_as_test(v) for v in t.values])
    tr = _truth_operand(t)
    if tr is not None:
        x, pos = tr
        return x if pos else ast.UnaryOp(op=ast.Not(), operand=x)
    return t


class _Canon(ast.NodeTransformer):
    def visit_IfExp(self, node: ast.IfExp):
        self.generic_visit(node)
        t, a, b = _as_test(node.test), node.body, node.orelse
        flipped = True
        while flipped:
            flipped = False
            if isinstance(t, ast.UnaryOp) and isinstance(t.op, ast.Not):
                t, a, b = t.operand, b, a
                flipped = True
            elif isinstance(t, ast.Compare) and len(t.ops) == 1 and isinstance(t.ops[0], (ast.IsNot, ast.NotEq, ast.NotIn)):
                pos = {ast.IsNot: ast.Is, ast.NotEq: ast.Eq, ast.NotIn: ast.In}[type(t.ops[0])]()
                t = ast.Compare(left=t.left, ops=[pos], comparators=t.comparators)
                a, b = b, a
                flipped = True
        return ast.IfExp(test=t, body=a, orelse=b)

    def visit_BoolOp(self, node: ast.BoolOp):
        self.generic_visit(node)
        return node

    def visit_Subscript(self, node: ast.Subscript):
        self.generic_visit(node)
        if isinstance(node.ctx, ast.Load) and isinstance(node.slice, ast.Constant) and type(node.slice.value) is int:
            v, k = node.value, node.slice.value
            # (a, b)[1] == b
            if isinstance(v, (ast.Tuple, ast.List)) and not any(isinstance(e, ast.Starred) for e in v.elts) and -len(v.elts) <= k < len(v.elts):
                return v.elts[k]
            # (x if c else y)[k] == x[k] if c else y[k]
            if isinstance(v, ast.IfExp):
                mk = lambda arm: self.visit_Subscript(ast.Subscript(value=arm, slice=copy.deepcopy(node.slice), ctx=ast.Load()))
                return ast.IfExp(test=v.test, body=mk(v.body), orelse=mk(v.orelse))
        return node

    def visit_Call(self, node: ast.Call):
        self.generic_visit(node)
        # min(gen, default=d)  ==  min(gen) if <iterated> else d     (gen without filters)
        if isinstance(node.func, ast.Name) and node.func.id in ('max', 'min') and len(node.args) == 1 and len(node.keywords) == 1 and node.keywords[0].arg == 'default' \
                and isinstance(node.args[0], (ast.GeneratorExp, ast.ListComp)) and len(node.args[0].generators) == 1 and not node.args[0].generators[0].ifs:
            it = node.args[0].generators[0].iter
            return ast.IfExp(test=copy.deepcopy(it), body=ast.Call(func=node.func, args=[node.args[0]], keywords=[]), orelse=node.keywords[0].value)
        # abs(x if c else y) == abs(x) if c else abs(y);  abs(<number>) folds
        if isinstance(node.func, ast.Name) and node.func.id == 'abs' and len(node.args) == 1 and not node.keywords:
            a0 = node.args[0]
            if isinstance(a0, ast.IfExp):
                return self.visit_IfExp(ast.IfExp(test=a0.test, body=self.visit_Call(ast.Call(func=node.func, args=[a0.body], keywords=[])),
                                                  orelse=self.visit_Call(ast.Call(func=node.func, args=[a0.orelse], keywords=[]))))
            if isinstance(a0, ast.Constant) and type(a0.value) in (int, float):
                return ast.Constant(value=abs(a0.value))
        if isinstance(node.func, ast.Name) and node.func.id in ('max', 'min') and len(node.args) >= 2 and not node.keywords \
                and not any(isinstance(a, ast.Starred) for a in node.args):
            node.args = sorted(node.args, key=lambda a: ast.unparse(a))
        return node

    def visit_UnaryOp(self, node: ast.UnaryOp):
        self.generic_visit(node)
        if isinstance(node.op, ast.Not) and isinstance(node.operand, ast.UnaryOp) and isinstance(node.operand.op, ast.Not):
            return node.operand.operand
        return node

    # [f(x) for x in [g(y) for y in S if c] if d(x)]  ==  [f(g(y)) for y in S if c if d(g(y))]
    def _fuse(self, node):
        self.generic_visit(node)
        if len(node.generators) != 1 or not isinstance(node.generators[0].target, ast.Name):
            return node
        g = node.generators[0]
        inner = g.iter
        if not (isinstance(inner, (ast.ListComp, ast.GeneratorExp)) and len(inner.generators) == 1):
            return node
        ig = inner.generators[0]
        x = g.target.id
        inner_names = {n.id for n in ast.walk(ig.target) if isinstance(n, ast.Name)}
        outer_free = {n.id for part in [node.elt] + list(g.ifs) for n in ast.walk(part) if isinstance(n, ast.Name)} - {x}
        if inner_names & outer_free:
            return node
        from .summ import _subst
        env = {x: inner.elt}
        new = type(node)(elt=_subst(node.elt, env), generators=[ast.comprehension(
            target=copy.deepcopy(ig.target), iter=copy.deepcopy(ig.iter), ifs=[copy.deepcopy(c) for c in ig.ifs] + [_subst(c, env) for c in g.ifs], is_async=0)])
        return ast.copy_location(new, node)

    def visit_ListComp(self, node):
        return self._fuse(node) if self.fuse else self.generic_visit(node)

    visit_GeneratorExp = visit_ListComp
    fuse = False


def canon(e: ast.AST, fuse: bool = False) -> ast.AST:
    """`fuse`: also merge a comprehension over a comprehension into one."""
    c = _Canon()
    c.fuse = fuse
    return ast.fix_missing_locations(c.visit(copy.deepcopy(e)))


def under_defaults(e: ast.AST, fnode: ast.FunctionDef, keep=()) -> ast.AST:
    """`e` with every parameter of `fnode` that has a constant default and is not in `keep` replaced by that default, and
    the conditional expressions this decides folded away: how the function reads when its extra options are left alone."""
    a = fnode.args
    pos = a.posonlyargs + a.args
    dflt = {p.arg: d for p, d in zip(pos[len(pos) - len(a.defaults):], a.defaults) if isinstance(d, ast.Constant)}
    dflt.update({p.arg: d for p, d in zip(a.kwonlyargs, a.kw_defaults) if isinstance(d, ast.Constant)})
    dflt = {k: v for k, v in dflt.items() if k not in keep}
    if not dflt:
        return e

    def const_test(t: ast.AST):
        if isinstance(t, ast.Constant):
            return bool(t.value)
        if isinstance(t, ast.UnaryOp) and isinstance(t.op, ast.Not):
            v = const_test(t.operand)
            return None if v is None else (not v)
        if isinstance(t, ast.Compare) and len(t.ops) == 1 and isinstance(t.left, ast.Constant) and isinstance(t.comparators[0], ast.Constant):
            l, r = t.left.value, t.comparators[0].value
            op = t.ops[0]
            if isinstance(op, ast.Is):
                return l is r
            if isinstance(op, ast.IsNot):
                return l is not r
            if isinstance(op, ast.Eq):
                return l == r
            if isinstance(op, ast.NotEq):
                return l != r
        return None

    class S(ast.NodeTransformer):
        def visit_Name(self, node):
            if isinstance(node.ctx, ast.Load) and node.id in dflt:
                return copy.deepcopy(dflt[node.id])
            return node

        def visit_IfExp(self, node):
            self.generic_visit(node)
            v = const_test(node.test)
            if v is True:
                return node.body
            if v is False:
                return node.orelse
            return node

    return ast.fix_missing_locations(S().visit(copy.deepcopy(e)))


def ctext(e: ast.AST) -> str:
    return ast.unparse(canon(e))


def merge_layers(e: ast.AST):
    """`base | a | b` (possibly with conditionally applied layers, `x | c if t else x`) as a list of
    (layer expression, condition or None, condition truth): later layers take precedence."""
    if isinstance(e, ast.BinOp) and isinstance(e.op, ast.BitOr):
        return merge_layers(e.left) + [(e.right, None, True)]
    if isinstance(e, ast.IfExp):
        la, lb = merge_layers(e.body), merge_layers(e.orelse)

        def same(x, y):
            return ast.dump(x[0]) == ast.dump(y[0]) and (x[1] is None) == (y[1] is None) and (x[1] is None or ast.dump(x[1]) == ast.dump(y[1])) and x[2] == y[2]

        if len(lb) < len(la) and all(same(x, y) for x, y in zip(la, lb)):
            return lb + [(x[0], e.test, True) if x[1] is None else x for x in la[len(lb):]]
        if len(la) < len(lb) and all(same(x, y) for x, y in zip(la, lb)):
            return la + [(x[0], e.test, False) if x[1] is None else x for x in lb[len(la):]]
    return [(e, None, True)]


def seq_elements(e: ast.AST):
    """A sequence-building expression as a list of ('elt', expr) / ('star', expr): displays, `tuple(x)` / `list(x)`,
    `a + b`, starred items; `x[k:]` is one starred run.  None if `e` is not such an expression."""
    if isinstance(e, (ast.Tuple, ast.List)):
        out = []
        for x in e.elts:
            if isinstance(x, ast.Starred):
                inner = seq_elements(x.value)
                out += inner if inner is not None else [('star', x.value)]
            else:
                out.append(('elt', x))
        return out
    if isinstance(e, ast.Call) and isinstance(e.func, ast.Name) and e.func.id in ('tuple', 'list') and len(e.args) == 1 and not e.keywords:
        inner = seq_elements(e.args[0])
        return inner if inner is not None else [('star', e.args[0])]
    if isinstance(e, ast.BinOp) and isinstance(e.op, ast.Add):
        a, b = seq_elements(e.left), seq_elements(e.right)
        if a is None or b is None:
            return None
        return a + b
    if isinstance(e, ast.Subscript) and isinstance(e.slice, ast.Slice):
        return [('star', e)]
    return None


def leaves(e: ast.AST, facts=()):
    """The leaves of a tree of conditional expressions with the facts (atom, truth) under which each is taken."""
    from .match import nnf_atoms
    if isinstance(e, ast.IfExp):
        out = []
        out += leaves(e.body, tuple(facts) + tuple(nnf_atoms(e.test, True)))
        out += leaves(e.orelse, tuple(facts) + tuple(nnf_atoms(e.test, False)))
        return out
    return [(list(facts), e)]


_SCOPES = (ast.ListComp, ast.SetComp, ast.DictComp, ast.GeneratorExp, ast.Lambda)


def _first_plain_ifexp(n: ast.AST) -> Optional[ast.IfExp]:
    """The first conditional expression (outside comprehensions / lambdas) whose own test contains none."""
    if isinstance(n, _SCOPES):
        return None
    if isinstance(n, ast.IfExp):
        inner = _first_plain_ifexp(n.test)
        return inner if inner is not None else n
    for c in ast.iter_child_nodes(n):
        r = _first_plain_ifexp(c)
        if r is not None:
            return r
    return None


class _Specialise(ast.NodeTransformer):
    def __init__(self, test_text: str, truth: bool) -> None:
        self.t, self.truth = test_text, truth

    def visit_IfExp(self, node: ast.IfExp):
        if ast.unparse(node.test) == self.t:
            return self.visit(node.body if self.truth else node.orelse)
        self.generic_visit(node)
        return node

    def _scope(self, node):
        return node

    visit_ListComp = visit_SetComp = visit_DictComp = visit_GeneratorExp = visit_Lambda = _scope


class _FoldIdentity(ast.NodeTransformer):
    """`X is X` (X a name or attribute chain) is True, `X is not X` False; conditionals and `not` over constants fold."""
    def visit_Compare(self, node: ast.Compare):
        self.generic_visit(node)
        if len(node.ops) == 1 and isinstance(node.ops[0], (ast.Is, ast.IsNot)):
            l, r = node.left, node.comparators[0]
            chain = lambda x: isinstance(x, ast.Name) or (isinstance(x, ast.Attribute) and chain(x.value))
            if chain(l) and chain(r) and ast.unparse(l) == ast.unparse(r):
                return ast.Constant(value=isinstance(node.ops[0], ast.Is))
        return node

    def visit_UnaryOp(self, node: ast.UnaryOp):
        self.generic_visit(node)
        if isinstance(node.op, ast.Not) and isinstance(node.operand, ast.Constant) and isinstance(node.operand.value, bool):
            return ast.Constant(value=not node.operand.value)
        return node

    def visit_IfExp(self, node: ast.IfExp):
        self.generic_visit(node)
        if isinstance(node.test, ast.Constant):
            return node.body if node.test.value else node.orelse
        return node


def lift_ifs(e: ast.AST, budget: int = 64) -> ast.AST:
    """`e` as a decision tree: conditional expressions only at the top, none inside operands, arguments or subscripts
    (`f(a if c else b)` == `f(a) if c else f(b)`; valid because tests here are side-effect-free reads).  Every
    occurrence of the same test is decided together."""
    e = _FoldIdentity().visit(copy.deepcopy(e))
    n = _first_plain_ifexp(e)
    if n is None or budget <= 0:
        return e
    t = ast.unparse(n.test)
    a = lift_ifs(_Specialise(t, True).visit(copy.deepcopy(e)), budget // 2)
    b = lift_ifs(_Specialise(t, False).visit(copy.deepcopy(e)), budget // 2)
    if ast.dump(a) == ast.dump(b):
        return a
    return ast.fix_missing_locations(ast.IfExp(test=copy.deepcopy(n.test), body=a, orelse=b))


def consistent(facts) -> bool:
    """No atom taken both ways."""
    seen = {}
    for (a, tr) in facts:
        k = a if isinstance(a, str) else ast.unparse(a)
        if seen.setdefault(k, tr) != tr:
            return False
    return True


def item_layers(e: ast.AST, facts=()):
    """An object built by item stores, possibly conditional: (base, [(key, value, facts)]).  `e` is the gated value of
    the object: `<setitem>(<setitem>(base, k1, v1) if c else base, k2, v2)` ..."""
    from .match import nnf_atoms
    if isinstance(e, ast.Call) and isinstance(e.func, ast.Name) and e.func.id == '<setitem>' and len(e.args) == 3:
        base, items = item_layers(e.args[0], facts)
        return base, items + [(e.args[1], e.args[2], list(facts))]
    if isinstance(e, ast.IfExp):
        ta, tb = tuple(nnf_atoms(e.test, True)), tuple(nnf_atoms(e.test, False))
        ba, ia = item_layers(e.body, tuple(facts) + ta)
        bb, ib = item_layers(e.orelse, tuple(facts) + tb)
        if ast.dump(ba) == ast.dump(bb):
            def same(x, y):
                return ast.dump(x[0]) == ast.dump(y[0]) and ast.dump(x[1]) == ast.dump(y[1])
            common = [x for x in ia if any(same(x, y) for y in ib)]
            only_a = [x for x in ia if x not in common]
            only_b = [x for x in ib if not any(same(x, y) for y in ia)]
            here = {(ast.dump(a_), tr) for (a_, tr) in ta + tb}
            # an item set in both arms does not depend on this test: drop the atoms this level added
            merged = [(k, v, [ft for ft in f_ if (ast.dump(ft[0]), ft[1]) not in here]) for (k, v, f_) in common]
            return ba, merged + only_a + only_b
    return e, []
