"""Program model: modules, classes, functions of the tree under analysis."""

from __future__ import annotations

import ast
import hashlib
import os
from dataclasses import dataclass, field
from pathlib import Path
from typing import Dict, Iterator, List, Optional, Tuple


class AnchorMissing(Exception):
    """A construct a rule is anchored on was not found: INCONCLUSIVE, exit 2."""


class Unsupported(Exception):
    """The analyser met an idiom it does not model: INCONCLUSIVE, exit 2."""


def repo_root() -> Path:
    return Path(os.environ.get('FSIC_REPO', '/repo'))


@dataclass
class Module:
    name: str
    path: Path
    relpath: str
    src: str
    tree: ast.Module
    digest: str


@dataclass
class ClassInfo:
    qualname: str
    name: str
    module: Module
    node: ast.ClassDef
    bases: List[str]

    def body_assign(self, name: str) -> Optional[ast.AST]:
        """Value expression bound to `name` in the class body (last binding)."""
        value = None
        for stmt in self.node.body:
            if isinstance(stmt, ast.Assign):
                for tgt in stmt.targets:
                    if isinstance(tgt, ast.Name) and tgt.id == name:
                        value = stmt.value
            elif isinstance(stmt, ast.AnnAssign):
                if isinstance(stmt.target, ast.Name) and stmt.target.id == name:
                    value = stmt.value
        return value

    def body_names(self) -> Dict[str, ast.AST]:
        out: Dict[str, ast.AST] = {}
        for stmt in self.node.body:
            if isinstance(stmt, ast.Assign):
                for tgt in stmt.targets:
                    if isinstance(tgt, ast.Name):
                        out[tgt.id] = stmt
            elif isinstance(stmt, ast.AnnAssign) and isinstance(stmt.target, ast.Name):
                out[stmt.target.id] = stmt
            elif isinstance(stmt, (ast.FunctionDef, ast.AsyncFunctionDef, ast.ClassDef)):
                out[stmt.name] = stmt
        return out


@dataclass
class FunctionInfo:
    qualname: str
    name: str
    module: Module
    node: ast.FunctionDef
    cls: Optional[ClassInfo]
    parent: Optional['FunctionInfo']

    @property
    def where(self) -> str:
        return f'{self.module.relpath}:{self.node.lineno}'

    def params(self) -> List[str]:
        a = self.node.args
        names = [x.arg for x in a.posonlyargs + a.args]
        if a.vararg:
            names.append('*' + a.vararg.arg)
        names += [x.arg for x in a.kwonlyargs]
        if a.kwarg:
            names.append('**' + a.kwarg.arg)
        return names

    def param_defaults(self) -> Dict[str, Optional[ast.AST]]:
        a = self.node.args
        pos = a.posonlyargs + a.args
        out: Dict[str, Optional[ast.AST]] = {}
        nd = len(a.defaults)
        for i, p in enumerate(pos):
            j = i - (len(pos) - nd)
            out[p.arg] = a.defaults[j] if j >= 0 else None
        for p, d in zip(a.kwonlyargs, a.kw_defaults):
            out[p.arg] = d
        return out


_KNOWN = None


def _known_names():
    """fsa/known_names.json: the module-level functions and methods the rules were written against."""
    global _KNOWN
    if _KNOWN is None:
        import json
        try:
            _KNOWN = json.loads((Path(__file__).resolve().parent / 'known_names.json').read_text())['modules']
        except OSError:
            _KNOWN = {}
    return _KNOWN


class Repo:
    """All modules of the `fsic` package in the tree under analysis."""

    PACKAGE = 'fsic'

    def __init__(self, root: Optional[Path] = None) -> None:
        self.root = Path(root) if root else repo_root()
        self.modules: Dict[str, Module] = {}
        self.classes: Dict[str, ClassInfo] = {}
        self.functions: Dict[str, FunctionInfo] = {}
        self.fingerprints: Dict[str, List[str]] = {}
        self._load()

    # -- loading -----------------------------------------------------------
    def _load(self) -> None:
        pkg = self.root / self.PACKAGE
        if not pkg.is_dir():
            raise AnchorMissing(f'package directory {pkg} not found')
        for path in sorted(pkg.rglob('*.py')):
            rel = path.relative_to(self.root)
            parts = list(rel.with_suffix('').parts)
            if parts[-1] == '__init__':
                parts = parts[:-1]
            name = '.'.join(parts)
            src = path.read_text(encoding='utf-8')
            try:
                tree = ast.parse(src, filename=str(path))
            except SyntaxError as e:  # the tree under analysis must parse
                raise Unsupported(f'{rel}: does not parse: {e}') from e
            from .inline import expand_keyword_dicts, inline_local_procedures, inline_unknown_functions, inline_unknown_nested, inline_return_temps, normalise_yoda, normalise_negated_if, normalise_small_forms, inline_single_use_temps
            self.fingerprints.update(fingerprints_of(tree, name))          # of the source as written, before any reading-in-place
            inline_return_temps(tree)
            normalise_yoda(tree)
            normalise_negated_if(tree)
            normalise_small_forms(tree)
            inline_local_procedures(tree)
            inline_unknown_nested(tree)
            expand_keyword_dicts(tree)
            kn = _known_names().get(str(rel))
            if kn is not None:
                inline_unknown_functions(tree, set(kn['functions']), {k: set(v) for k, v in kn['classes'].items()})
            if os.environ.get('FSA_NO_TEMPS') != '1':
                inline_single_use_temps(tree)         # last: the passes above read helpers at statement level (`x = helper(...)`)
            mod = Module(
                name=name,
                path=path,
                relpath=str(rel),
                src=src,
                tree=tree,
                digest=hashlib.sha256(src.encode('utf-8')).hexdigest(),
            )
            self.modules[name] = mod
            self._index(mod, mod.tree.body, prefix=name, cls=None, parent=None)

    REWRITTEN_AT = 8        # statements of a function that the reference tree does not have ...
    REWRITTEN_FRAC = 0.0    # ... or, for a short function, REWRITTEN_SMALL or more that are this share of the reference version's statements
    REWRITTEN_SMALL = 4

    def rewritten(self, construct: str) -> Optional[str]:
        """Has the function `construct` names (or lies in) been rewritten since the reference tree?  Returns the reason, or None.
        Rewritten = it does not exist there, or it has REWRITTEN_AT or more statements the reference version lacks, or it calls
        a function / method of the package that does not exist there (work moved into a new helper).  One level of callees is
        looked at as well: a rule anchored on `solve` that reads `iter_periods` is reading rewritten code if `iter_periods` is."""
        base = baseline()
        if not base:
            return None
        cache = self.__dict__.setdefault('_rewritten', {})
        if construct in cache:
            return cache[construct]
        q = construct
        while q and q not in self.fingerprints:
            q = q.rpartition('.')[0]
        reason = None
        if q:
            reason = self._rewritten_own(q, base)
            if reason is None:
                # callees by bare or self-qualified name, one level
                fi = self.functions.get(q)
                names = set()
                if fi is not None:
                    for x in ast.walk(fi.node):
                        if isinstance(x, ast.Call):
                            if isinstance(x.func, ast.Name):
                                names.add(x.func.id)
                            elif isinstance(x.func, ast.Attribute):
                                names.add(x.func.attr)
                for cq in self.fingerprints:
                    if cq.rsplit('.', 1)[-1] in names and cq != q and not cq.startswith(q + '.<locals>'):
                        r2 = self._rewritten_own(cq, base)
                        if r2 is not None and cq.rsplit('.', 1)[-1] not in ('__init__',):
                            # only callees that are (or were) real helpers of this code: same module or same class family
                            if cq.split('.')[:-1][:3] == q.split('.')[:-1][:3] or cq not in base:
                                reason = f'its callee {cq.rsplit(".", 2)[-2] + "." + cq.rsplit(".", 1)[-1] if cq.count(".") > 2 else cq}: {r2}'
                                break
        cache[construct] = reason
        return reason

    def new_statement(self, qualname: str, lineno: int) -> bool:
        """Is the statement of `qualname` at `lineno` one the reference tree does not have (in that function)?  False when there
        is no reference tree or the statement cannot be found."""
        base = baseline()
        if not base:
            return False
        if qualname not in base:
            return qualname in self.fingerprints
        fi = self.functions.get(qualname)
        if fi is None:
            return False
        best = None
        for n in iter_own_nodes(fi.node):
            if isinstance(n, ast.stmt) and getattr(n, 'lineno', None) is not None and n.lineno <= lineno <= (getattr(n, 'end_lineno', None) or n.lineno):
                hdr_end = n.lineno
                if isinstance(n, (ast.If, ast.While)):
                    hdr_end = getattr(n.test, 'end_lineno', n.lineno)
                elif isinstance(n, ast.For):
                    hdr_end = getattr(n.iter, 'end_lineno', n.lineno)
                elif isinstance(n, (ast.Try, ast.With, ast.FunctionDef, ast.AsyncFunctionDef, ast.ClassDef)):
                    hdr_end = n.lineno if not isinstance(n, ast.With) else max(getattr(i.context_expr, 'end_lineno', n.lineno) for i in n.items)
                else:
                    hdr_end = getattr(n, 'end_lineno', None) or n.lineno
                if lineno <= hdr_end and (best is None or n.lineno >= best.lineno):
                    best = n
        if best is None:
            return False
        return stmt_key(best) not in base[qualname]

    def _rewritten_own(self, q: str, base) -> Optional[str]:
        from collections import Counter
        cur = self.fingerprints.get(q)
        if cur is None:
            return None
        if q not in base:
            return 'it does not exist in the reference tree (a new function)'
        added = Counter(cur) - Counter(base[q])
        n = sum(added.values())
        import math, os
        at = int(os.environ.get('FSA_REWRITTEN_AT', self.REWRITTEN_AT))
        frac = float(os.environ.get('FSA_REWRITTEN_FRAC', self.REWRITTEN_FRAC))
        small = int(os.environ.get('FSA_REWRITTEN_SMALL', self.REWRITTEN_SMALL))
        if n >= at or (frac > 0 and n >= small and n >= math.ceil(frac * len(base[q]))):
            return f'{n} of its {len(cur)} statements are not in the reference tree (which has {len(base[q])})'
        # calls of package functions that the reference tree does not have
        fi = self.functions.get(q)
        mine = {k.rsplit('.', 1)[-1] for k in self.fingerprints if k not in base}
        if fi is not None and mine:
            for st in added:
                for nm in mine:
                    if nm + '(' in st:
                        return f'it now calls `{nm}()`, which the reference tree does not have'
        return None

    def _index(self, mod, body, prefix, cls, parent) -> None:
        for stmt in body:
            if isinstance(stmt, ast.ClassDef):
                q = f'{prefix}.{stmt.name}'
                ci = ClassInfo(
                    qualname=q,
                    name=stmt.name,
                    module=mod,
                    node=stmt,
                    bases=[ast.unparse(b) for b in stmt.bases],
                )
                self.classes[q] = ci
                self._index(mod, stmt.body, prefix=q, cls=ci, parent=None)
            elif isinstance(stmt, (ast.FunctionDef, ast.AsyncFunctionDef)):
                q = f'{prefix}.{stmt.name}'
                # property setters share a name with the getter: disambiguate
                for dec in stmt.decorator_list:
                    if isinstance(dec, ast.Attribute) and dec.attr == 'setter':
                        q = f'{prefix}.{stmt.name}.setter'
                fi = FunctionInfo(
                    qualname=q, name=stmt.name, module=mod, node=stmt, cls=cls, parent=parent
                )
                self.functions[q] = fi
                self._index_nested(mod, stmt, q, cls, fi)

    def _index_nested(self, mod, fnode, q, cls, parent) -> None:
        for sub in iter_own_nodes(fnode):
            if isinstance(sub, (ast.FunctionDef, ast.AsyncFunctionDef)) and sub is not fnode:
                q2 = f'{q}.<locals>.{sub.name}'
                fi = FunctionInfo(
                    qualname=q2, name=sub.name, module=mod, node=sub, cls=cls, parent=parent
                )
                self.functions[q2] = fi
                self._index_nested(mod, sub, q2, cls, fi)

    # -- lookup ------------------------------------------------------------
    def module(self, name: str) -> Module:
        try:
            return self.modules[name]
        except KeyError:
            raise AnchorMissing(f'module {name} not found') from None

    # the entry points of the solvers are read with their private helper methods (their own class's, a base class's, or -
    # for a mixin - the package's only method of that name) in place of the calls: `self._check_position(t)` is the check
    INLINE_ENTRIES = (
        'fsic.core.models.BaseModel.solve_t', 'fsic.core.linkers.BaseLinker.solve_t', 'fsic.core.linkers.BaseLinker.evaluate_t',
        'fsic.core.linkers.BaseLinker.solve', 'fsic.fortran.FortranEngine.solve_t', 'fsic.fortran.FortranEngine.solve',
        'fsic.core.interfaces.SolverMixin.solve', 'fsic.core.interfaces.SolverMixin.solve_period', 'fsic.core.interfaces.SolverMixin.iter_periods',
        'fsic.parser.Symbol.combine', 'fsic.extensions.common.AliasMixin.__init__',
    )

    def func(self, qualname: str) -> FunctionInfo:
        try:
            fi = self.functions[qualname]
        except KeyError:
            raise AnchorMissing(f'function {qualname} not found') from None
        if qualname in self.INLINE_ENTRIES:
            return self.func_with_private_methods_inlined(qualname)
        return fi

    def func_with_private_methods_inlined(self, qualname: str) -> FunctionInfo:
        """The method `qualname` with calls of private helper methods of its class (`self._m(...)`, see
        fsa/inline.py) replaced by their bodies - on a private copy of the class; the ordinary view is unchanged."""
        import copy
        from .inline import _inline_methods_in_class
        if qualname not in self.functions:
            raise AnchorMissing(f'function {qualname} not found')
        fi = self.functions[qualname]
        if fi.cls is None or fi.parent is not None:
            return fi
        cache = getattr(self, '_inlined_classes', None)
        if cache is None:
            cache = self._inlined_classes = {}
        if fi.cls.qualname not in cache:
            c2 = copy.deepcopy(fi.cls.node)
            extra = {}
            try:
                mro = c3_mro(self, fi.cls.qualname)[1:]
            except Exception:
                mro = []
            for bq in reversed(mro):
                for m in self.classes[bq].node.body:
                    if isinstance(m, ast.FunctionDef):
                        extra[m.name] = m
            # a mixin's `self._m`: the package's only definition of a method of that name
            called = {x.func.attr for x in ast.walk(fi.cls.node) if isinstance(x, ast.Call) and isinstance(x.func, ast.Attribute)
                      and isinstance(x.func.value, ast.Name) and x.func.value.id == 'self' and x.func.attr.startswith('_')}
            for nm in called - set(extra):
                defs = [m for ci in self.classes.values() for m in ci.node.body if isinstance(m, ast.FunctionDef) and m.name == nm]
                if len(defs) == 1:
                    extra[nm] = defs[0]
            # hooks stay calls: methods some class of the package overrides
            seen = {}
            for ci in self.classes.values():
                for m in ci.node.body:
                    if isinstance(m, ast.FunctionDef):
                        seen[m.name] = seen.get(m.name, 0) + 1
            keep = tuple(nm for nm, k in seen.items() if k > 1)
            n = _inline_methods_in_class(c2, extra=extra, keep=keep)
            cache[fi.cls.qualname] = (c2, n)
        c2, n = cache[fi.cls.qualname]
        if not n:
            return fi
        want_setter = qualname.endswith('.setter')
        for m in c2.body:
            if isinstance(m, ast.FunctionDef) and m.name == fi.name:
                is_setter = any(isinstance(d, ast.Attribute) and d.attr == 'setter' for d in m.decorator_list)
                if is_setter == want_setter:
                    return FunctionInfo(qualname=fi.qualname, name=fi.name, module=fi.module, node=m, cls=fi.cls, parent=None)
        return fi

    def has_func(self, qualname: str) -> bool:
        return qualname in self.functions

    def cls(self, qualname: str) -> ClassInfo:
        try:
            return self.classes[qualname]
        except KeyError:
            raise AnchorMissing(f'class {qualname} not found') from None

    def module_assign(self, modname: str, name: str) -> ast.AST:
        """The value expression of the last top-level binding of `name`."""
        mod = self.module(modname)
        value = None
        for stmt in mod.tree.body:
            if isinstance(stmt, ast.Assign):
                for tgt in stmt.targets:
                    if isinstance(tgt, ast.Name) and tgt.id == name:
                        value = stmt.value
            elif isinstance(stmt, ast.AnnAssign):
                if isinstance(stmt.target, ast.Name) and stmt.target.id == name:
                    value = stmt.value
        if value is None:
            raise AnchorMissing(f'{modname}.{name}: no module-level binding')
        return value

    def methods_of(self, cls_q: str) -> Dict[str, FunctionInfo]:
        pre = cls_q + '.'
        return {
            q[len(pre):]: f
            for q, f in self.functions.items()
            if q.startswith(pre) and '.<locals>.' not in q[len(pre):]
        }

    def digest(self) -> Dict[str, str]:
        return {m.relpath: m.digest for m in self.modules.values()}

    def all_functions(self) -> Iterator[FunctionInfo]:
        return iter(self.functions.values())


def iter_own_nodes(fnode: ast.AST) -> Iterator[ast.AST]:
    """Walk `fnode` without descending into nested function/class/lambda bodies
    (the nested def node itself is yielded)."""
    stack = list(ast.iter_child_nodes(fnode))
    while stack:
        n = stack.pop()
        yield n
        if isinstance(n, (ast.FunctionDef, ast.AsyncFunctionDef, ast.ClassDef, ast.Lambda)):
            continue
        stack.extend(ast.iter_child_nodes(n))


def walk_all(node: ast.AST) -> Iterator[ast.AST]:
    return ast.walk(node)


def text(node: Optional[ast.AST]) -> str:
    """Normalised source text of a node (formatting-independent)."""
    if node is None:
        return '<none>'
    try:
        return ast.unparse(node)
    except Exception:  # pragma: no cover
        return ast.dump(node)


def fingerprints_of(tree: ast.Module, modname: str) -> Dict[str, List[str]]:
    """{qualified function name: normalised texts of its own statements (docstrings aside, nested definitions as `def name`)}."""
    out: Dict[str, List[str]] = {}

    def visit(body, prefix):
        for n in body:
            if isinstance(n, (ast.FunctionDef, ast.AsyncFunctionDef)):
                q = f'{prefix}.{n.name}'
                keys = []
                stack = list(n.body)
                while stack:
                    x = stack.pop()
                    if isinstance(x, ast.Expr) and isinstance(x.value, ast.Constant) and isinstance(x.value.value, str):
                        continue
                    if isinstance(x, ast.stmt):
                        keys.append(stmt_key(x))
                    if isinstance(x, (ast.FunctionDef, ast.AsyncFunctionDef, ast.ClassDef)):
                        continue
                    for fld in ('body', 'orelse', 'finalbody'):
                        blk = getattr(x, fld, None)
                        if isinstance(blk, list):
                            stack.extend(b for b in blk if isinstance(b, ast.stmt))
                    if isinstance(x, ast.Try):
                        for h in x.handlers:
                            stack.extend(h.body)
                out[q] = sorted(keys)
                visit(n.body, q + '.<locals>')
            elif isinstance(n, ast.ClassDef):
                visit(n.body, f'{prefix}.{n.name}')

    visit(tree.body, modname)
    return out


_BASELINE = None


def baseline() -> Dict[str, List[str]]:
    """Fingerprints of the tree the rules were last confirmed on (fsa/baseline.json, regenerated by tools/freeze_baseline.py
    after every change to /repo that is accepted as the new reference).  Used for one thing only: to tell a function that
    is as it was, give or take an edit, from one that has been rewritten (see Repo.rewritten)."""
    global _BASELINE
    if _BASELINE is None:
        import json
        p = Path(__file__).resolve().parent / 'baseline.json'
        _BASELINE = json.loads(p.read_text()) if p.exists() else {}
    return _BASELINE


def stmt_key(node: ast.AST) -> str:
    """Key used for known-finding matching: normalised text of the statement
    head (compound statements: the header only)."""
    if isinstance(node, (ast.If, ast.While)):
        return f'{type(node).__name__.lower()} {text(node.test)}'
    if isinstance(node, ast.For):
        return f'for {text(node.target)} in {text(node.iter)}'
    if isinstance(node, (ast.FunctionDef, ast.AsyncFunctionDef)):
        return f'def {node.name}'
    if isinstance(node, ast.ClassDef):
        return f'class {node.name}'
    if isinstance(node, ast.Try):
        return 'try'
    if isinstance(node, ast.With):
        return 'with ' + ', '.join(text(i.context_expr) for i in node.items)
    return text(node)


# ---------------------------------------------------------------------------
# MRO of the class compositions that matter
# ---------------------------------------------------------------------------

CORE_CLASSES = {
    'VectorContainer': 'fsic.core.containers.VectorContainer',
    'ModelInterface': 'fsic.core.interfaces.ModelInterface',
    'SolverMixin': 'fsic.core.interfaces.SolverMixin',
    'BaseModel': 'fsic.core.models.BaseModel',
    'BaseLinker': 'fsic.core.linkers.BaseLinker',
    'AliasMixin': 'fsic.extensions.common.AliasMixin',
    'ProgressBarMixin': 'fsic.extensions.common.ProgressBarMixin',
    'PandasIndexFeaturesMixin': 'fsic.extensions.model.PandasIndexFeaturesMixin',
    'TracerMixin': 'fsic.extensions.model.TracerMixin',
    'FortranEngine': 'fsic.fortran.FortranEngine',
}


def c3_mro(repo: Repo, cls_q: str, extra_bases: Optional[List[str]] = None) -> List[str]:
    """C3 linearisation by qualified class name (package classes only;
    `object` and foreign bases are dropped)."""

    def bases_of(q: str) -> List[str]:
        ci = repo.cls(q)
        out = []
        for b in ci.bases:
            short = b.split('.')[-1]
            if short in CORE_CLASSES and CORE_CLASSES[short] in repo.classes:
                out.append(CORE_CLASSES[short])
        return out

    def merge(seqs: List[List[str]]) -> List[str]:
        res: List[str] = []
        seqs = [list(s) for s in seqs if s]
        while seqs:
            for s in seqs:
                head = s[0]
                if not any(head in t[1:] for t in seqs):
                    break
            else:
                raise Unsupported('inconsistent MRO')
            res.append(head)
            seqs = [[x for x in t if x != head] for t in seqs]
            seqs = [t for t in seqs if t]
        return res

    def lin(q: str) -> List[str]:
        bs = bases_of(q)
        return [q] + merge([lin(b) for b in bs] + [bs])

    if extra_bases is not None:
        # synthetic class `class _(extra_bases...)`
        return merge([lin(b) for b in extra_bases] + [list(extra_bases)])
    return lin(cls_q)


def resolve_method(repo: Repo, mro: List[str], name: str, after: Optional[str] = None) -> Optional[FunctionInfo]:
    """First provider of `name` along `mro` (strictly after class `after` if given)."""
    started = after is None
    for c in mro:
        if not started:
            if c == after:
                started = True
            continue
        q = f'{c}.{name}'
        if q in repo.functions:
            return repo.functions[q]
    return None
