"""Path-sensitive constant propagation over *flag* locals.

A flag is a local name whose every binding in the function is a plain
assignment of a constant-like expression (Python literal, `Enum.MEMBER.value`,
`Enum.MEMBER`) - the `status` / `converged` / `solved` variables the solver
functions thread from the iteration loop to the final stores.  The analysis
explores the product of the statement CFG with the valuations of those flags,
pruning branch edges whose test is decided by the valuation (three-valued
evaluation of not/and/or/==/!=/is/is not/conditional expressions).  Everything
is finite, so the exploration is exact for that abstraction; no solver, no
execution.

Queries are phrased over *product nodes* (cfg node id, valuation):

  states_at(n)                    valuations with which n is reachable
  value_at(n, expr)               abstract values `expr` can have at n
  last_test(targets, t, label)    on every feasible path to a target the most
                                  recent evaluation of test node t took `label`
  must_take(targets, edges)       every feasible path to a target takes one of
                                  the CFG edges
  decided(n, expr)                set of three-valued results of expr at n

Rules use these to state "status '.' reaches the final store only if the last
convergence test succeeded" independently of how many intermediate flags the
function uses to carry that fact.
"""

from __future__ import annotations

import ast
from typing import Callable, Dict, FrozenSet, Iterable, List, Optional, Set, Tuple

from .cfg import CFG, Node
from .flow import node_expr_roots
from .source import iter_own_nodes, text

class _Other:
    """A value different from every constant (stands for "anything not listed" in a parameter domain)."""
    def __repr__(self):
        return '<other>'

    def __eq__(self, o):
        return o is self

    def __hash__(self):
        return 7


OTHER = _Other()
TOP = ('top',)  # unknown value (parameter or non-constant)
UNDEF = ('undef',)  # not bound yet

Token = Tuple
State = Tuple[Token, ...]
PNode = Tuple[int, State]


def default_const_of(e: ast.AST) -> Optional[Token]:
    if isinstance(e, ast.Constant):
        return ('c', type(e.value).__name__, e.value)
    if isinstance(e, ast.UnaryOp) and isinstance(e.op, ast.USub) and isinstance(e.operand, ast.Constant) and isinstance(e.operand.value, (int, float)):
        return ('c', type(e.operand.value).__name__, -e.operand.value)
    # Enum.MEMBER.value / Enum.MEMBER
    if isinstance(e, ast.Attribute) and e.attr == 'value' and isinstance(e.value, ast.Attribute) and isinstance(e.value.value, ast.Name) \
            and e.value.attr.isupper() and e.value.value.id[:1].isupper():
        return ('e', e.value.value.id, e.value.attr, 'value')
    if isinstance(e, ast.Attribute) and isinstance(e.value, ast.Name) and e.attr.isupper() and e.value.id[:1].isupper():
        return ('e', e.value.id, e.attr, 'member')
    # a freshly built exception object (`SolutionError(...)`), carried in a local to be raised later: truthy, not None
    if isinstance(e, ast.Call) and isinstance(e.func, ast.Name) and e.func.id[:1].isupper() and e.func.id.endswith(('Error', 'Exception', 'Warning', 'Exit', 'Interrupt')):
        return ('x', e.func.id)
    return None


def _truth(tok: Token) -> Optional[bool]:
    if tok[0] == 'c':
        return bool(tok[2])
    if tok[0] == 'e' and tok[3] == 'member':
        return True
    if tok[0] == 'x':
        return True
    return None


def _same(a: Token, b: Token, identity: bool) -> Optional[bool]:
    if a[0] in ('top', 'undef') or b[0] in ('top', 'undef'):
        return None
    if a[0] == 'c' and b[0] == 'c':
        if identity:
            if a[2] is None or b[2] is None or isinstance(a[2], bool) or isinstance(b[2], bool):
                return a[1] == b[1] and a[2] == b[2]
            return None
        try:
            return bool(a[2] == b[2])
        except Exception:
            return None
    if a[0] == 'e' and b[0] == 'e':
        if a[1] == b[1] and a[3] == b[3]:
            return a[2] == b[2]  # distinct members of one enumeration are distinct (values asserted unique by the caller)
        return None
    if 'x' in (a[0], b[0]):
        o = b if a[0] == 'x' else a
        if o[0] == 'c' and (o[2] is None or isinstance(o[2], (bool, int, float, str))):
            return False
        return None
    if 'c' in (a[0], b[0]) and 'e' in (a[0], b[0]):
        c = a if a[0] == 'c' else b
        e = b if a[0] == 'c' else a
        if c[2] is None or isinstance(c[2], bool):
            return False
        return None
    return None


class Flags:
    def __init__(self, cfg: CFG, params: Iterable[str], const_of: Callable[[ast.AST], Optional[Token]] = default_const_of,
                 extra_flags: Iterable[str] = (), domains: Optional[Dict[str, List[object]]] = None) -> None:
        """`domains`: parameters with a finite set of interesting values ({'errors': ['raise', 'skip', ..., OTHER]});
        the exploration starts once per combination, so tests on them are decided path by path.  OTHER stands for
        "any value not listed" (it compares unequal to every constant)."""
        self.cfg = cfg
        self.const_of = const_of
        self.params = list(params)
        self.domains = {k: list(v) for k, v in (domains or {}).items()}
        self.vars: List[str] = self._find_flags()
        # a domain *parameter* that the function rebinds is not tracked; a domain *local* takes every value of its
        # domain wherever it is bound to something that is not a constant (the result of a call, a loop target)
        rebound = set()
        for n in iter_own_nodes(cfg.fnode):
            if isinstance(n, ast.Name) and isinstance(n.ctx, (ast.Store, ast.Del)) and n.id in self.domains and n.id in self.params:
                rebound.add(n.id)
        for k in rebound:
            self.domains.pop(k)
        self.local_domains = {k: v for k, v in self.domains.items() if k not in self.params}
        self.domains = {k: v for k, v in self.domains.items() if k in self.params}
        self.vars = sorted(set(self.vars) | set(self.domains) | set(self.local_domains))
        self.idx = {v: i for i, v in enumerate(self.vars)}
        self.states: Dict[int, Set[State]] = {}
        self.succ: Dict[PNode, List[Tuple[PNode, str]]] = {}
        self._explore()

    # -- which locals are flags ----------------------------------------------
    def _find_flags(self) -> List[str]:
        fnode = self.cfg.fnode
        good: Dict[str, bool] = {}

        def bad(name: str) -> None:
            good[name] = False

        for n in iter_own_nodes(fnode):
            if isinstance(n, ast.Assign):
                for t in n.targets:
                    if isinstance(t, ast.Name):
                        ok = self._flag_value(n.value)
                        good[t.id] = good.get(t.id, True) and ok
                    else:
                        for x in ast.walk(t):
                            if isinstance(x, ast.Name) and isinstance(x.ctx, ast.Store):
                                bad(x.id)
            elif isinstance(n, ast.AnnAssign) and isinstance(n.target, ast.Name):
                if n.value is not None:
                    good[n.target.id] = good.get(n.target.id, True) and self._flag_value(n.value)
            elif isinstance(n, (ast.AugAssign,)):
                for x in ast.walk(n.target):
                    if isinstance(x, ast.Name) and isinstance(x.ctx, ast.Store):
                        bad(x.id)
            elif isinstance(n, (ast.For, ast.comprehension)):
                for x in ast.walk(n.target):
                    if isinstance(x, ast.Name):
                        bad(x.id)
            elif isinstance(n, ast.With):
                for i in n.items:
                    if i.optional_vars is not None:
                        for x in ast.walk(i.optional_vars):
                            if isinstance(x, ast.Name):
                                bad(x.id)
            elif isinstance(n, ast.ExceptHandler) and n.name:
                bad(n.name)
            elif isinstance(n, ast.NamedExpr) and isinstance(n.target, ast.Name):
                bad(n.target.id)
            elif isinstance(n, (ast.Import, ast.ImportFrom)):
                for al in n.names:
                    bad((al.asname or al.name).split('.')[0])
            elif isinstance(n, (ast.Delete,)):
                for t in n.targets:
                    for x in ast.walk(t):
                        if isinstance(x, ast.Name):
                            bad(x.id)
            elif isinstance(n, (ast.Global, ast.Nonlocal)):
                for nm in n.names:
                    bad(nm)
        # names rebound by nested functions through nonlocal
        for sub in ast.walk(fnode):
            if isinstance(sub, (ast.FunctionDef, ast.AsyncFunctionDef)) and sub is not fnode:
                for x in ast.walk(sub):
                    if isinstance(x, ast.Nonlocal):
                        for nm in x.names:
                            bad(nm)
        return sorted(k for k, v in good.items() if v)

    def _flag_value(self, v: ast.AST) -> bool:
        if self.const_of(v) is not None:
            return True
        if isinstance(v, ast.IfExp):
            return self._flag_value(v.body) and self._flag_value(v.orelse)
        return False

    # -- abstract evaluation ----------------------------------------------------
    def val(self, e: ast.AST, s: State) -> Token:
        if isinstance(e, ast.Name) and e.id in self.idx:
            return s[self.idx[e.id]]
        c = self.const_of(e)
        if c is not None:
            return c
        if isinstance(e, ast.Attribute) and e.attr == 'value' and isinstance(e.value, ast.Name) and e.value.id in self.idx:
            m = s[self.idx[e.value.id]]
            if m[0] == 'e' and m[3] == 'member':
                return ('e', m[1], m[2], 'value')
            return TOP
        if isinstance(e, ast.IfExp):
            t = self.ev(e.test, s)
            if t is True:
                return self.val(e.body, s)
            if t is False:
                return self.val(e.orelse, s)
            a, b = self.val(e.body, s), self.val(e.orelse, s)
            return a if a == b else TOP
        return TOP

    def vals(self, e: ast.AST, s: State) -> Set[Token]:
        """All abstract values of `e` in state `s` (conditional expressions with an undecided test give both arms)."""
        if isinstance(e, ast.IfExp):
            t = self.ev(e.test, s)
            if t is True:
                return self.vals(e.body, s)
            if t is False:
                return self.vals(e.orelse, s)
            return self.vals(e.body, s) | self.vals(e.orelse, s)
        return {self.val(e, s)}

    def ev(self, e: ast.AST, s: State) -> Optional[bool]:
        if isinstance(e, ast.UnaryOp) and isinstance(e.op, ast.Not):
            r = self.ev(e.operand, s)
            return None if r is None else (not r)
        if isinstance(e, ast.BoolOp):
            rs = [self.ev(v, s) for v in e.values]
            if isinstance(e.op, ast.And):
                if any(r is False for r in rs):
                    return False
                return True if all(r is True for r in rs) else None
            if any(r is True for r in rs):
                return True
            return False if all(r is False for r in rs) else None
        if isinstance(e, ast.Compare) and len(e.ops) == 1:
            op = e.ops[0]
            if isinstance(op, (ast.Eq, ast.NotEq, ast.Is, ast.IsNot)):
                a, b = self.val(e.left, s), self.val(e.comparators[0], s)
                r = _same(a, b, isinstance(op, (ast.Is, ast.IsNot)))
                if r is None:
                    return None
                return r if isinstance(op, (ast.Eq, ast.Is)) else (not r)
            if isinstance(op, (ast.In, ast.NotIn)) and isinstance(e.comparators[0], (ast.Tuple, ast.List, ast.Set)):
                a = self.val(e.left, s)
                rs = [_same(a, self.val(x, s), False) for x in e.comparators[0].elts]
                if any(r is True for r in rs):
                    res = True
                elif all(r is False for r in rs):
                    res = False
                else:
                    return None
                return res if isinstance(op, ast.In) else (not res)
            return None
        if isinstance(e, ast.IfExp):
            t = self.ev(e.test, s)
            if t is True:
                return self.ev(e.body, s)
            if t is False:
                return self.ev(e.orelse, s)
            a, b = self.ev(e.body, s), self.ev(e.orelse, s)
            return a if a == b else None
        tok = self.val(e, s)
        if tok in (TOP, UNDEF):
            return None
        return _truth(tok)

    # -- refinement of TOP flags by a decided comparison -----------------------
    def _refine(self, test: ast.AST, truth: bool, s: State) -> State:
        from .match import nnf_atoms
        out = list(s)
        for (a, tr) in nnf_atoms(test, truth):
            if isinstance(a, ast.Compare) and len(a.ops) == 1 and isinstance(a.ops[0], (ast.Eq, ast.Is)) and tr:
                for x, y in ((a.left, a.comparators[0]), (a.comparators[0], a.left)):
                    if isinstance(x, ast.Name) and x.id in self.idx and out[self.idx[x.id]] == TOP:
                        c = self.const_of(y)
                        if c is not None:
                            out[self.idx[x.id]] = c
        return tuple(out)

    # -- exploration ---------------------------------------------------------------
    def _assigns(self, n: Node) -> List[Tuple[str, ast.AST]]:
        a = n.ast
        out = []
        if n.kind == 'stmt' and isinstance(a, ast.Assign):
            for t in a.targets:
                if isinstance(t, ast.Name) and t.id in self.idx and (t.id not in getattr(self, 'local_domains', {}) or self._flag_value(a.value)):
                    out.append((t.id, a.value))
        elif n.kind == 'stmt' and isinstance(a, ast.AnnAssign) and isinstance(a.target, ast.Name) and a.target.id in self.idx and a.value is not None:
            out.append((a.target.id, a.value))
        return out

    def _step(self, n: Node, s: State) -> List[Tuple[int, str, State]]:
        res: List[Tuple[int, str, State]] = []
        if n.kind in ('test', 'while'):
            test = n.ast if n.kind == 'test' else n.ast.test
            r = self.ev(test, s)
            for (b, lab) in n.succ:
                if lab == 'T' and r is not False:
                    res.append((b, lab, self._refine(test, True, s)))
                elif lab == 'F' and r is not True:
                    res.append((b, lab, self._refine(test, False, s)))
                elif lab not in ('T', 'F'):
                    res.append((b, lab, s))
            return res
        if self.local_domains:
            from .flow import bound_on_edge, names_bound
            forks = [v for v in names_bound(n) if v in self.local_domains and not any(nm == v for (nm, _v) in self._assigns(n) if self.const_of(_v) is not None)]
            edge_forks = {}
            for (b, lab) in n.succ:
                ef = [v for v in bound_on_edge(self.cfg, n.id, lab) if v in self.local_domains]
                if ef:
                    edge_forks[(b, lab)] = ef
            if forks or edge_forks:
                import itertools
                for (b, lab) in n.succ:
                    names = list(forks if lab not in ('exc', 'raise') else []) + edge_forks.get((b, lab), [])
                    if not names:
                        res.append((b, lab, s))
                        continue
                    for combo in itertools.product(*[self.local_domains[v] for v in names]):
                        l = list(s)
                        for v, val in zip(names, combo):
                            l[self.idx[v]] = ('c', type(val).__name__, val)
                        res.append((b, lab, tuple(l)))
                return res
        asg = self._assigns(n)
        if asg:
            posts: Set[State] = {s}
            for (name, v) in asg:
                nxt: Set[State] = set()
                for st in posts:
                    for tok in self.vals(v, st):
                        l = list(st)
                        l[self.idx[name]] = tok
                        nxt.add(tuple(l))
                posts = nxt
            for (b, lab) in n.succ:
                if lab in ('exc', 'raise'):
                    res.append((b, lab, s))
                else:
                    for st in posts:
                        res.append((b, lab, st))
            return res
        return [(b, lab, s) for (b, lab) in n.succ]

    def _explore(self) -> None:
        import itertools
        dom_vars = [v for v in self.vars if v in self.domains]
        combos = list(itertools.product(*[self.domains[v] for v in dom_vars])) if dom_vars else [()]
        inits = []
        for combo in combos:
            vals = dict(zip(dom_vars, combo))
            inits.append(tuple((('c', type(vals[v]).__name__, vals[v]) if v in vals else (TOP if v in self.params else UNDEF)) for v in self.vars))
        self.starts = [(self.cfg.entry, i) for i in inits]
        start = self.starts[0]
        seen: Set[PNode] = set(self.starts)
        stack = list(self.starts)
        while stack:
            pn = stack.pop()
            nid, s = pn
            self.states.setdefault(nid, set()).add(s)
            outs = []
            for (b, lab, s2) in self._step(self.cfg.nodes[nid], s):
                q: PNode = (b, s2)
                outs.append((q, lab))
                if q not in seen:
                    seen.add(q)
                    stack.append(q)
            self.succ[pn] = outs
            if len(seen) > 200000:
                from .source import Unsupported
                raise Unsupported('flag product graph too large')
        self.start = start
        self.pnodes = seen

    # -- queries -----------------------------------------------------------------------
    def states_at(self, nid: int) -> Set[State]:
        return self.states.get(nid, set())

    def feasible(self, nid: int) -> bool:
        return nid in self.states

    def feasible_edge(self, nid: int, label: str) -> bool:
        return any(lab == label for s in self.states_at(nid) for (_q, lab) in self.succ[(nid, s)])

    def value_at(self, nid: int, e: ast.AST) -> Set[Token]:
        out: Set[Token] = set()
        for s in self.states_at(nid):
            out |= self.vals(e, s)
        return out

    def decided(self, nid: int, e: ast.AST) -> Set[Optional[bool]]:
        return {self.ev(e, s) for s in self.states_at(nid)}

    def targets(self, nid: int, pred: Optional[Callable[[State], bool]] = None) -> Set[PNode]:
        return {(nid, s) for s in self.states_at(nid) if pred is None or pred(s)}

    def reach(self, starts: Iterable[PNode], avoid_nodes: Iterable[int] = (), skip_edges: Iterable[Tuple[int, str]] = ()) -> Set[PNode]:
        av = set(avoid_nodes)
        se = set(skip_edges)
        seen: Set[PNode] = set()
        stack = [p for p in starts if p[0] not in av]
        while stack:
            p = stack.pop()
            if p in seen:
                continue
            seen.add(p)
            for (q, lab) in self.succ.get(p, []):
                if (p[0], lab) in se or q[0] in av:
                    continue
                stack.append(q)
        return seen

    def must_take(self, targets: Set[PNode], edges: Iterable[Tuple[int, str]]) -> bool:
        """Every feasible path entry -> target takes one of the CFG edges (node, label)."""
        r = self.reach(self.starts, skip_edges=edges)
        return not (r & targets)

    def last_test(self, targets: Set[PNode], test_id: int, label: str) -> bool:
        """On every feasible path entry -> target, the test node was evaluated, and its most recent evaluation
        left by `label`."""
        if not targets:
            return True
        if self.reach(self.starts, avoid_nodes=[test_id]) & targets:
            return False
        others: List[PNode] = []
        for s in self.states_at(test_id):
            for (q, lab) in self.succ[(test_id, s)]:
                if lab != label:
                    others.append(q)
        return not (self.reach(others, avoid_nodes=[test_id]) & targets)

    def some_path(self, target: PNode, avoid_nodes: Iterable[int] = (), skip_edges: Iterable[Tuple[int, str]] = ()) -> Optional[List[int]]:
        from collections import deque
        av, se = set(avoid_nodes), set(skip_edges)
        prev: Dict[PNode, Optional[PNode]] = {s_: None for s_ in self.starts}
        dq = deque(self.starts)
        while dq:
            p = dq.popleft()
            if p == target:
                out = []
                cur: Optional[PNode] = p
                while cur is not None:
                    out.append(cur[0])
                    cur = prev[cur]
                return out[::-1]
            for (q, lab) in self.succ.get(p, []):
                if q in prev or q[0] in av or (p[0], lab) in se:
                    continue
                prev[q] = p
                dq.append(q)
        return None

    def show(self, s: State) -> str:
        def one(t: Token) -> str:
            if t == TOP:
                return '?'
            if t == UNDEF:
                return '<unbound>'
            if t[0] == 'c':
                return repr(t[2])
            return f'{t[1]}.{t[2]}' + ('.value' if t[3] == 'value' else '')
        return ', '.join(f'{v}={one(t)}' for v, t in zip(self.vars, s))
