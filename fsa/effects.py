"""Light-weight effect summaries: which functions may write state reachable
from their first parameter (`self`) or from module/class-level objects.

A *write* is: an attribute/subscript store or augmented assignment whose target
is rooted at the receiver, a `__dict__[...]` store, a call of a known mutator
method on such a root, or a call of another method of the receiver that writes
(name-based resolution over all package classes, to a fixpoint — conservative:
a method name defined in several classes writes if any definition writes).
"""

from __future__ import annotations

import ast
from typing import Dict, Iterable, List, Optional, Set, Tuple

from .source import FunctionInfo, Repo, iter_own_nodes, text
from .match import root_name, dotted

MUTATORS = {
    'append', 'extend', 'insert', 'pop', 'remove', 'clear', 'sort', 'reverse',
    'update', 'setdefault', 'popitem', 'add', 'discard',
    '__setitem__', '__setattr__', '__delitem__', '__delattr__', 'fill', 'put', 'resize',
}

# methods of the receiver that are user hooks: assumed to write (they are the
# whole point of a solve)
HOOKS = {
    'solve_t_before', 'solve_t_after', '_evaluate',
    'evaluate_t', 'evaluate_t_before', 'evaluate_t_after',
}


def local_aliases_of(fnode: ast.FunctionDef, root: str) -> Set[str]:
    """Names bound (anywhere in the function) to an expression rooted at `root`
    that is not a call of a copying function: they may alias receiver state."""
    out = {root}
    changed = True
    while changed:
        changed = False
        for n in iter_own_nodes(fnode):
            if isinstance(n, ast.Assign) and len(n.targets) == 1 and isinstance(n.targets[0], ast.Name):
                v = n.value
                if isinstance(v, (ast.Attribute, ast.Subscript, ast.Name)):
                    r = root_name(v)
                    if r in out and n.targets[0].id not in out:
                        out.add(n.targets[0].id)
                        changed = True
            elif isinstance(n, ast.For):
                # `for k, sub in self.submodels.items()` / `for x in self.things`
                r = root_name(n.iter)
                if r in out:
                    for t in ast.walk(n.target):
                        if isinstance(t, ast.Name) and t.id not in out:
                            out.add(t.id)
                            changed = True
    return out


def direct_writes(fnode: ast.FunctionDef, roots: Set[str]) -> List[Tuple[ast.AST, str]]:
    """(statement-or-call node, description) for each direct write through a
    name in `roots`."""
    out: List[Tuple[ast.AST, str]] = []
    for n in iter_own_nodes(fnode):
        tgts: List[ast.AST] = []
        if isinstance(n, ast.Assign):
            tgts = list(n.targets)
        elif isinstance(n, (ast.AugAssign, ast.AnnAssign)):
            tgts = [n.target] if getattr(n, 'value', True) is not None else []
        elif isinstance(n, ast.Delete):
            tgts = list(n.targets)
        for t in tgts:
            for x in ast.walk(t):
                if isinstance(x, (ast.Attribute, ast.Subscript)) and isinstance(x.ctx, (ast.Store, ast.Del)):
                    if root_name(x) in roots:
                        out.append((n, f'store {text(x)}'))
                        break
        if isinstance(n, ast.Call) and isinstance(n.func, ast.Attribute) and n.func.attr in MUTATORS:
            if root_name(n.func.value) in roots:
                out.append((n, f'mutator call {text(n.func)}'))
    return out


class Effects:
    def __init__(self, repo: Repo) -> None:
        self.repo = repo
        self.by_name: Dict[str, List[FunctionInfo]] = {}
        for f in repo.all_functions():
            if f.cls is not None and f.parent is None:
                self.by_name.setdefault(f.name, []).append(f)
        self._writes_self: Dict[str, bool] = {}
        self._solve()

    def _receiver(self, f: FunctionInfo) -> Optional[str]:
        a = f.node.args
        pos = a.posonlyargs + a.args
        if f.cls is None or not pos:
            return None
        for d in f.node.decorator_list:
            if isinstance(d, ast.Name) and d.id == 'staticmethod':
                return None
        return pos[0].arg

    def _solve(self) -> None:
        direct: Dict[str, bool] = {}
        callees: Dict[str, Set[str]] = {}
        for f in self.repo.all_functions():
            if f.cls is None or f.parent is not None:
                continue
            recv = self._receiver(f)
            if recv is None:
                direct[f.qualname] = False
                callees[f.qualname] = set()
                continue
            roots = local_aliases_of(f.node, recv)
            direct[f.qualname] = bool(direct_writes(f.node, roots))
            cs: Set[str] = set()
            for n in ast.walk(f.node):
                if isinstance(n, ast.Call) and isinstance(n.func, ast.Attribute):
                    v = n.func.value
                    if (isinstance(v, ast.Name) and v.id == recv) or (
                        isinstance(v, ast.Call) and isinstance(v.func, ast.Name) and v.func.id == 'super'
                    ):
                        cs.add(n.func.attr)
                # property setters: `self.values = ...` handled as a direct write
            callees[f.qualname] = cs
        name_writes: Dict[str, bool] = {n: False for n in self.by_name}
        for h in HOOKS:
            name_writes[h] = True
        changed = True
        while changed:
            changed = False
            for name, fs in self.by_name.items():
                if name_writes.get(name):
                    continue
                for f in fs:
                    if direct[f.qualname] or any(name_writes.get(c, False) for c in callees[f.qualname]):
                        name_writes[name] = True
                        changed = True
                        break
        self.name_writes = name_writes
        for f in self.repo.all_functions():
            if f.cls is None or f.parent is not None:
                continue
            self._writes_self[f.qualname] = direct[f.qualname] or any(
                name_writes.get(c, False) for c in callees[f.qualname]
            )

    def method_writes(self, name: str) -> bool:
        """May a method called `name` on a package object write that object?"""
        if name in HOOKS:
            return True
        return self.name_writes.get(name, False)

    def function_writes_self(self, qualname: str) -> bool:
        return self._writes_self.get(qualname, False)


def effect_nodes(cfg, eff: Effects, recv: str = 'self', extra_roots: Iterable[str] = ()) -> List[int]:
    """CFG node ids whose statement (or test) may write state reachable from
    the receiver."""
    fnode = cfg.fnode
    roots = local_aliases_of(fnode, recv) | set(extra_roots)
    out: List[int] = []
    # nested helper functions whose body writes the receiver (closures over `self`)
    writing_locals: Set[str] = set()
    for sub in ast.walk(fnode):
        if isinstance(sub, (ast.FunctionDef, ast.Lambda)) and sub is not fnode:
            body_writes = bool(direct_writes(sub, roots)) if isinstance(sub, ast.FunctionDef) else False
            if not body_writes:
                for c in ast.walk(sub):
                    if isinstance(c, ast.Call) and isinstance(c.func, ast.Attribute) and isinstance(c.func.value, ast.Name) and c.func.value.id in roots \
                            and (c.func.attr in MUTATORS or eff.method_writes(c.func.attr)):
                        body_writes = True
            if body_writes and isinstance(sub, ast.FunctionDef):
                writing_locals.add(sub.name)
    from .flow import node_expr_roots

    for n in cfg.nodes:
        if n.ast is None:
            continue
        hit = False
        a = n.ast
        if n.kind == 'stmt' and isinstance(a, (ast.Assign, ast.AugAssign, ast.AnnAssign, ast.Delete)):
            tgts = a.targets if isinstance(a, (ast.Assign, ast.Delete)) else [a.target]
            for t in tgts:
                for x in ast.walk(t):
                    if isinstance(x, (ast.Attribute, ast.Subscript)) and isinstance(x.ctx, (ast.Store, ast.Del)):
                        if root_name(x) in roots:
                            hit = True
        if not hit:
            for root in node_expr_roots(n):
                if isinstance(root, (ast.FunctionDef, ast.ClassDef)):
                    continue
                for c in ast.walk(root):
                    if isinstance(c, ast.Call) and isinstance(c.func, ast.Attribute):
                        v = c.func.value
                        is_recv = isinstance(v, ast.Name) and v.id in roots
                        is_super = isinstance(v, ast.Call) and isinstance(v.func, ast.Name) and v.func.id == 'super'
                        if is_recv or is_super:
                            if c.func.attr in MUTATORS or eff.method_writes(c.func.attr):
                                hit = True
                        elif root_name(v) in roots and c.func.attr in MUTATORS:
                            hit = True
                    elif isinstance(c, ast.Call) and isinstance(c.func, ast.Name) and c.func.id in writing_locals:
                        hit = True
        if hit:
            out.append(n.id)
    return out
