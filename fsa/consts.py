"""Constant folding of module-level / class-level constants without running
the module: strings (literals, implicit concatenation, `+`, f-strings over
folded names, `sep.join(keyword.kwlist)`), numbers, list/tuple/dict displays,
enum class bodies (`enum.auto()` numbered in order), `re.compile(p, flags)`.
"""

from __future__ import annotations

import ast
import keyword
import re
from typing import Any, Dict, List, Optional, Tuple

from .source import AnchorMissing, Repo, Unsupported, text
from .match import dotted


class NotConstant(Exception):
    pass


class Folder:
    def __init__(self, repo: Repo, modname: str) -> None:
        self.repo = repo
        self.modname = modname
        self.mod = repo.module(modname)
        self.env: Dict[str, Any] = {}
        self._fold_module()

    def _fold_module(self) -> None:
        for stmt in self.mod.tree.body:
            tgt, val = None, None
            if isinstance(stmt, ast.Assign) and len(stmt.targets) == 1 and isinstance(stmt.targets[0], ast.Name):
                tgt, val = stmt.targets[0].id, stmt.value
            elif isinstance(stmt, ast.AnnAssign) and isinstance(stmt.target, ast.Name) and stmt.value is not None:
                tgt, val = stmt.target.id, stmt.value
            if tgt is None:
                continue
            try:
                self.env[tgt] = self.fold(val)
            except NotConstant:
                pass

    def fold(self, n: ast.AST) -> Any:
        if isinstance(n, ast.Constant):
            return n.value
        if isinstance(n, ast.Name):
            if n.id in self.env:
                return self.env[n.id]
            raise NotConstant(n.id)
        if isinstance(n, ast.JoinedStr):
            parts = []
            for v in n.values:
                if isinstance(v, ast.Constant):
                    parts.append(str(v.value))
                elif isinstance(v, ast.FormattedValue):
                    if v.format_spec is not None or v.conversion not in (-1, 115):
                        raise NotConstant('format spec')
                    parts.append(str(self.fold(v.value)))
                else:
                    raise NotConstant('joinedstr part')
            return ''.join(parts)
        if isinstance(n, ast.BinOp) and isinstance(n.op, ast.Add):
            l, r = self.fold(n.left), self.fold(n.right)
            if type(l) is type(r) and isinstance(l, (str, list, tuple, int, float)):
                return l + r
            raise NotConstant('add')
        if isinstance(n, ast.BinOp) and isinstance(n.op, ast.BitOr):
            l, r = self.fold(n.left), self.fold(n.right)
            if isinstance(l, int) and isinstance(r, int):
                return l | r
            raise NotConstant('bitor')
        if isinstance(n, ast.UnaryOp) and isinstance(n.op, ast.USub):
            v = self.fold(n.operand)
            if isinstance(v, (int, float)):
                return -v
            raise NotConstant('usub')
        if isinstance(n, (ast.List, ast.Tuple)):
            vals = [self.fold(e) for e in n.elts]
            return vals if isinstance(n, ast.List) else tuple(vals)
        if isinstance(n, ast.Dict):
            out = {}
            for k, v in zip(n.keys, n.values):
                if k is None:
                    raise NotConstant('dict unpack')
                out[self.fold(k)] = self.fold(v)
            return out
        if isinstance(n, ast.Attribute):
            d = dotted(n)
            if d == 'keyword.kwlist':
                return list(keyword.kwlist)
            if d and d.startswith('re.') and hasattr(re, d[3:]) and d[3:].isupper():
                return int(getattr(re, d[3:]))
            raise NotConstant(d or 'attr')
        if isinstance(n, ast.Call):
            # 'sep'.join(<const list>)
            if isinstance(n.func, ast.Attribute) and n.func.attr == 'join' and len(n.args) == 1 and not n.keywords:
                sep = self.fold(n.func.value)
                seq = self.fold(n.args[0])
                if isinstance(sep, str) and isinstance(seq, (list, tuple)) and all(isinstance(x, str) for x in seq):
                    return sep.join(seq)
                raise NotConstant('join')
            if dotted(n.func) == 're.compile':
                pat = self.fold(n.args[0])
                flags = 0
                if len(n.args) > 1:
                    flags = self.fold(n.args[1])
                for k in n.keywords:
                    if k.arg == 'flags':
                        flags = self.fold(k.value)
                return CompiledRegex(pat, int(flags))
            if dotted(n.func) in ('list', 'tuple') and len(n.args) == 1:
                v = self.fold(n.args[0])
                if isinstance(v, dict):
                    v = list(v)
                return list(v) if dotted(n.func) == 'list' else tuple(v)
            if isinstance(n.func, ast.Attribute) and n.func.attr == 'keys' and not n.args:
                v = self.fold(n.func.value)
                if isinstance(v, dict):
                    return list(v.keys())
            # constant propagation through pure text functions of constants: re.sub, textwrap.dedent, str methods
            d = dotted(n.func)
            if d == 're.sub' and 3 <= len(n.args) <= 5 and all(k.arg in ('count', 'flags') for k in n.keywords):
                args = [self.fold(a) for a in n.args]
                kw = {k.arg: self.fold(k.value) for k in n.keywords}
                if all(isinstance(a, str) for a in args[:3]) and all(isinstance(v_, int) for v_ in list(args[3:]) + list(kw.values())):
                    try:
                        return re.sub(*args, **kw)
                    except re.error as e:
                        raise NotConstant(f're.sub: {e}')
                raise NotConstant('re.sub')
            if d == 'textwrap.dedent' and len(n.args) == 1 and not n.keywords:
                v = self.fold(n.args[0])
                if isinstance(v, str):
                    import textwrap
                    return textwrap.dedent(v)
                raise NotConstant('dedent')
            if isinstance(n.func, ast.Attribute) and n.func.attr in ('replace', 'strip', 'lstrip', 'rstrip', 'lower', 'upper', 'splitlines', 'split') and not n.keywords:
                recv = self.fold(n.func.value)
                args = [self.fold(a) for a in n.args]
                if isinstance(recv, str) and all(isinstance(a, (str, int)) for a in args):
                    return getattr(recv, n.func.attr)(*args)
                raise NotConstant('str method')
            # a module-level function that is one expression of its parameters (reassignments of a local included),
            # applied to constants
            if isinstance(n.func, ast.Name) and not any(isinstance(a, ast.Starred) for a in n.args):
                fdef = next((st for st in self.mod.tree.body if isinstance(st, ast.FunctionDef) and st.name == n.func.id), None)
                if fdef is not None and not fdef.decorator_list and getattr(self, '_depth', 0) < 4:
                    from .summ import summarise_return, _bind_call
                    rv = summarise_return(fdef)
                    bound = _bind_call(fdef, n) if rv is not None else None
                    if rv is not None and bound is not None:
                        vals = {k: self.fold(v) for k, v in bound.items()}
                        saved = self.env
                        self.env = dict(saved)
                        self.env.update(vals)
                        self._depth = getattr(self, '_depth', 0) + 1
                        try:
                            return self.fold(rv)
                        finally:
                            self.env = saved
                            self._depth -= 1
            raise NotConstant('call')
        raise NotConstant(type(n).__name__)

    def get(self, name: str) -> Any:
        if name not in self.env:
            raise AnchorMissing(f'{self.modname}.{name}: not a foldable module-level constant')
        return self.env[name]


class CompiledRegex:
    def __init__(self, pattern: str, flags: int) -> None:
        self.pattern = pattern
        self.flags = flags

    def __repr__(self) -> str:
        return f'CompiledRegex({self.pattern!r}, {self.flags})'


_FOLDERS: Dict[Tuple[int, str], Folder] = {}


def folder(repo: Repo, modname: str) -> Folder:
    k = (id(repo), modname)
    if k not in _FOLDERS:
        _FOLDERS[k] = Folder(repo, modname)
    return _FOLDERS[k]


def fold_enum(repo: Repo, modname: str, clsname: str) -> Dict[str, Any]:
    """Members of an enum class, in declaration order; `enum.auto()` counts from 1."""
    ci = repo.cls(f'{modname}.{clsname}')
    out: Dict[str, Any] = {}
    auto = 0
    fd = folder(repo, modname)
    for stmt in ci.node.body:
        if isinstance(stmt, ast.Assign) and len(stmt.targets) == 1 and isinstance(stmt.targets[0], ast.Name):
            v = stmt.value
            if isinstance(v, ast.Call) and dotted(v.func) in ('enum.auto', 'auto'):
                auto += 1
                out[stmt.targets[0].id] = auto
            else:
                try:
                    val = fd.fold(v)
                except NotConstant:
                    raise Unsupported(f'{clsname}.{stmt.targets[0].id}: not constant') from None
                out[stmt.targets[0].id] = val
                if isinstance(val, int):
                    auto = val
    return out


def fold_class_const(repo: Repo, cls_q: str, name: str) -> Any:
    ci = repo.cls(cls_q)
    v = ci.body_assign(name)
    if v is None:
        raise AnchorMissing(f'{cls_q}.{name}: no class-level binding')
    fd = folder(repo, ci.module.name)
    try:
        return fd.fold(v)
    except NotConstant as e:
        raise Unsupported(f'{cls_q}.{name}: not constant ({e})') from None
