#!/venv/bin/python
"""Run every check on behaviour-preserving refactorings (patch.diff files): a VIOLATION here is a false alarm.

    tools/eval_refactors.py <dir-with-patch.diff> [...]      |   tools/eval_refactors.py --kept   (everything under /verif/refactors)
"""
import concurrent.futures as cf, json, os, shutil, subprocess, sys, tempfile
from pathlib import Path
HERE = Path(__file__).resolve().parent.parent
sys.path.insert(0, str(HERE / 'tools'))
import eval_seeded
PROPS = os.environ.get('ONLY_PROPS', '').split() or eval_seeded.PROPS

def evaluate(c: Path) -> dict:
    d = eval_seeded.scratch_copy()
    try:
        code, out = eval_seeded.sh(['patch', '-p1', '-s', '-i', str(c / 'patch.diff')], cwd=str(d))
        if code != 0:
            return {'candidate': str(c), 'error': out[-300:]}
        res = {'candidate': str(c), 'violations': {}, 'inconclusive': {}}
        env = dict(os.environ, FSIC_REPO=str(d), FSA_OUT=str(d / '_out'), PYTHONDONTWRITEBYTECODE='1')
        for p in PROPS:
            code, out = eval_seeded.sh([str(HERE / 'check'), p, '--tier', 'quick'], cwd=str(HERE), env=env)
            if code == 1:
                res['violations'][p] = [l.strip() for l in out.splitlines() if l.strip().startswith('rule=')][:4]
            elif code == 2:
                res['inconclusive'][p] = sorted({l.split('rule=')[1].split()[0] for l in out.splitlines() if l.startswith('ANALYSIS-ERROR') and 'rule=' in l})
        return res
    finally:
        shutil.rmtree(d, ignore_errors=True)

if __name__ == '__main__':
    args = sys.argv[1:]
    cands = sorted(p for p in (HERE / 'refactors').iterdir() if p.is_dir()) if args == ['--kept'] else [Path(a).resolve() for a in args]
    with cf.ThreadPoolExecutor(max_workers=8) as ex:
        for r in ex.map(evaluate, cands):
            tag = 'FALSE-ALARM' if r.get('violations') else ('inconclusive' if r.get('inconclusive') else 'silent')
            print(r['candidate'].split('refac_out/')[-1].split('refactors/')[-1], tag, json.dumps(r.get('violations') or r.get('inconclusive') or r.get('error') or {})[:700])
            sys.stdout.flush()
