#!/bin/bash
# usage: mech_run.sh <relfile> <qualname> <index> <kind>
d=$(mktemp -d); cd $d && git -C /repo archive HEAD | tar -x && /venv/bin/python /verif/tools/mech_one.py apply "$4" "$1" "$2" "$3" $d || { echo "APPLYFAIL $*"; rm -rf $d; exit; }
/venv/bin/python -c "import ast,sys; ast.parse(open('$d/$1').read())" 2>/dev/null || { echo "SYNTAX $*"; rm -rf $d; exit; }
cd /verif; v=""; i=""
for c in C01 C02 C03 C04 C05 C06 C07 C08 C09 C10 C11 C12 C13 C14 C15 C16 C17 C18 C19 C20; do FSIC_REPO=$d FSA_OUT=$d/out ./check $c >$d/o.txt 2>&1; rc=$?; if [ $rc = 1 ]; then v="$v $c:$(grep -m1 '^  rule=' $d/o.txt | awk '{print $1}' | sed 's/rule=//')"; elif [ $rc != 0 ]; then i="$i $c:$(grep -m1 '^ANALYSIS-ERROR' $d/o.txt | awk '{print $3}' | sed 's/rule=//')"; fi; done
rm -rf $d
echo "$4 $2 $3 | V:$v | I:$i"
