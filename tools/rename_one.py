import ast, glob, sys, builtins, json, os, subprocess, tempfile, shutil
sys.path.insert(0,'/tmp')
# list mode: print (file, qualname, local) triples ; apply mode: apply one rename into a tree
def own(node, nested_used, banned):
    st=list(ast.iter_child_nodes(node))
    while st:
        x=st.pop(); yield x
        if isinstance(x,(ast.FunctionDef,ast.AsyncFunctionDef,ast.Lambda,ast.ClassDef)):
            for y in ast.walk(x):
                if isinstance(y, ast.Name): nested_used.add(y.id)
            continue
        if isinstance(x,(ast.ListComp,ast.SetComp,ast.DictComp,ast.GeneratorExp)):
            for g in x.generators:
                for y in ast.walk(g.target):
                    if isinstance(y, ast.Name): banned.add(y.id)
        st.extend(ast.iter_child_nodes(x))
def locals_of(fn):
    params = {a.arg for a in fn.args.posonlyargs+fn.args.args+fn.args.kwonlyargs} | ({fn.args.vararg.arg} if fn.args.vararg else set()) | ({fn.args.kwarg.arg} if fn.args.kwarg else set())
    assigned=set(); banned=set(); nested_used=set()
    for x in own(fn, nested_used, banned):
        if isinstance(x, ast.Name) and isinstance(x.ctx,(ast.Store,ast.Del)): assigned.add(x.id)
        if isinstance(x,(ast.Global,ast.Nonlocal)): banned |= set(x.names)
        if isinstance(x, ast.Call) and isinstance(x.func, ast.Name) and x.func.id in ('locals','eval','exec','vars'): return set()
        if isinstance(x, ast.ExceptHandler) and x.name: banned.add(x.name)
    return {n for n in assigned - params - banned - nested_used if not hasattr(builtins,n) and n != '_'}
def funcs(tree, prefix=''):
    for n in tree.body if hasattr(tree,'body') else []:
        if isinstance(n,(ast.FunctionDef,ast.AsyncFunctionDef)):
            yield prefix+n.name, n
            yield from funcs(n, prefix+n.name+'.')
        elif isinstance(n, ast.ClassDef):
            yield from funcs(n, prefix+n.name+'.')
class Ren(ast.NodeTransformer):
    def __init__(self, name, new): self.name=name; self.new=new
    def visit_Name(self, n):
        if n.id == self.name: n.id = self.new
        return n
    def visit_FunctionDef(self, n): return n
    visit_AsyncFunctionDef = visit_FunctionDef
    def visit_Lambda(self, n): return n
    def visit_ClassDef(self, n): return n
if sys.argv[1]=='list':
    for f in sorted(glob.glob('/repo/fsic/**/*.py', recursive=True)):
        t=ast.parse(open(f).read())
        for q,fn in funcs(t):
            for nm in sorted(locals_of(fn)):
                print(os.path.relpath(f,'/repo'), q, nm)
else:
    rel,q,nm,root = sys.argv[2:6]
    p=os.path.join(root,rel); src=open(p).read(); t=ast.parse(src)
    for qq,fn in funcs(t):
        if qq==q:
            r=Ren(nm, nm+'_renamed')
            fn.body=[r.generic_visit(s) if not isinstance(s,(ast.FunctionDef,ast.AsyncFunctionDef,ast.ClassDef)) else s for s in fn.body]
            # textual replacement restricted to the function's line span keeps formatting: rewrite whole module via unparse of that function only
            seg=ast.get_source_segment(src, fn)
            new=ast.unparse(fn)
            # re-indent
            ind=' '*fn.col_offset
            new='\n'.join((ind+l if i else l) for i,l in enumerate(new.split('\n')))
            src=src.replace(seg,new,1)
            open(p,'w').write(src)
            break
