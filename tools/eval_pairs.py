#!/venv/bin/python
"""Round-4 pairs: for each (seeded/Cxx-r4-n, refactors/G-Cxx-n) - the same change with and without its slip - run every
check on both and say how the pair is decided.

    tools/eval_pairs.py            all 40 pairs
    tools/eval_pairs.py C05 C12    the pairs of these properties
    tools/eval_pairs.py --round r5 [Cxx ...]   the held-out fifth round (seeded/Cxx-r5-n, refactors/H-Cxx-n)

A pair is DECIDED when the bad version is reported (VIOLATION by some property; `target` says whether the seeded property
itself reports it) and the good version is not (silent or inconclusive).  Other outcomes: HONEST (both inconclusive in the
target property: the idiom is not read, and the checker says so), MISSED (bad version silent in every property), FALSE-ALARM
(good version reported).
"""
import concurrent.futures as cf, json, sys
from pathlib import Path
HERE = Path(__file__).resolve().parent.parent
sys.path.insert(0, str(HERE / 'tools'))
import eval_refactors  # noqa: E402


def main() -> int:
    args = sys.argv[1:]
    rnd = 'r4'
    if args[:1] == ['--round']:
        rnd, args = args[1], args[2:]
    tag = {'r4': 'G', 'r5': 'H', 'r6': 'J'}[rnd]
    props = args
    pairs = []
    for b in sorted((HERE / 'seeded').glob(f'C??-{rnd}-?')):
        pid, n = b.name[:3], b.name[-1]
        g = HERE / 'refactors' / f'{tag}-{pid}-{n}'
        if g.exists() and (not props or pid in props):
            pairs.append((pid, n, b, g))
    cands = [p for (_a, _b, b, g) in pairs for p in (b, g)]
    with cf.ThreadPoolExecutor(max_workers=8) as ex:
        res = dict(zip([str(c) for c in cands], ex.map(eval_refactors.evaluate, cands)))
    tally = {}
    for (pid, n, b, g) in pairs:
        rb, rg = res[str(b)], res[str(g)]
        if 'error' in rb or 'error' in rg:
            kind = 'PATCH-ERROR'
        elif rg.get('violations'):
            kind = 'FALSE-ALARM'
        elif rb.get('violations'):
            kind = 'DECIDED' if pid in rb['violations'] else 'DECIDED-by-another-property'
        elif rb.get('inconclusive'):
            kind = 'HONEST'
        else:
            kind = 'MISSED'
        tally[kind] = tally.get(kind, 0) + 1
        bad = {k: sorted({x.split()[0].replace('rule=', '') for x in v}) for k, v in (rb.get('violations') or {}).items()} or {k: ['I:' + x for x in v] for k, v in (rb.get('inconclusive') or {}).items()}
        good = {k: sorted({x.split()[0].replace('rule=', '') for x in v}) for k, v in (rg.get('violations') or {}).items()} or {k: ['I:' + x for x in v] for k, v in (rg.get('inconclusive') or {}).items()}
        print(f'{pid}-{n} {kind:28s} bad={json.dumps(bad)} good={json.dumps(good) if good else "silent"}')
        sys.stdout.flush()
    print('  ' + ', '.join(f'{k}: {v}' for k, v in sorted(tally.items())))
    return 0


if __name__ == '__main__':
    sys.exit(main())
