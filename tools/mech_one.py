"""Mechanical behaviour-preserving edits, one site at a time.
  list <kind>            -> lines: relfile qualname index
  apply <kind> relfile qualname index root
kinds: swap (if/else with both branches: negate the test, swap the branches)
       flip (a comparison `a < b` written `b > a`, `a == b` as `b == a`, single-operator comparisons between side-effect-free operands)
       temp (the value of a `return <call or binop>` first put into a local `result_`)"""
import ast, glob, sys, os, copy
def funcs(tree, prefix=''):
    for n in tree.body if hasattr(tree,'body') else []:
        if isinstance(n,(ast.FunctionDef,ast.AsyncFunctionDef)):
            yield prefix+n.name, n
            yield from funcs(n, prefix+n.name+'.')
        elif isinstance(n, ast.ClassDef):
            yield from funcs(n, prefix+n.name+'.')
def own_walk(fn):
    st=list(ast.iter_child_nodes(fn))
    while st:
        x=st.pop(0); yield x
        if isinstance(x,(ast.FunctionDef,ast.AsyncFunctionDef,ast.ClassDef,ast.Lambda)): continue
        st.extend(ast.iter_child_nodes(x))
FLIP={ast.Lt:ast.Gt, ast.Gt:ast.Lt, ast.LtE:ast.GtE, ast.GtE:ast.LtE, ast.Eq:ast.Eq, ast.NotEq:ast.NotEq}
def simple(e):
    return all(isinstance(x,(ast.Name,ast.Attribute,ast.Constant,ast.Subscript,ast.BinOp,ast.UnaryOp,ast.operator,ast.unaryop,ast.expr_context,ast.Call,ast.Tuple,ast.keyword,ast.Slice)) for x in ast.walk(e)) \
        and not any(isinstance(x, ast.Call) and not (isinstance(x.func, ast.Name) and x.func.id in ('len','abs','int','type')) for x in ast.walk(e))
def sites(fn, kind):
    out=[]
    for x in own_walk(fn):
        if kind=='swap' and isinstance(x, ast.If) and x.orelse and not (len(x.orelse)==1 and isinstance(x.orelse[0], ast.If)) :
            out.append(x)
        if kind=='flip' and isinstance(x, ast.Compare) and len(x.ops)==1 and type(x.ops[0]) in FLIP and simple(x.left) and simple(x.comparators[0]):
            out.append(x)
        if kind=='temp' and isinstance(x, ast.Return) and isinstance(x.value,(ast.Call,ast.BinOp)):
            out.append(x)
        if kind=='temp2' and isinstance(x, (ast.Assign, ast.Expr, ast.Return)) and isinstance(getattr(x,'value',None), ast.Call) and x.value.args \
                and isinstance(x.value.args[0], (ast.BinOp, ast.Call, ast.Subscript, ast.Attribute)) and not any(isinstance(y,(ast.Starred,ast.Yield,ast.Await,ast.NamedExpr)) for y in ast.walk(x.value)) \
                and not (isinstance(x.value.func, ast.Name) and x.value.func.id in ('super',)):
            out.append(x)
        if kind=='aug' and isinstance(x, ast.AugAssign) and isinstance(x.target, ast.Name):
            out.append(x)
        if kind=='demorgan' and isinstance(x, ast.UnaryOp) and isinstance(x.op, ast.Not) and isinstance(x.operand, ast.BoolOp):
            out.append(x)
        if kind=='demorgan' and isinstance(x, ast.If) and isinstance(x.test, ast.BoolOp) and not x.orelse and isinstance(x.test.op, ast.And) and len(x.test.values)==2:
            out.append(x)
    return out
if sys.argv[1]=='list':
    kind=sys.argv[2]
    for f in sorted(glob.glob('/repo/fsic/**/*.py', recursive=True)):
        t=ast.parse(open(f).read())
        for q,fn in funcs(t):
            for i,_ in enumerate(sites(fn,kind)):
                print(os.path.relpath(f,'/repo'), q, i, kind)
else:
    kind,rel,q,idx,root=sys.argv[2],sys.argv[3],sys.argv[4],int(sys.argv[5]),sys.argv[6]
    p=os.path.join(root,rel); src=open(p).read(); t=ast.parse(src)
    for qq,fn in funcs(t):
        if qq!=q: continue
        x=sites(fn,kind)[idx]
        seg=ast.get_source_segment(src, fn)
        if kind=='swap':
            x.test=ast.UnaryOp(op=ast.Not(), operand=x.test); x.body, x.orelse = x.orelse, x.body
        elif kind=='flip':
            x.left, x.comparators[0] = x.comparators[0], x.left; x.ops=[FLIP[type(x.ops[0])]()]
        elif kind=='temp2':
            class T2(ast.NodeTransformer):
                def generic_visit(self, node):
                    for fld, old_ in ast.iter_fields(node):
                        if isinstance(old_, list):
                            new_=[]
                            for v in old_:
                                if v is x:
                                    new_.append(ast.Assign(targets=[ast.Name(id='arg_', ctx=ast.Store())], value=x.value.args[0], lineno=0))
                                    x.value.args[0]=ast.Name(id='arg_', ctx=ast.Load())
                                    new_.append(x)
                                elif isinstance(v, ast.AST):
                                    new_.append(self.visit(v))
                                else: new_.append(v)
                            setattr(node, fld, new_)
                        elif isinstance(old_, ast.AST):
                            setattr(node, fld, self.visit(old_))
                    return node
            T2().visit(fn)
        elif kind=='aug':
            class A(ast.NodeTransformer):
                def visit_AugAssign(self, node):
                    if node is x:
                        return ast.Assign(targets=[ast.Name(id=x.target.id, ctx=ast.Store())], value=ast.BinOp(left=ast.Name(id=x.target.id, ctx=ast.Load()), op=x.op, right=x.value), lineno=0)
                    return node
            A().visit(fn)
        elif kind=='demorgan':
            if isinstance(x, ast.UnaryOp):
                # not (a and b) -> (not a) or (not b)
                inner=x.operand
                newop=ast.Or() if isinstance(inner.op, ast.And) else ast.And()
                repl=ast.BoolOp(op=newop, values=[ast.UnaryOp(op=ast.Not(), operand=v) for v in inner.values])
                class D(ast.NodeTransformer):
                    def visit_UnaryOp(self, node):
                        if node is x: return repl
                        return self.generic_visit(node)
                D().visit(fn)
            else:
                # if a and b: S   ->   if a:\n    if b: S
                a,b=x.test.values
                x.test=a; x.body=[ast.If(test=b, body=x.body, orelse=[])]
        elif kind=='temp':
            class T(ast.NodeTransformer):
                def generic_visit(self, node):
                    for fld, old in ast.iter_fields(node):
                        if isinstance(old, list):
                            new=[]
                            for v in old:
                                if v is x:
                                    new.append(ast.Assign(targets=[ast.Name(id='result_', ctx=ast.Store())], value=x.value, lineno=0))
                                    new.append(ast.Return(value=ast.Name(id='result_', ctx=ast.Load())))
                                elif isinstance(v, ast.AST):
                                    new.append(self.visit(v))
                                else: new.append(v)
                            setattr(node, fld, new)
                        elif isinstance(old, ast.AST):
                            setattr(node, fld, self.visit(old))
                    return node
            T().visit(fn)
        ast.fix_missing_locations(fn)
        new=ast.unparse(fn); ind=' '*fn.col_offset
        new='\n'.join((ind+l if i else l) for i,l in enumerate(new.split('\n')))
        open(p,'w').write(src.replace(seg,new,1))
        break
