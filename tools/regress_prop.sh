#!/bin/bash
# tools/regress_prop.sh C05 : self-test variants, seeded changes and refactor corpus for one property
cd "$(dirname "$0")/.."
P=$1
./check $P | tail -1
/venv/bin/python -m selftest.battery $P 2>&1 | grep -v KNOWN-FINDING | grep -v "^    " | tail -6
TARGET_ONLY=1 /venv/bin/python tools/eval_seeded.py --no-suite $(ls -d seeded/$P-*/) | /venv/bin/python -c "
import sys, json
n=c=0
for l in sys.stdin:
    r=json.loads(l); n+=1
    if r.get('detected_by_target'): c+=1
    else: print('  MISSED', r['candidate'].split('/')[-1], {k:(v['violations'] or ['I:'+x for x in v['inconclusive']]) for k,v in r.get('caught_by',{}).items()})
print(f'  seeded: {c}/{n} reported')
"
ONLY_PROPS=$P /venv/bin/python tools/eval_refactors.py --kept | grep -v " silent " | cut -c1-500
echo "  (refactors not listed above are silent)"
