#!/venv/bin/python
"""Keep behaviour-preserving refactorings produced by sub-agents: tools/keep_refactors.py <prefix> <dir> [...]

Each <dir> holds patch.diff + notes.md.  Kept as /verif/refactors/<prefix>-<n>/ if the patch applies to a scratch
copy of /repo's HEAD and the repository's suite (minus tests/test_fortran.py) passes there."""
import shutil
import sys
from pathlib import Path

HERE = Path(__file__).resolve().parent.parent
sys.path.insert(0, str(HERE / 'tools'))
import eval_seeded  # noqa: E402


def main() -> int:
    for a in sys.argv[1:]:
        src = Path(a).resolve()
        name = f'{src.parent.name}-{src.name}'
        if not (src / 'patch.diff').exists():
            print('SKIP', name, 'no patch.diff')
            continue
        d = eval_seeded.scratch_copy()
        try:
            code, out = eval_seeded.sh(['patch', '-p1', '-s', '-i', str(src / 'patch.diff')], cwd=str(d))
            if code != 0:
                print('REJECT', name, 'does not apply')
                continue
            code, out = eval_seeded.sh(['/venv/bin/python', '-m', 'pytest', '-q', '-p', 'no:cacheprovider', '--timeout=900', '--ignore=tests/test_fortran.py'], cwd=str(d))
            tail = out.strip().splitlines()[-1] if out.strip() else ''
            if code != 0:
                print('REJECT', name, 'suite fails:', tail)
                continue
            dst = HERE / 'refactors' / name
            dst.mkdir(parents=True, exist_ok=True)
            shutil.copy(src / 'patch.diff', dst / 'patch.diff')
            if (src / 'notes.md').exists():
                shutil.copy(src / 'notes.md', dst / 'notes.md')
            print('KEPT', name, tail)
        finally:
            shutil.rmtree(d, ignore_errors=True)
    return 0


if __name__ == '__main__':
    sys.exit(main())
