#!/venv/bin/python
"""Evaluate seeded changes (patch.diff + demo.py) against the checks.

    tools/eval_seeded.py <dir-with-patch.diff-and-demo.py> [...]      # candidates (e.g. /tmp/mut_out/C02/1)
    tools/eval_seeded.py --kept                                       # everything under /verif/seeded

For each candidate, on scratch copies of /repo's HEAD (outside /repo and /verif, removed afterwards):
  1. the patch applies; every edited file compiles
  2. demo.py exits 0 on the clean tree and non-zero on the patched tree
  3. the repository's test-suite (minus tests/test_fortran.py, which cannot run here) passes on the patched tree
  4. every property check is run on the patched tree (FSIC_REPO=<scratch>): which ones report a VIOLATION
Prints one JSON line per candidate.
"""

from __future__ import annotations

import concurrent.futures as cf
import json
import os
import shutil
import subprocess
import sys
import tempfile
from pathlib import Path

HERE = Path(__file__).resolve().parent.parent
REPO = Path('/repo')
PROPS = [f'C{i:02d}' for i in range(1, 21)]


def sh(cmd, cwd=None, env=None, timeout=900):
    p = subprocess.run(cmd, cwd=cwd, env=env, capture_output=True, text=True, timeout=timeout)
    return p.returncode, p.stdout + p.stderr


def scratch_copy() -> Path:
    d = Path(tempfile.mkdtemp(prefix='fsa_seed_'))
    # tracked files of HEAD only
    code, out = sh(['git', '-C', str(REPO), 'archive', '--format=tar', 'HEAD', '-o', str(d / 'head.tar')])
    if code != 0:
        raise RuntimeError(out)
    sh(['tar', '-xf', 'head.tar'], cwd=str(d))
    (d / 'head.tar').unlink()
    return d


def evaluate(cand: Path, run_suite: bool = True, all_props: bool = True) -> dict:
    res = {'candidate': str(cand)}
    patch = cand / 'patch.diff'
    demo = cand / 'demo.py'
    if not patch.exists() or not demo.exists():
        res['error'] = 'patch.diff or demo.py missing'
        return res
    meta = {}
    if (cand / 'meta.json').exists():
        meta = json.loads((cand / 'meta.json').read_text())
    target = meta.get('property') or next((p for p in PROPS if p in str(cand)), None)
    res['target'] = target
    clean = scratch_copy()
    patched = scratch_copy()
    try:
        code, out = sh(['git', 'apply', '--whitespace=nowarn', str(patch)], cwd=str(patched))
        if code != 0:
            # the scratch copy is not a git repo: use patch(1)
            code, out = sh(['patch', '-p1', '-i', str(patch)], cwd=str(patched))
        res['applies'] = code == 0
        if code != 0:
            res['error'] = out[-400:]
            return res
        env = dict(os.environ, PYTHONDONTWRITEBYTECODE='1')
        for label, root in (('clean', clean), ('patched', patched)):
            e = dict(env, FSIC_SRC=str(root), PYTHONPATH=str(root))
            c, o = sh(['/venv/bin/python', str(demo)], cwd=str(root), env=e, timeout=600)
            res[f'demo_{label}'] = c
            if label == 'patched':
                res['demo_patched_tail'] = o.strip().splitlines()[-1:] if o.strip() else []
        if run_suite:
            c, o = sh(['/venv/bin/python', '-m', 'pytest', '-q', '-p', 'no:cacheprovider', '--timeout=900', '--ignore=tests/test_fortran.py'], cwd=str(patched), env=env)
            res['suite_patched'] = o.strip().splitlines()[-1] if o.strip() else ''
            res['suite_ok'] = c == 0
        caught = {}
        props = PROPS if (all_props and not os.environ.get('TARGET_ONLY')) else [target]
        for p in props:
            e = dict(env, FSIC_REPO=str(patched), FSA_OUT=str(patched / '_out'))
            c, o = sh([str(HERE / 'check'), p, '--tier', 'quick'], cwd=str(HERE), env=e)
            if c != 0:
                rules = sorted({ln.split('rule=')[1].split()[0] for ln in o.splitlines() if ln.strip().startswith('rule=')})
                errs = sorted({ln.split('rule=')[1].split()[0] for ln in o.splitlines() if ln.startswith('ANALYSIS-ERROR') and 'rule=' in ln})
                caught[p] = {'exit': c, 'violations': rules, 'inconclusive': errs}
        res['caught_by'] = caught
        res['detected'] = any(v['exit'] == 1 for v in caught.values())
        res['detected_by_target'] = bool(target and caught.get(target, {}).get('exit') == 1)
        return res
    finally:
        shutil.rmtree(clean, ignore_errors=True)
        shutil.rmtree(patched, ignore_errors=True)


def main() -> int:
    args = sys.argv[1:]
    no_suite = '--no-suite' in args
    args = [a for a in args if a != '--no-suite']
    if args and args[0] == '--kept':
        cands = sorted(p for p in (HERE / 'seeded').iterdir() if p.is_dir())
    else:
        cands = [Path(a).resolve() for a in args]
    with cf.ThreadPoolExecutor(max_workers=8) as ex:
        for r in ex.map(lambda c: evaluate(c, run_suite=not no_suite), cands):
            print(json.dumps(r))
            sys.stdout.flush()
    return 0


if __name__ == '__main__':
    sys.exit(main())
