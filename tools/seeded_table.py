#!/venv/bin/python
"""Print the DESIGN.md table of kept seeded changes from seeded/*/meta.json."""
import json
import re
from pathlib import Path

HERE = Path(__file__).resolve().parent.parent


def key(p: Path):
    m = re.match(r'C(\d\d)-(?:(r\d+)-)?(\d+)', p.name)
    return (m.group(2) or 'r1', int(m.group(1)), int(m.group(3)))


def main() -> None:
    print('| id | property | change (agent\'s summary) | reported by (property: rules) |')
    print('|---|---|---|---|')
    for d in sorted((p for p in (HERE / 'seeded').iterdir() if p.is_dir()), key=key):
        m = json.loads((d / 'meta.json').read_text())
        what = re.sub(r'\s+', ' ', (m.get('what') or '').replace('|', '/'))[:200]
        by = '; '.join(f"{p}: {', '.join(r)}" for p, r in sorted((m.get('detected_by') or {}).items()))
        print(f"| `{m['id']}` | {m['property']} | {what} | {by} |")


if __name__ == '__main__':
    main()
