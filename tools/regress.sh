#!/bin/bash
# Regression of the checker itself: self-test variants, kept seeded changes (must be reported by the target
# property), kept behaviour-preserving refactorings (must not be reported).
cd "$(dirname "$0")/.."
echo "== selftest variants"; /venv/bin/python -m selftest.battery 2>&1 | grep -v KNOWN-FINDING | tail -3
echo "== seeded changes (expected: all CAUGHT by target)"
/venv/bin/python tools/eval_seeded.py --no-suite $(ls -d seeded/*/) | /venv/bin/python -c "
import sys, json
n=c=0
for l in sys.stdin:
    r=json.loads(l); n+=1
    if r.get('detected_by_target'): c+=1
    else: print('  MISSED', r['candidate'], {k:(v['violations'] or ['I:'+x for x in v['inconclusive']]) for k,v in r.get('caught_by',{}).items()})
print(f'  {c}/{n} reported by the target property')
"
echo "== refactorings (expected: no FALSE-ALARM)"
out=$(mktemp); /venv/bin/python tools/eval_refactors.py --kept > "$out"; awk '{print "  "$0}' "$out" | cut -c1-400 | grep -v " silent " ; awk '{c[$2]++} END {for (k in c) print "  "k": "c[k]}' "$out"; rm -f "$out"
