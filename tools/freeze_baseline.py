#!/venv/bin/python
"""Freeze the statement fingerprints of /repo's current tree as the reference for Repo.rewritten (fsa/baseline.json).
Run after a change to /repo has been accepted as the new reference (e.g. a `fix:` commit), never as part of a check."""
import json, sys
from pathlib import Path
HERE = Path(__file__).resolve().parent.parent
sys.path.insert(0, str(HERE))
from fsa.source import Repo  # noqa: E402

r = Repo('/repo')
(HERE / 'fsa' / 'baseline.json').write_text(json.dumps(r.fingerprints, indent=0, sort_keys=True) + '\n')
print(f'{len(r.fingerprints)} functions frozen')
