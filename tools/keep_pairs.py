#!/venv/bin/python
"""Confirm and keep (bad, good) pairs produced by the round-4 sub-agents.

    tools/keep_pairs.py /tmp/r4_out/C05/1 [...]

<dir>/bad  (patch.diff, demo.py, notes.md)  -> /verif/seeded/<Cxx>-r4-<n>/     if the patch applies to a scratch copy of /repo's
           HEAD, demo.py exits 0 clean and non-zero patched, and the suite (minus tests/test_fortran.py) passes patched;
<dir>/good (patch.diff, notes.md)           -> /verif/refactors/G-<Cxx>-<n>/   if the patch applies, the suite passes and the
           bad version's demo.py exits 0 on it.
"""

import json
import os
import shutil
import sys
from pathlib import Path

HERE = Path(__file__).resolve().parent.parent
ROUND = os.environ.get('ROUND', 'r4')                 # r4 -> seeded/Cxx-r4-n + refactors/G-Cxx-n ; r5 -> Cxx-r5-n + H-Cxx-n
GOODTAG = {'r4': 'G', 'r5': 'H', 'r6': 'J'}.get(ROUND, 'G')
sys.path.insert(0, str(HERE / 'tools'))
import eval_seeded  # noqa: E402
import keep_seeded  # noqa: E402


def main() -> int:
    for a in sys.argv[1:]:
        d = Path(a).resolve()
        pid, n = d.parent.name, d.name
        bad, good = d / 'bad', d / 'good'
        # -- bad
        if (bad / 'patch.diff').exists() and (bad / 'demo.py').exists():
            (bad / 'meta.json').write_text(json.dumps({'property': pid}))
            r = eval_seeded.evaluate(bad)
            valid = r.get('applies') and r.get('demo_clean') == 0 and r.get('demo_patched') not in (0, None) and r.get('suite_ok')
            if valid:
                dest = HERE / 'seeded' / f'{pid}-{ROUND}-{n}'
                dest.mkdir(exist_ok=True)
                for f in ('patch.diff', 'demo.py', 'notes.md'):
                    if (bad / f).exists():
                        shutil.copy(bad / f, dest / f)
                meta = {
                    'id': dest.name, 'property': pid,
                    'origin': 'independent sub-agent given only the property text and a scratch worktree of /repo (round %s: delivered together with a repaired twin, refactors/%s-%s-%s)' % (ROUND[1:], GOODTAG, pid, n),
                    'what': keep_seeded.first_line(bad / 'notes.md'), 'needs_to_manifest': keep_seeded.needs_of(bad / 'notes.md'),
                    'confirmed_on_repo_head': keep_seeded.head(),
                    'ran': ['scratch copy of /repo HEAD (git archive) + `git apply patch.diff`',
                            f'demo.py on clean copy -> exit {r.get("demo_clean")}; on patched copy -> exit {r.get("demo_patched")} {r.get("demo_patched_tail")}',
                            f'pytest --ignore=tests/test_fortran.py on patched copy -> {r.get("suite_patched")}',
                            'FSIC_REPO=<patched copy> ./check Cxx --tier quick for all 20 properties'],
                    'valid': True,
                    'detected_by': {k: v['violations'] for k, v in r.get('caught_by', {}).items() if v['exit'] == 1},
                    'detected_by_target_property': bool(r.get('detected_by_target')),
                }
                (dest / 'meta.json').write_text(json.dumps(meta, indent=1) + '\n')
                inc = {k: v['inconclusive'] for k, v in r.get('caught_by', {}).items() if v['exit'] == 2}
                print(f'KEPT-BAD {dest.name}: target={"CAUGHT" if r.get("detected_by_target") else "MISSED"} by={meta["detected_by"]} inconclusive={inc}')
            else:
                print(f'REJECTED-BAD {pid}-{n}: applies={r.get("applies")} demo={r.get("demo_clean")}/{r.get("demo_patched")} suite={r.get("suite_patched")} {r.get("error", "")[:100]}')
        else:
            print(f'SKIP-BAD {pid}-{n}: files missing')
        # -- good
        if (good / 'patch.diff').exists():
            sc = eval_seeded.scratch_copy()
            try:
                code, out = eval_seeded.sh(['patch', '-p1', '-s', '-i', str(good / 'patch.diff')], cwd=str(sc))
                if code != 0:
                    print(f'REJECTED-GOOD {pid}-{n}: does not apply')
                    continue
                code, out = eval_seeded.sh(['/venv/bin/python', '-m', 'pytest', '-q', '-p', 'no:cacheprovider', '--timeout=900', '--ignore=tests/test_fortran.py'], cwd=str(sc))
                tail = out.strip().splitlines()[-1] if out.strip() else ''
                if code != 0:
                    print(f'REJECTED-GOOD {pid}-{n}: suite fails: {tail}')
                    continue
                dc = None
                if (bad / 'demo.py').exists():
                    import os
                    dc, _o = eval_seeded.sh(['/venv/bin/python', str(bad / 'demo.py')], cwd=str(sc), env=dict(os.environ, FSIC_SRC=str(sc), PYTHONDONTWRITEBYTECODE='1'), timeout=600)
                if dc not in (0, None):
                    print(f'REJECTED-GOOD {pid}-{n}: the demo exits {dc} on the good version')
                    continue
                dest = HERE / 'refactors' / f'{GOODTAG}-{pid}-{n}'
                dest.mkdir(parents=True, exist_ok=True)
                shutil.copy(good / 'patch.diff', dest / 'patch.diff')
                if (good / 'notes.md').exists():
                    shutil.copy(good / 'notes.md', dest / 'notes.md')
                print(f'KEPT-GOOD {GOODTAG}-{pid}-{n}: {tail}; demo={dc}')
            finally:
                shutil.rmtree(sc, ignore_errors=True)
        else:
            print(f'SKIP-GOOD {pid}-{n}: patch missing')
    return 0


if __name__ == '__main__':
    sys.exit(main())
