#!/bin/bash
# Behaviour-preserving mechanical edits of /repo's HEAD, each run through all twenty checks (scratch copies under $TMPDIR):
#   1. every local variable of every function renamed on its own (one variant per (function, local));
#   2. the whole package reformatted (ruff format, another line length) and 3. passed through ast.unparse (comments dropped).
# Prints the variants on which some check reports a VIOLATION (expected: none) and the count of "not decided" answers.
cd "$(dirname "$0")/.."
out=$(mktemp)
/venv/bin/python tools/rename_one.py list | xargs -P 16 -L 1 tools/rename_run.sh > "$out" 2>&1
echo "single renames: $(wc -l < "$out") variants, $(grep -c 'V: C' "$out") reported, $(grep -c 'I: C' "$out") not decided"
grep 'V: C' "$out"
# 4. one site at a time: an if/else with its test negated and its branches swapped; a comparison with its operands the other
#    way round; a returned expression first put into a local; `x += n` written `x = x + n`; `not (a and b)` written
#    `(not a) or (not b)` and `if a and b:` written as two nested ifs
out2=$(mktemp)
(for k in swap flip temp temp2 aug demorgan; do /venv/bin/python tools/mech_one.py list $k; done) | xargs -P 16 -L 1 tools/mech_run.sh > "$out2" 2>&1
echo "single-site rewrites: $(grep -c ' | V:' "$out2") variants, $(grep -c 'V: C' "$out2") reported, $(grep -c 'I: C' "$out2") not decided"
grep 'V: C' "$out2"; rm -f "$out2"
for mode in format unparse; do
  d=$(mktemp -d); (cd $d && git -C /repo archive HEAD | tar -x)
  if [ $mode = format ]; then /venv/bin/ruff format --line-length 100 $d/fsic >/dev/null 2>&1; else /venv/bin/python - $d <<'PY'
import ast, glob, sys
for f in glob.glob(sys.argv[1] + '/fsic/**/*.py', recursive=True):
    open(f, 'w').write(ast.unparse(ast.parse(open(f).read())) + '\n')
PY
  fi
  bad=""; for c in $(seq -w 1 20); do FSIC_REPO=$d FSA_OUT=$d/out ./check C$c > $d/o.txt 2>&1 || bad="$bad C$c"; done
  echo "$mode: checks not HOLDS:${bad:- none}"; rm -rf $d
done
rm -f "$out"
