# Executed by gen_manifest.py: one claim() per property whose rule module exists.
claim(
    'C02',
    'CFG dominance, guards, reaching definitions, definite assignment, affine/comparison normal forms, forwarding table',
    'Decides, for all paths of BaseModel.solve_t / SolverMixin.solve_period in the current source: the min/max ValueError '
    'and the out-of-span offset IndexErrors precede every effect; offset guards and copy in integer canonical form; pass '
    'counter ranges over 1..max_iter and is the iteration= argument; the min_iter gate guards the convergence test; the '
    'convergence predicate is all(|current - previous| < tol) with current/previous identified by reaching definitions; '
    'exit table (status constant, iterations value, return expression, NonConvergenceError guard) per exit; definite '
    'assignment incl. the zero-trip loop; hook placement; identity forwarding in solve_period. Does not decide float '
    'convergence behaviour or which pass converges first.',
    'DESIGN.md 4 C02',
)
