# Executed by gen_manifest.py: one claim() per property whose rule module exists.
claim(
    'C02',
    'CFG dominance, guard facts with entailment (unit propagation through compound tests), reaching definitions, definite assignment, affine/comparison normal forms, path-sensitive exit table, helper methods read in place',
    'Decides, for all paths of BaseModel.solve_t / SolverMixin.solve_period in the current source: the min/max ValueError '
    'and the out-of-span offset IndexErrors precede every effect; offset guards and copy in integer canonical form; pass '
    'counter ranges over 1..max_iter and is the iteration= argument; the min_iter gate guards the convergence test; the '
    'convergence predicate is all(|current - previous| < tol) with current/previous identified by reaching definitions; '
    'exit table (status constant, iterations value, return expression, NonConvergenceError guard) per exit; definite '
    'assignment incl. the zero-trip loop; hook placement; identity forwarding in solve_period. Does not decide float '
    'convergence behaviour or which pass converges first.',
    'DESIGN.md 4 C02',
)
claim(
    'C01',
    'string-shape summaries per branch, regex-AST facts (re._parser), reaching definitions, namespace binding, taint of reordering combinators, memo-key completeness (sources of the cached value vs sources of the key), class-private name mangling of generated attribute names',
    'Decides on the current source: the rendering table of Term.__str__/Term.code per guarded branch (sign shown = sign written, no '
    'index = [t], self._NAME access, exact-key function replacement, verbatim stripping, named-period access); the replacement table '
    'and that every name the generated class needs is bound in the exec namespace; that normalised equation and code are one '
    'template formatted over one term list; index parsing (implicit 0, int of the whole INDEX group); structural facts of term_re '
    '(alternation priorities, word boundaries, keyword language, lookahead, identifier classes, optional whitespace); no reordering '
    'on the symbol flow; a term cache is keyed by everything the term is computed from; generated attribute access is never `self.__name` (mangled in the class body); every generated statement is one single-target assignment (C01.R7 = C13.R5b). Does not decide that the regex tokenises every program nor NumPy results.',
    'DESIGN.md 4 C01',
)
claim(
    'C03',
    'decision-table extraction from guards, enum folding, affine normal forms, twin AST agreement',
    'Decides: LHS->ENDOGENOUS / RHS->EXOGENOUS tagging at the first `=`; promotion = max over Type restricted on both operands, '
    'enum order; lag/lead combination table incl. the implicit 0; double-definition ParserError on equation and code; name lists '
    'per type, NAMES order and field mapping in both templates, |min lags| / |max leads|, floors only in the `is None` branch, '
    'agreement with build_fortran_definition; insertion-ordered merge; default range span[lags]..span[-1-leads] inclusive (both '
    'engines). Does not decide that term_re finds every mention.',
    'DESIGN.md 4 C03',
)
claim(
    'C04',
    'index discipline in affine form, effect-free rejection paths (CFG reachability x effect summaries), guard dominance, Fortran-template reader',
    'Decides: every series element store/load in the five solver functions addresses the period being solved (t, or t+offset only '
    'as the source of the guarded copy); only self.endogenous series are written; Fortran template writes only column `index`; every '
    'up-front rejection has no effect node on any entry->raise path (K2 recorded); the lags/leads feasibility guard exists, raises '
    'IndexError and dominates the first evaluation in Python and in both Fortran routines; default range and rendered offsets by '
    'cross-reference to C03.R7/C01.R1. Does not decide what verbatim code reads or writes.',
    'DESIGN.md 4 C04',
)
claim(
    'C06',
    'reaching definitions of status stores, path-sensitive policy table on the flag product graph (last-pass outcome included), non-finite facts by entailment, handler discipline, sibling agreement of filter selection',
    'Decides: status alphabet (folded enum) and that every value stored into a status series package-wide is an enum reference; the '
    'per-errors= row of the non-finite branch (stores, exception class, loop exit, last-pass test, ValueError default); ordering '
    'previous-nonfinite -> current-nonfinite -> convergence by guards; each user-code call wrapped in try/except Exception raising '
    'SolutionError from e (+E bookkeeping), package-wide `from e`; pre-existing rejection dominance; the three warnings-filter '
    'selections agree with the table. Does not decide which NumPy operations warn.',
    'DESIGN.md 4 C06',
)
claim(
    'C08',
    'CFG order/dominance of per-iteration steps, shared convergence matcher, reaching definitions of stamps, dead-option detection',
    'Decides for BaseLinker.solve_t/evaluate_t/__init__: pre-hook, submodel passes, post-hook once per iteration in that order with '
    'the selection forwarded; one _evaluate and one counter increment per selected submodel; convergence = all |current-previous| < '
    'tol over linker and selected submodels, min_iter gate, 1..max_iter; same status stamped on linker and selection, counters reset; '
    'KeyError discipline; span comparison idiom (label-by-label comparison needs the length test); LAGS/LEADS maxima; definite assignment; every option read (offset: K4); the own check values of the linker keyed apart from those of the submodels; a NaN movement never counts as settled; the same up-front rejections as a single model (C08.R9; non-finite policy: K8). Does not '
    'decide numerical equality with the bare model.',
    'DESIGN.md 4 C08',
)
claim(
    'C13',
    'who-may-exec provenance (through compile), format-string taint and field-count guard, exception-escape summaries with handler modelling and decided beliefs (regex-AST anchoring of the fenced-block alternative), result-dictionary store discipline (merge / insert / overwrite), __init__-chain event layout and storage-slot collisions, end-of-input guard coverage, who-may-call table of outside effects over the parse/build call graph',
    'Decides: exec/eval occur in fsic/parser.py only in build_model on the text returned by build_model_definition; user text reaches '
    'str.format only brace-escaped; the set of exception classes that can escape parse_model over its call graph (explicit raises, '
    'asserts, raiser table) is within ParserError/SymbolError/IndentationError, each other site discharged by a named static fact; '
    'names reserved by the BaseModel __init__ chain or whose storage slot (underscore + name) is taken vs names the parser knows (K5: ten entries); no call on the parse/build call graph that a string input can reach touches files, the OS, interpreter-wide settings or the warnings filters outside catch_warnings (C13.R8); a statement without a left-hand '
    'variable and a statement that is not one single-target Assign are rejected; no while loop/recursion; every conjunct of the '
    'completion predicate has an end-of-input rejection. Does not decide regex backtracking or instantiation success beyond reserved names.',
    'DESIGN.md 4 C13',
)
claim(
    'C14',
    'loop-carried dataflow, module-level write detection over the parser call graph, regex-AST whitespace facts, ordered normalisation passes',
    'Thin by nature (metamorphic over all programs x layouts). Decides: parse_equation receives the current statement alone and no '
    'function in the parser call graph writes module-level or nonlocal state (statements are parsed independently; merge = left fold of '
    'C03.R6); comments stripped from every physical line, blank statements skipped; optional whitespace inside braces, angle brackets, '
    'index brackets and before `(` (term_re AST); the three template normalisation passes exist, whitespace collapse first, before '
    'format(); explicit [0] = no index. Does not decide equality of parses under every whitespace insertion nor idempotence of the normal form.',
    'DESIGN.md 4 C14',
)
claim(
    'C15',
    'template twin AST equality modulo annotations, field-set agreement, exec provenance by CFG reachability, forwarding table',
    'Decides: typed and untyped templates are the same class after erasing annotations; both use the same fields and format() supplies '
    'exactly them; build_model forwards all six options unchanged, the exec of the full text dominates the return, no other exec and no '
    'handler of that exec can reach the return, CODE is the executed text; the converter is applied once per endogenous/verbatim symbol '
    'with equation and code, its output only indented and joined, default converter iff None, empty block -> pass. Does not decide '
    'behavioural identity on data.',
    'DESIGN.md 4 C15',
)
claim(
    'C20',
    'same-object tokeniser identity, split agreement, edge direction from loop provenance, fresh-result discipline for memoised builders',
    'Thin. Decides: symbols_to_graph uses the term_re imported from the parser (no private regex), splits at the first `=`, adds the '
    'left-hand terms as nodes carrying the equation and an edge from every right-hand term to every left-hand term in a DiGraph; '
    'with C01.R3 (same template, same term list for equation and code) the right-hand terms of the normalised equation are the series '
    'elements the statement reads. Does not decide the perturbation semantics.',
    'DESIGN.md 4 C20',
)
claim(
    'C05',
    'loop-shape and forwarding tables, effect confinement in the period loop, validation dominance on read-through facts, unpack-of-empty guard, NumPy-scalar provenance lattice',
    'Decides: solve() of models and linkers iterates iter_periods(start, end, **kwargs) and calls solve_t exactly once per period with the '
    'position and all options forwarded unchanged, stores flag/position/label per index, has no try/break/other effect in the loop; '
    'iter_periods rejects an empty span first, pairs positions and labels over the same bounds, default range span[lags]..span[-1-leads]; '
    'label validation precedes any solving; package-defined span-search methods return a Python int (what the isinstance(..., int) '
    'consumers require). Containment follows with C04.R1 (re-evaluated here). Does not decide list/pandas index semantics.',
    'DESIGN.md 4 C05',
)
claim(
    'C09',
    'who-may-write of backing arrays, shape provenance x DimensionError guard dominance, effect-free raise paths, strict guard table, MRO-resolved values/size agreement',
    'Decides: only four audited statements replace a series backing array, each storing an array that is 1-D of len(span) by '
    'construction or behind ndim/length guards; replacements take the old dtype; no effect on any path to a raise in add_variable/'
    '__setattr__/add_attribute; the strict guard has exactly the documented exemptions and dominates attribute creation; values and size '
    'range over the same name list per class (BaseLinker: K7); the (name, label) paths and add_variable check the name / the storage slot before anything is set; properties with setters are exempt from the strict guard. Does not decide NumPy casting.',
    'DESIGN.md 4 C09',
)
claim(
    'C10',
    'decision-tree reading of (base, selector, guards) per access with conditionals lifted out of values, get/set sibling agreement, handler discipline, interval reasoning on match counts, type admission of fallbacks',
    'Thin (library indexing semantics dominate). Decides: open slice ends default to the span ends, start/stop located separately, +1 '
    'exactly when the located stop is not a slice; __getitem__/__setitem__ resolve tuple keys identically and apply the same subscripts '
    'to the same array; every lookup failure is re-raised as KeyError(period) from e and no path returns a default position; fallback: '
    '0 matches KeyError, 1 match position, several refused, the label compared as one value (no broadcasting of tuple labels); a fallback from a label to a collection of labels admits unhashable types only; item-access wrappers pass the index through (C10.R4 = C18.R1). Does not decide what list.index/get_loc select.',
    'DESIGN.md 4 C10',
)
claim(
    'C11',
    'copy-route table, copy completeness, alias/escape analysis of class-level mutables per reaching definition, write detection on module/class objects',
    'Decides: classes defining copy() bind __copy__/__deepcopy__ to it; copy() deep-copies every __dict__ entry (exclusions passed to the '
    'constructor deep-copied); every read of a class-level mutable attribute via self/cls is copied before it is stored, registered, '
    'passed to a constructor or returned (direct uses and local aliases); no mutable defaults; module/class-level mutable objects are '
    'never written. Does not decide observational equality of copies.',
    'DESIGN.md 4 C11',
)
claim(
    'C12',
    'fresh-object provenance, effect detection on self and on class-level tables, dtype dispatch table from guards, layered defaults with precedence, writer/reader agreement of defaults, direction of the position pairs at construction and consumption',
    'Decides: the result is self.copy() and nothing writes the original; bool/int/str series default to False/0/\'\' (else coerced), others '
    'NaN via np.full(len(new span)); model defaults for status/iterations equal ModelInterface.__init__\'s initial values and keep caller '
    'fills; per-variable fill precedence; strict resolution and rejection before the copy; the new->old position map is built and '
    'consumed without crossing, the old values read from the copy (no shared elements of object series); no per-class memoised table is changed by a call; the pandas twin keeps the base result on default arguments. Does not decide label matching for repeated labels nor pandas Series.reindex.',
    'DESIGN.md 4 C12',
)
claim(
    'C16',
    'fresh-vs-parameter provenance of in-place stores, delegation tables, slice-bound sign under guard facts, ordered namespace population by dominance, label provenance, module-state write detection',
    'Decides: helpers never store into their input; lag/lead/dlog delegate with the stated arguments; shift refills the right end per '
    'sign; diff returns x - lag(x, d) (d == 0 shortcut: K6); eval populates helper table -> variables -> caller locals, deep-copies the '
    'default helper table, never writes the container, maps NameError to AttributeError from e naming the variable; the inclusive +1 in '
    'expression indexes applies only to backticked-label integer stops, and an index without any backtick is left as written. Does not decide numeric values at boundary shifts.',
    'DESIGN.md 4 C16',
)
claim(
    'C17',
    'wrapper transparency (single base call on every path, identity forwarding), guard on trace, effect confinement, call order',
    'Decides: each TracerMixin wrapper calls its base exactly once on every path, outside any try, forwarding t, *args, trace, reset, '
    '(iteration,) **kwargs unchanged, solve_t returning that value; every trace_t call is under `if trace:`; trace_t/Trace write only the '
    'trace element at t and Trace attributes from a fresh snapshot; labels start/before/0/pass/end are ordered around the base calls as '
    'stated. Does not decide snapshot contents.',
    'DESIGN.md 4 C17',
)
claim(
    'C18',
    'wrapper resolution tables, no-storage effect summary, funnel audit of bulk operations, export return shapes',
    'Decides: the four AliasMixin dunders resolve only the name and pass the rest unchanged, returning the base result; constructor '
    'kwargs re-keyed after the alias map exists; chain shortening to a fixpoint, self-maps dropped; no storage created by the mixin; bulk '
    'operations reach the backing store only through the overridden dunders or with canonical names; to_dataframe returns the base frame '
    'or a column rename. Does not decide equality of operation histories.',
    'DESIGN.md 4 C18',
)
claim(
    'C19',
    'gated per-field restore values (missing -> None by the field\'s own value), per-variable frame construction read at default options, flag forwarding tables, method-dispatch of exports',
    'Thin (pandas coercions dominate). Decides: every Optional field of Symbol is restored to None on import; model_to_dataframe builds '
    'one column per variable from model[k] over model.names (underscore filter exactly when include_internal is false), indexed by span, '
    'status/iterations under their flags; linker export one frame per submodel plus the linker with flags forwarded unchanged; '
    'from_dataframe passes the index as span and column values by name. Does not decide value fidelity inside pandas.',
    'DESIGN.md 4 C19',
)
claim(
    'C07',
    'static reader of the Fortran template (declarations + per-subroutine CFG), FFI argument/result agreement, index-base flow, code-table and exception agreement, twin control skeleton',
    'Decides from the source alone (the template is a string constant; nothing is compiled): variable numbering from 1 in NAMES order; '
    'positional actuals of the three self.ENGINE calls vs intent(in) dummies (f2py order) and result tuples vs intent(out); every integer '
    'dummy that flows into an array subscript receives an `e + 1` actual; option/error code tables agree and each code surfaces as the '
    'exception class the Python engine raises; the control skeleton of Fortran solve_t/solve matches the Python solver after 1-based '
    'normalisation (reverse index, offset guards and copy, pre-existing check, 1..max_iter, min_iter gate, strict all-abs test, '
    'exhausted count, early stops); shape of the NAME[idx] rewrite; numeric-literal kinds (K3). Does not decide that the generated '
    'file compiles, floating-point agreement, line wrapping or f2py marshalling.',
    'DESIGN.md 4 C07',
)
