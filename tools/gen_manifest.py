#!/venv/bin/python
"""Regenerate MANIFEST.json from the table below (one entry per property)."""

import json
import sys
from pathlib import Path

HERE = Path(__file__).resolve().parent.parent
BASELINE = json.loads(Path('/root/.vp/BASELINE.json').read_text())

NOTE = (
    'Assumptions A1-A4 of DESIGN 3.7: explicit raises and try bodies are the only exceptional CFG edges; NumPy/pandas/re '
    'behave as documented; classes are composed only by the enumerated MROs; no resource exhaustion or monkey-patching. '
    'Trusted base: CPython ast / re._parser of /venv/bin/python, the rule tables in /verif/rules. The check decides the '
    'structural clauses listed; it does not decide value-level (float, pandas, regex-language) behaviour.'
)

# property -> (technique, level text, design ref)   ; properties absent here are listed under not_applicable
CLAIMS = {}


TECH_SUFFIX = ('; cache analysis on the source as written (rule Cxx.M: lookup / miss test / store protocol, every leaf the kept value is computed from '
               'against the key and tag material, escape of the kept object); verdict policy over statement fingerprints of the reference tree '
               '(a mismatch with an expected form in a function rewritten since is reported as not decided, exit 2, never as a violation)')


def claim(pid, technique, text, ref):
    CLAIMS[pid] = (technique, text, ref)


exec((HERE / 'tools' / 'claims.py').read_text())

PROPS = [f'C{i:02d}' for i in range(1, 21)]


def main() -> int:
    checks = []
    na = []
    for p in PROPS:
        if p in CLAIMS and (HERE / 'rules' / f'{p.lower()}.py').exists():
            tech, text, ref = CLAIMS[p]
            checks.append(
                {
                    'property_id': p,
                    'quick_cmd': f'./check {p} --tier quick',
                    'thorough_cmd': f'./check {p} --tier thorough',
                    'evidence_file': f'evidence/{p}.json',
                    'replay_cmd_template': './check --explain {path}',
                    'engine': 'fsa',
                    'level_claimed': {'category': 'other', 'text': text, 'design_ref': ref},
                    'level_note': NOTE,
                    'technique': tech + TECH_SUFFIX.replace('Cxx', p),
                }
            )
        else:
            na.append({'property_id': p, 'reason': NA.get(p, 'static check not built yet (build in progress; see DESIGN.md section 4)')})
    man = {
        'version': 1,
        'setup_cmd': './check --selfcheck',
        'hooks': {
            'guard': 'FSIC_VERIF',
            'enable': 'none: static analysis reads the source of /repo; no instrumentation is compiled in',
            'baseline_off_cmd': BASELINE['cmd'],
            'source_commits': [],
            'add_only': True,
        },
        'engines': [
            {
                'name': 'fsa',
                'path': 'fsa/',
                'serves_properties': [c['property_id'] for c in checks],
                'kind_free_text': 'repository-specific static analysis (stdlib ast): statement CFG, dominators, guards, '
                'reaching definitions, definite assignment, effect summaries, exception-escape summaries, forwarding '
                'tables, regex-AST facts, Fortran-template reader, twin/table agreement',
            }
        ],
        'checks': checks,
        'notes': 'All checks are static: they parse /repo/fsic on every run and never import or execute it. Exit 2 + '
        'ANALYSIS-ERROR = inconclusive (unknown idiom / vanished anchor), never reported as a violation. Known findings: '
        'known_findings.json. Self-test of the checker: /venv/bin/python -m selftest.battery.',
        'not_applicable': na,
    }
    (HERE / 'MANIFEST.json').write_text(json.dumps(man, indent=1) + '\n')
    print(f'MANIFEST.json: {len(checks)} checks, {len(na)} not_applicable')
    return 0


NA = {}

if __name__ == '__main__':
    sys.exit(main())
