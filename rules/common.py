"""Generic per-function analysis bundle used by the rule modules."""

from __future__ import annotations

import ast
from typing import Dict, Iterable, List, Optional, Set, Tuple

from fsa.cfg import CFG, Node, raised_class
from fsa.flow import LocalFlow, PARAM, dominators, guards, node_expr_roots
from fsa.match import conj_atoms, disj_atoms, dotted, nnf_atoms, substitute
from fsa.source import AnchorMissing, FunctionInfo, Repo, Unsupported, iter_own_nodes, text
from rules.solver_common import fsic_hierarchy


class VDef:
    """One (possibly guarded) definition of a local: node, value expression, facts known when it applies, aug-op."""

    def __init__(self, node, value, facts, op=None) -> None:
        self.node, self.value, self.facts, self.op = node, value, facts, op

    def knows(self, src: str, truth: bool = True) -> bool:
        from fsa.match import has_fact
        return has_fact(self.facts, src, truth)


class Fn:
    def __init__(self, R, qualname: str) -> None:
        self.R = R
        self.repo: Repo = R.repo
        self.q = qualname
        self.fi: FunctionInfo = self.repo.func(qualname)
        self.cfg = CFG(self.fi.node, fsic_hierarchy(self.repo))
        self.lf = LocalFlow(self.cfg, self.fi.params())
        self.dom = dominators(self.cfg)
        self._g: Dict[int, List[Tuple[int, str]]] = {}
        R.saw_function(self.fi, self.cfg)

    def guards_of(self, nid: int) -> List[Tuple[int, str]]:
        if nid not in self._g:
            self._g[nid] = guards(self.cfg, nid)
        return self._g[nid]

    def guard_atoms(self, nid: int) -> List[Tuple[ast.AST, bool, Node]]:
        out = []
        for (tid, lab) in self.guards_of(nid):
            tn = self.cfg.nodes[tid]
            if tn.kind != 'test':
                continue
            if lab in ('T', 'F'):
                for (a, truth) in nnf_atoms(tn.ast, lab == 'T'):
                    out.append((a, truth, tn))
        return out

    def expand(self, nid: int, e: ast.AST, depth: int = 4, stop=()) -> ast.AST:
        """`e` with every local that has exactly one reaching definition at node `nid`, bound to a pure
        expression, replaced by that expression (recursively): `x = a + b; f(x)` is read as `f(a + b)`."""
        if depth <= 0:
            return e
        mapping = {}
        for x in ast.walk(e):
            if isinstance(x, ast.Name) and isinstance(x.ctx, ast.Load) and x.id in self.lf.locals and x.id not in stop and x.id not in mapping:
                vals = self.lf.values_reaching(nid, x.id)
                if len(vals) == 1 and vals[0][0] != PARAM and vals[0][1] is not None:
                    site, v = vals[0]
                    if not any(isinstance(y, (ast.Yield, ast.Await, ast.NamedExpr, ast.Lambda, ast.ListComp, ast.DictComp, ast.SetComp, ast.GeneratorExp)) for y in ast.walk(v)):
                        mapping[x.id] = self.expand(site, v, depth - 1, stop)
        return substitute(e, mapping) if mapping else e

    def holds(self, nid: int, src: str, truth: bool = True) -> bool:
        """Is the fact `src` known to have value `truth` on every path to node `nid`?"""
        from fsa.match import has_fact
        return has_fact(self.guard_atoms(nid), src, truth)

    def etext(self, nid: int, e: ast.AST, stop=()) -> str:
        return text(self.expand(nid, e, stop=stop))

    def where(self, n) -> str:
        ln = n.lineno if hasattr(n, 'lineno') else 0
        return f'{self.fi.module.relpath}:{ln}'

    def returns(self) -> List[Node]:
        return [n for n in self.cfg.nodes if n.kind == 'stmt' and isinstance(n.ast, ast.Return)]

    def raises(self, cls: Optional[str] = None) -> List[Node]:
        return [n for n in self.cfg.nodes if n.kind == 'stmt' and isinstance(n.ast, ast.Raise)
                and (cls is None or raised_class(n.ast) == cls)]

    def tests(self) -> List[Node]:
        return [n for n in self.cfg.nodes if n.kind == 'test']

    def nodes_with(self, pred) -> List[Node]:
        out = []
        for n in self.cfg.nodes:
            if n.ast is None:
                continue
            for root in node_expr_roots(n):
                if isinstance(root, (ast.FunctionDef, ast.ClassDef)):
                    continue
                if any(pred(x) for x in ast.walk(root)):
                    out.append(n)
                    break
        return out

    def assigns_to(self, name: str) -> List[Node]:
        out = []
        for n in self.cfg.nodes:
            a = n.ast
            if n.kind == 'stmt' and isinstance(a, (ast.Assign, ast.AnnAssign, ast.AugAssign)):
                tg = a.targets if isinstance(a, ast.Assign) else [a.target]
                if any(isinstance(t, ast.Name) and t.id == name for t in tg):
                    out.append(n)
        return out

    # -- virtual definitions: tuple unpacking is split element-wise, conditional expressions into guarded arms
    def vdefs(self, name: str) -> List['VDef']:
        out: List[VDef] = []
        for n in self.cfg.nodes:
            a = n.ast
            if n.kind != 'stmt' or a is None:
                continue
            pairs = []  # (value expr or None, aug op)
            if isinstance(a, ast.Assign):
                for t in a.targets:
                    if isinstance(t, ast.Name) and t.id == name:
                        pairs.append((a.value, None))
                    elif isinstance(t, (ast.Tuple, ast.List)) and isinstance(a.value, (ast.Tuple, ast.List)) and len(t.elts) == len(a.value.elts):
                        for te, ve in zip(t.elts, a.value.elts):
                            if isinstance(te, ast.Name) and te.id == name:
                                pairs.append((ve, None))
                    elif isinstance(t, (ast.Tuple, ast.List)) and any(isinstance(te, ast.Name) and te.id == name for te in t.elts):
                        idx = [i for i, te in enumerate(t.elts) if isinstance(te, ast.Name) and te.id == name][0]
                        pairs.append((ast.Subscript(value=a.value, slice=ast.Constant(value=idx), ctx=ast.Load()), None))
            elif isinstance(a, ast.AnnAssign) and isinstance(a.target, ast.Name) and a.target.id == name and a.value is not None:
                pairs.append((a.value, None))
            elif isinstance(a, ast.AugAssign) and isinstance(a.target, ast.Name) and a.target.id == name:
                pairs.append((a.value, a.op))
            for (v, op) in pairs:
                base = [(x, t) for (x, t, _tn) in self.guard_atoms(n.id)]
                arms = [(v, [])]
                if op is None and isinstance(v, ast.IfExp):
                    arms = [(v.body, nnf_atoms(v.test, True)), (v.orelse, nnf_atoms(v.test, False))]
                for (val, extra) in arms:
                    if op is None and isinstance(val, ast.Name) and val.id == name:
                        continue  # identity arm of `x = d if x is None else x`
                    out.append(VDef(n, val, base + list(extra), op))
        return out

    def path_to(self, n: Node) -> List[str]:
        p = self.cfg.some_path(self.cfg.entry, n.id)
        return self.cfg.describe_path(p) if p else []


def module_bound_names(repo: Repo, modname: str) -> Set[str]:
    mod = repo.module(modname)
    out: Set[str] = set()
    for stmt in mod.tree.body:
        if isinstance(stmt, (ast.Import, ast.ImportFrom)):
            for al in stmt.names:
                out.add((al.asname or al.name).split('.')[0])
        elif isinstance(stmt, (ast.FunctionDef, ast.ClassDef, ast.AsyncFunctionDef)):
            out.add(stmt.name)
        elif isinstance(stmt, ast.Assign):
            for t in stmt.targets:
                for x in ast.walk(t):
                    if isinstance(x, ast.Name):
                        out.add(x.id)
        elif isinstance(stmt, ast.AnnAssign) and isinstance(stmt.target, ast.Name):
            out.add(stmt.target.id)
    return out


def tainted_names(fnode: ast.AST, seeds: Iterable[str]) -> Set[str]:
    """Names data-dependent on `seeds` through assignments / loop targets /
    comprehension results (flow-insensitive closure)."""
    t = set(seeds)
    changed = True
    while changed:
        changed = False
        for n in ast.walk(fnode):
            tgt_names: List[str] = []
            src: Optional[ast.AST] = None
            if isinstance(n, ast.Assign):
                src = n.value
                for tg in n.targets:
                    for x in ast.walk(tg):
                        if isinstance(x, ast.Name):
                            tgt_names.append(x.id)
            elif isinstance(n, ast.AnnAssign) and n.value is not None:
                src = n.value
                tgt_names = [x.id for x in ast.walk(n.target) if isinstance(x, ast.Name)]
            elif isinstance(n, ast.AugAssign):
                src = n.value
                tgt_names = [x.id for x in ast.walk(n.target) if isinstance(x, ast.Name)]
            elif isinstance(n, (ast.For, ast.comprehension)):
                src = n.iter
                tgt_names = [x.id for x in ast.walk(n.target) if isinstance(x, ast.Name)]
            elif isinstance(n, ast.Call) and isinstance(n.func, ast.Attribute) and n.func.attr in ('append', 'extend', 'update', 'add') \
                    and isinstance(n.func.value, ast.Name):
                # x.append(tainted) taints x
                if any(isinstance(y, ast.Name) and y.id in t for a in n.args for y in ast.walk(a)):
                    if n.func.value.id not in t:
                        t.add(n.func.value.id)
                        changed = True
                continue
            elif isinstance(n, ast.Assign) or src is None:
                continue
            if src is None:
                continue
            if any(isinstance(y, ast.Name) and y.id in t for y in ast.walk(src)):
                for nm in tgt_names:
                    if nm not in t:
                        t.add(nm)
                        changed = True
            # subscript stores  d[k] = tainted  taint d
            if isinstance(n, ast.Assign):
                for tg in n.targets:
                    if isinstance(tg, ast.Subscript) and isinstance(tg.value, ast.Name):
                        if any(isinstance(y, ast.Name) and y.id in t for y in ast.walk(n.value)) and tg.value.id not in t:
                            t.add(tg.value.id)
                            changed = True
    return t


REORDERING_CALLS = {'sorted', 'reversed', 'set', 'frozenset', 'random.shuffle', 'random.sample', 'shuffle'}
REORDERING_METHODS = {'sort', 'reverse'}


def reordering_sites(fnode: ast.AST, tainted: Set[str]) -> List[ast.Call]:
    out = []
    for n in ast.walk(fnode):
        if not isinstance(n, ast.Call):
            continue
        d = dotted(n.func)
        if d in REORDERING_CALLS:
            if any(isinstance(y, ast.Name) and y.id in tainted for a in n.args for y in ast.walk(a)):
                out.append(n)
        elif isinstance(n.func, ast.Attribute) and n.func.attr in REORDERING_METHODS:
            r = n.func.value
            if any(isinstance(y, ast.Name) and y.id in tainted for y in ast.walk(r)):
                out.append(n)
    return out


def thorough_compositions(R, rule_id: str, focus: Iterable[str] = ()) -> None:
    """Thorough tier: super()-chain resolution and keyword acceptance over every
    mixin composition (fsa/mro.py); `focus` = method names whose provider chain
    is recorded in the evidence."""
    from fsa.mro import check_composition, compositions
    from fsa.source import resolve_method

    def body() -> None:
        n = 0
        for sel, base, mro in compositions(R.repo):
            n += 1
            name = '(' + ', '.join(sel + (base,)) + ')'
            probs = check_composition(R.repo, mro)
            chain = {}
            for m in focus:
                provs = []
                after = None
                while True:
                    p = resolve_method(R.repo, mro, m, after=after)
                    if p is None:
                        break
                    provs.append(p.cls.name)
                    after = p.cls.qualname
                chain[m] = provs
            if not probs:
                R.ok(name, 'every super() call resolves to a provider that accepts its arguments', detail={'mro': [c.split('.')[-1] for c in mro], 'providers': chain})
            for (q, m, why) in probs:
                R.violation(name, f'super-chain:{q}:{m}', f'in composition {name}: `super().{m}(...)` in {q.split(".")[-2]}.{q.split(".")[-1]}: {why}')
        R.expect('compositions', n, 60, 'mixin compositions enumerated')

    R.rule(rule_id, body)
