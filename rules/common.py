"""Generic per-function analysis bundle used by the rule modules."""

from __future__ import annotations

import ast
from typing import Dict, Iterable, List, Optional, Set, Tuple

from fsa.cfg import CFG, Node, raised_class
from fsa.flow import LocalFlow, PARAM, dominators, guards, node_expr_roots
from fsa.match import conj_atoms, disj_atoms, dotted, is_const, kwarg, nnf_atoms, substitute
from fsa.source import AnchorMissing, FunctionInfo, Repo, Unsupported, iter_own_nodes, text
from rules.solver_common import fsic_hierarchy


class VDef:
    """One (possibly guarded) definition of a local: node, value expression, facts known when it applies, aug-op."""

    def __init__(self, node, value, facts, op=None) -> None:
        self.node, self.value, self.facts, self.op = node, value, facts, op

    def knows(self, src: str, truth: bool = True) -> bool:
        from fsa.match import has_fact
        return has_fact(self.facts, src, truth)


def is_call_(e, name: str) -> bool:
    return isinstance(e, ast.Call) and isinstance(e.func, ast.Name) and e.func.id == name


def pure_helpers(fi) -> Dict[str, Tuple[ast.FunctionDef, ast.AST]]:
    """One-expression helpers whose calls can be read as the expression they return: functions nested in `fi` or its enclosing
    function, module-level functions of the same module, methods of the same class (keyed `self.<name>`)."""
    from fsa.summ import summarise_return
    ph: Dict[str, Tuple[ast.FunctionDef, ast.AST]] = {}
    scopes = [fi.node] + ([fi.parent.node] if fi.parent is not None else [])
    encl_locals: Set[str] = set()
    for sc2 in scopes:
        encl_locals |= {x.id for x in iter_own_nodes(sc2) if isinstance(x, ast.Name) and isinstance(x.ctx, ast.Store)}
        encl_locals |= {a.arg for a in sc2.args.args + sc2.args.kwonlyargs + sc2.args.posonlyargs}
        if sc2.args.vararg:
            encl_locals.add(sc2.args.vararg.arg)
        if sc2.args.kwarg:
            encl_locals.add(sc2.args.kwarg.arg)
    # what a nested helper may close over and still be read at its call sites: parameters of the enclosing function
    # that are never rebound (the same value at definition and at every call)
    nested_free_ok: Set[str] = set()
    for sc2 in scopes:
        stored = {x.id for x in iter_own_nodes(sc2) if isinstance(x, ast.Name) and isinstance(x.ctx, (ast.Store, ast.Del))}
        for a in sc2.args.args + sc2.args.kwonlyargs + sc2.args.posonlyargs:
            if a.arg not in stored:
                nested_free_ok.add(a.arg)
    nested_locals = encl_locals - nested_free_ok
    for sc_ in scopes:
        for s_ in sc_.body:
            if isinstance(s_, ast.FunctionDef) and s_ is not fi.node and s_.name not in ph:
                rv = summarise_return(s_)
                if rv is None:
                    continue
                params = {a.arg for a in s_.args.args + s_.args.kwonlyargs + s_.args.posonlyargs}
                bound_inside = {x.id for x in ast.walk(rv) if isinstance(x, ast.Name) and isinstance(x.ctx, ast.Store)}
                free = {x.id for x in ast.walk(rv) if isinstance(x, ast.Name) and isinstance(x.ctx, ast.Load)} - params - bound_inside
                # closed over nothing but module-level names (no locals of the enclosing function): safe to read anywhere
                if not (free & nested_locals) and s_.name not in free and not any(isinstance(x, (ast.Yield, ast.Await, ast.NamedExpr)) for x in ast.walk(rv)):
                    ph[s_.name] = (s_, rv)
    # module-level functions of the same module, and methods of the same class (keyed `self.<name>`)
    mod_funcs = [s_ for s_ in fi.module.tree.body if isinstance(s_, ast.FunctionDef)]
    for s_ in mod_funcs:
        if s_.name in ph or s_ is fi.node:
            continue
        rv = summarise_return(s_)
        if rv is None:
            continue
        params = {a.arg for a in s_.args.args + s_.args.kwonlyargs + s_.args.posonlyargs}
        bound_inside = {x.id for x in ast.walk(rv) if isinstance(x, ast.Name) and isinstance(x.ctx, ast.Store)}
        free = {x.id for x in ast.walk(rv) if isinstance(x, ast.Name) and isinstance(x.ctx, ast.Load)} - params - bound_inside
        if not (free & encl_locals) and s_.name not in free and s_.name not in encl_locals \
                and not any(isinstance(x, (ast.Yield, ast.Await, ast.NamedExpr)) for x in ast.walk(rv)):
            ph[s_.name] = (s_, rv)
    # helpers imported by name from a sibling module (`from .containers import _helper`): read there, as long as what
    # the summary mentions beyond its parameters is bound to the same module objects here (`np`, `copy`)
    def _mod_imports(tree) -> Dict[str, str]:
        out = {}
        for st in tree.body:
            if isinstance(st, ast.Import):
                for a in st.names:
                    out[(a.asname or a.name).split('.')[0]] = a.name if a.asname else a.name.split('.')[0]
        return out
    here = _mod_imports(fi.module.tree)
    for st in fi.module.tree.body:
        if isinstance(st, ast.ImportFrom) and st.level >= 1 and st.module:
            base = fi.module.path.parent
            for _ in range(st.level - 1):
                base = base.parent
            cand = base.joinpath(*st.module.split('.')).with_suffix('.py')
            if not cand.exists():
                continue
            try:
                other = ast.parse(cand.read_text())
            except SyntaxError:
                continue
            there = _mod_imports(other)
            for a in st.names:
                nm = a.asname or a.name
                if nm in ph or nm in encl_locals:
                    continue
                for s_ in other.body:
                    if isinstance(s_, ast.FunctionDef) and s_.name == a.name:
                        rv = summarise_return(s_)
                        if rv is None:
                            continue
                        params = {x.arg for x in s_.args.args + s_.args.kwonlyargs + s_.args.posonlyargs}
                        bound_inside = {x.id for x in ast.walk(rv) if isinstance(x, ast.Name) and isinstance(x.ctx, ast.Store)}
                        free = {x.id for x in ast.walk(rv) if isinstance(x, ast.Name) and isinstance(x.ctx, ast.Load)} - params - bound_inside
                        import builtins as _b
                        if all((n_ in there and here.get(n_) == there[n_]) or hasattr(_b, n_) for n_ in free) \
                                and not any(isinstance(x, (ast.Yield, ast.Await, ast.NamedExpr)) for x in ast.walk(rv)):
                            ph[nm] = (s_, rv)
    if fi.cls is not None:
        for s_ in fi.cls.node.body:
            if isinstance(s_, ast.FunctionDef) and s_ is not fi.node and s_.args.args and not any(
                    isinstance(d_, ast.Name) and d_.id in ('staticmethod', 'property') or isinstance(d_, ast.Attribute) for d_ in s_.decorator_list):
                import copy as _copy
                bare = _copy.deepcopy(s_)
                bare.decorator_list = []
                rv = summarise_return(bare)
                if rv is None:
                    continue
                recv = s_.args.args[0].arg
                params = {a.arg for a in s_.args.args[1:] + s_.args.kwonlyargs}
                bound_inside = {x.id for x in ast.walk(rv) if isinstance(x, ast.Name) and isinstance(x.ctx, ast.Store)}
                free = {x.id for x in ast.walk(rv) if isinstance(x, ast.Name) and isinstance(x.ctx, ast.Load)} - params - bound_inside - {recv}
                if not (free & encl_locals) and not any(isinstance(x, (ast.Yield, ast.Await, ast.NamedExpr)) for x in ast.walk(rv)) \
                        and not any(isinstance(x, ast.Attribute) and isinstance(x.value, ast.Name) and x.value.id == recv and x.attr == s_.name for x in ast.walk(rv)):
                    ph[f'self.{s_.name}'] = (bare, rv)
    return ph


class Fn:
    def __init__(self, R, qualname: str, inline_methods: bool = False) -> None:
        self.R = R
        self.repo: Repo = R.repo
        self.q = qualname
        self.fi: FunctionInfo = self.repo.func_with_private_methods_inlined(qualname) if inline_methods else self.repo.func(qualname)
        self.cfg = CFG(self.fi.node, fsic_hierarchy(self.repo))
        self.lf = LocalFlow(self.cfg, self.fi.params())
        self.dom = dominators(self.cfg)
        self._g: Dict[int, List[Tuple[int, str]]] = {}
        R.saw_function(self.fi, self.cfg)

    def guards_of(self, nid: int) -> List[Tuple[int, str]]:
        if nid not in self._g:
            self._g[nid] = guards(self.cfg, nid)
        return self._g[nid]

    def guard_atoms(self, nid: int) -> List[Tuple[ast.AST, bool, Node]]:
        out = []
        for (tid, lab) in self.guards_of(nid):
            tn = self.cfg.nodes[tid]
            if tn.kind != 'test':
                continue
            if lab in ('T', 'F'):
                for (a, truth) in nnf_atoms(tn.ast, lab == 'T'):
                    out.append((a, truth, tn))
        return out

    def expand(self, nid: int, e: ast.AST, depth: int = 4, stop=(), comps: bool = False) -> ast.AST:
        """`e` with every local that has exactly one reaching definition at node `nid`, bound to a pure
        expression, replaced by that expression (recursively): `x = a + b; f(x)` is read as `f(a + b)`.
        A definition is read through only if the locals it mentions still have, at `nid`, the definitions they had
        where it was made.  With `comps`, definitions that are comprehensions are read through as well
        (capture-avoiding)."""
        if depth <= 0:
            return e
        mapping = {}
        banned = (ast.Yield, ast.Await, ast.NamedExpr, ast.Lambda) + (() if comps else (ast.ListComp, ast.DictComp, ast.SetComp, ast.GeneratorExp))
        for x in ast.walk(e):
            if isinstance(x, ast.Name) and isinstance(x.ctx, ast.Load) and x.id in self.lf.locals and x.id not in stop and x.id not in mapping:
                vals = self.lf.values_reaching(nid, x.id)
                if len(vals) == 1 and vals[0][0] != PARAM and vals[0][1] is not None:
                    site, v = vals[0]
                    # a container built here and filled in place afterwards is not its defining expression any more; a
                    # local that merely names an existing object (a lookup) still is
                    if x.id in self.mutated_in_place() and (isinstance(v, (ast.Dict, ast.List, ast.Set, ast.Tuple, ast.ListComp, ast.DictComp, ast.SetComp, ast.Constant))
                                                          or (isinstance(v, ast.Call) and not isinstance(v.func, ast.Attribute))
                                                          or (isinstance(v, ast.Call) and isinstance(v.func, ast.Attribute) and v.func.attr in ('copy', 'deepcopy', 'array', 'full', 'zeros', 'empty'))):
                        continue
                    if not any(isinstance(y, banned) for y in ast.walk(v)):
                        stable = True
                        for y in ast.walk(v):
                            if isinstance(y, ast.Name) and isinstance(y.ctx, ast.Load) and y.id in self.lf.locals and y.id != x.id:
                                if self.lf.defs_reaching(site, y.id) != self.lf.defs_reaching(nid, y.id):
                                    stable = False
                        if stable:
                            inner = self.expand(site, v, depth - 1, stop, comps)
                            # `x = f(x)` whose inner x cannot be read through would confuse the old and the new x
                            if not any(isinstance(y, ast.Name) and y.id == x.id and isinstance(y.ctx, ast.Load) for y in ast.walk(inner)):
                                mapping[x.id] = inner
        if mapping:
            from fsa.summ import _subst
            out = _subst(e, mapping)
        else:
            out = e
        return self._inline_pure_calls(out)

    # -- calls of pure one-expression helpers (siblings defined in the enclosing function, or nested here) are read as
    #    the expression they return
    def _pure_helpers(self) -> Dict[str, Tuple[ast.FunctionDef, ast.AST]]:
        if getattr(self, '_ph', None) is None:
            self._ph = pure_helpers(self.fi)
        return self._ph

    def _inline_pure_calls(self, e: ast.AST, depth: int = 3, methods: bool = False) -> ast.AST:
        ph = {k: v for k, v in self._pure_helpers().items() if methods or not k.startswith('self.')}
        def key_of(call):
            if isinstance(call.func, ast.Name):
                return call.func.id
            if isinstance(call.func, ast.Attribute) and isinstance(call.func.value, ast.Name) and call.func.value.id in ('self', 'cls'):
                return f'self.{call.func.attr}'
            return None

        if not ph or depth <= 0 or not any(isinstance(x, ast.Call) and key_of(x) in ph for x in ast.walk(e)):
            return e
        from fsa.summ import _subst

        class T(ast.NodeTransformer):
            def visit_Call(self, node):
                self.generic_visit(node)
                if key_of(node) in ph:
                    h, body = ph[key_of(node)]
                    names = [a.arg for a in h.args.posonlyargs + h.args.args]
                    recv_bind = {}
                    if key_of(node).startswith('self.'):
                        recv_bind = {names[0]: node.func.value}
                        names = names[1:]
                    if len(node.args) <= len(names) and not any(isinstance(a, ast.Starred) for a in node.args):
                        bound = dict(zip(names, node.args))
                        okb = True
                        for kw in node.keywords:
                            if kw.arg is None or kw.arg in bound or kw.arg not in names + [a.arg for a in h.args.kwonlyargs]:
                                okb = False
                            else:
                                bound[kw.arg] = kw.value
                        dflt = dict(zip(names[len(names) - len(h.args.defaults):], h.args.defaults))
                        for a, d in zip(h.args.kwonlyargs, h.args.kw_defaults):
                            if d is not None:
                                dflt[a.arg] = d
                        for p_ in names + [a.arg for a in h.args.kwonlyargs]:
                            if p_ not in bound:
                                if p_ in dflt and (isinstance(dflt[p_], ast.Constant) or (isinstance(dflt[p_], ast.Tuple) and all(isinstance(e_, ast.Constant) for e_ in dflt[p_].elts))):
                                    bound[p_] = dflt[p_]
                                else:
                                    okb = False
                        if okb:
                            bound.update(recv_bind)
                            return _subst(body, bound)
                return node

        import copy as _copy
        out = ast.fix_missing_locations(T().visit(_copy.deepcopy(e)))
        return self._inline_pure_calls(out, depth - 1) if text(out) != text(e) else out

    def xguard_atoms(self, nid: int, stop=()) -> List[Tuple[ast.AST, bool, Node]]:
        """Guard atoms with single-definition locals read through (at the test that states them) and conjunctions /
        disjunctions produced by inlining re-flattened."""
        out = []
        for (a, truth, tn) in self.guard_atoms(nid):
            x = self.expand(tn.id, a, stop=stop)
            if text(x) != text(a):
                for (a2, t2) in nnf_atoms(x, truth):
                    out.append((a2, t2, tn))
            else:
                out.append((a, truth, tn))
        return out

    def xholds(self, nid: int, src: str, truth: bool = True, stop=()) -> bool:
        from fsa.match import has_fact
        return has_fact(self.xguard_atoms(nid, stop), src, truth)

    def holds(self, nid: int, src: str, truth: bool = True) -> bool:
        """Is the fact `src` known to have value `truth` on every path to node `nid`?"""
        from fsa.match import has_fact
        return has_fact(self.guard_atoms(nid), src, truth)

    def mutated_in_place(self) -> Set[str]:
        """Locals changed other than by assignment (element stores, mutating methods): their defining expression is not
        their value later on, so they are never read through."""
        if getattr(self, '_mip', None) is None:
            out: Set[str] = set()
            MUT = ('append', 'extend', 'insert', 'update', 'add', 'pop', 'popitem', 'remove', 'discard', 'clear', 'setdefault', 'sort', 'reverse')
            def root(e):
                # `groups[k].append(x)` and `groups[k][j] = x` change what `groups` holds just as `groups.update(...)` does
                while isinstance(e, (ast.Subscript, ast.Attribute)):
                    e = e.value
                return e.id if isinstance(e, ast.Name) else None

            for x in ast.walk(self.fi.node):
                if isinstance(x, (ast.Subscript, ast.Attribute)) and isinstance(x.ctx, (ast.Store, ast.Del)):
                    r_ = x.value.id if isinstance(x.value, ast.Name) else (root(x.value) if isinstance(x.value, ast.Subscript) else None)
                    if r_ is not None:
                        out.add(r_)
                if isinstance(x, ast.Call) and isinstance(x.func, ast.Attribute) and x.func.attr in MUT:
                    r_ = x.func.value.id if isinstance(x.func.value, ast.Name) else (root(x.func.value) if isinstance(x.func.value, ast.Subscript) else None)
                    if r_ is not None:
                        out.add(r_)
            self._mip = out
        return self._mip

    def off_by_default(self, nid: int) -> Optional[str]:
        """The guard that keeps node `nid` from running when every option of this function has its default value: an atom
        over parameters (never reassigned) with constant defaults that evaluates to the opposite of what the path needs."""
        a_ = self.fi.node.args
        pos = a_.posonlyargs + a_.args
        dflt = {p.arg: d for p, d in zip(pos[len(pos) - len(a_.defaults):], a_.defaults) if isinstance(d, ast.Constant)}
        dflt.update({p.arg: d for p, d in zip(a_.kwonlyargs, a_.kw_defaults) if isinstance(d, ast.Constant)})
        for (a, truth, tn) in self.guard_atoms(nid):
            names = {x.id for x in ast.walk(a) if isinstance(x, ast.Name)}
            if not names or not names <= set(dflt):
                continue
            if not all(all(s_ == PARAM for (s_, _v) in self.lf.values_reaching(tn.id, nm)) for nm in names):
                continue
            if any(not isinstance(x, (ast.Name, ast.Constant, ast.Compare, ast.BoolOp, ast.UnaryOp, ast.Load, ast.cmpop, ast.boolop, ast.unaryop, ast.expr_context))
                   for x in ast.walk(a)):
                continue
            try:
                val = bool(eval(compile(ast.Expression(body=a), '<guard>', 'eval'), {'__builtins__': {}}, {k: v.value for k, v in dflt.items()}))
            except Exception:
                continue
            if val != truth:
                return f'`{text(a)}` is {val} for the default {", ".join(f"{k}={dflt[k].value!r}" for k in sorted(names))}'
        return None

    def etext(self, nid: int, e: ast.AST, stop=()) -> str:
        return text(self.expand(nid, e, stop=stop))

    def where(self, n) -> str:
        ln = n.lineno if hasattr(n, 'lineno') else 0
        return f'{self.fi.module.relpath}:{ln}'

    def returns(self) -> List[Node]:
        return [n for n in self.cfg.nodes if n.kind == 'stmt' and isinstance(n.ast, ast.Return)]

    def raised(self, n: Node) -> Optional[str]:
        """Class raised by a raise statement, reading `raise make_error(x)` through a one-expression local helper."""
        c = raised_class(n.ast)
        if n.ast.exc is not None and isinstance(n.ast.exc, ast.Call) and isinstance(n.ast.exc.func, ast.Name) and n.ast.exc.func.id in self._pure_helpers():
            x = self._inline_pure_calls(n.ast.exc)
            if isinstance(x, ast.Call):
                return text(x.func).split('.')[-1]
        return c

    def raises(self, cls: Optional[str] = None) -> List[Node]:
        return [n for n in self.cfg.nodes if n.kind == 'stmt' and isinstance(n.ast, ast.Raise)
                and (cls is None or self.raised(n) == cls)]

    def tests(self) -> List[Node]:
        return [n for n in self.cfg.nodes if n.kind == 'test']

    def nodes_with(self, pred) -> List[Node]:
        out = []
        for n in self.cfg.nodes:
            if n.ast is None:
                continue
            for root in node_expr_roots(n):
                if isinstance(root, (ast.FunctionDef, ast.ClassDef)):
                    continue
                if any(pred(x) for x in ast.walk(root)):
                    out.append(n)
                    break
        return out

    def assigns_to(self, name: str) -> List[Node]:
        out = []
        for n in self.cfg.nodes:
            a = n.ast
            if n.kind == 'stmt' and isinstance(a, (ast.Assign, ast.AnnAssign, ast.AugAssign)):
                tg = a.targets if isinstance(a, ast.Assign) else [a.target]
                if any(isinstance(t, ast.Name) and t.id == name for t in tg):
                    out.append(n)
        return out

    # -- virtual definitions: tuple unpacking is split element-wise, conditional expressions into guarded arms
    def vdefs(self, name: str) -> List['VDef']:
        out: List[VDef] = []
        for n in self.cfg.nodes:
            a = n.ast
            if n.kind != 'stmt' or a is None:
                continue
            pairs = []  # (value expr or None, aug op)
            if isinstance(a, ast.Assign):
                for t in a.targets:
                    if isinstance(t, ast.Name) and t.id == name:
                        pairs.append((a.value, None))
                    elif isinstance(t, (ast.Tuple, ast.List)) and isinstance(a.value, (ast.Tuple, ast.List)) and len(t.elts) == len(a.value.elts):
                        for te, ve in zip(t.elts, a.value.elts):
                            if isinstance(te, ast.Name) and te.id == name:
                                pairs.append((ve, None))
                    elif isinstance(t, (ast.Tuple, ast.List)) and any(isinstance(te, ast.Name) and te.id == name for te in t.elts):
                        idx = [i for i, te in enumerate(t.elts) if isinstance(te, ast.Name) and te.id == name][0]
                        pairs.append((ast.Subscript(value=a.value, slice=ast.Constant(value=idx), ctx=ast.Load()), None))
            elif isinstance(a, ast.AnnAssign) and isinstance(a.target, ast.Name) and a.target.id == name and a.value is not None:
                pairs.append((a.value, None))
            elif isinstance(a, ast.AugAssign) and isinstance(a.target, ast.Name) and a.target.id == name:
                pairs.append((a.value, a.op))
            for (v, op) in pairs:
                base = [(x, t) for (x, t, _tn) in self.guard_atoms(n.id)]
                arms = [(v, [])]
                if op is None and isinstance(v, ast.IfExp):
                    arms = [(v.body, nnf_atoms(v.test, True)), (v.orelse, nnf_atoms(v.test, False))]
                for (val, extra) in arms:
                    if op is None and isinstance(val, ast.Name) and val.id == name:
                        continue  # identity arm of `x = d if x is None else x`
                    out.append(VDef(n, val, base + list(extra), op))
        return out

    # -- a dict filled by one store in a loop, read as the comprehension it is equivalent to
    def loop_store_comp(self, n: Node) -> Optional[ast.DictComp]:
        """`for T in I: [if C:] D[K] = V`  ->  `{K: V for T in I if C}` (locals bound inside the loop read through)."""
        a = n.ast
        if not (n.kind == 'stmt' and isinstance(a, ast.Assign) and len(a.targets) == 1 and isinstance(a.targets[0], ast.Subscript) and n.loops):
            return None
        lp = self.cfg.nodes[n.loops[-1]]
        if lp.kind != 'for':
            return None
        tnames = tuple(x.id for x in ast.walk(lp.ast.target) if isinstance(x, ast.Name))
        key = self.expand(n.id, a.targets[0].slice, stop=tnames)
        val = self.expand(n.id, a.value, stop=tnames)
        conds: List[ast.AST] = []
        for (at, truth, tn) in self.guard_atoms(n.id):
            if lp.id in tn.loops:
                at = self.expand(tn.id, at, stop=tnames)
                conds.append(at if truth else ast.UnaryOp(op=ast.Not(), operand=at))
        dc = ast.DictComp(key=key, value=val, generators=[ast.comprehension(target=lp.ast.target, iter=lp.ast.iter, ifs=conds, is_async=0)])
        ast.copy_location(dc, a)
        return ast.fix_missing_locations(dc)

    def as_listcomp(self, nid: int, e: ast.AST) -> Optional[ast.AST]:
        """`e` as a list comprehension / generator: itself, or a local initialised `[]` and filled by exactly one
        `.append(X)` in one for loop (`for T in I: [if C:] L.append(X)` -> `[X for T in I if C]`)."""
        if isinstance(e, (ast.ListComp, ast.GeneratorExp)):
            return e
        if isinstance(e, ast.Call) and dotted(e.func) in ('list', 'tuple') and len(e.args) == 1 and isinstance(e.args[0], (ast.ListComp, ast.GeneratorExp)):
            return e.args[0]
        if not isinstance(e, ast.Name):
            return None
        vals = self.lf.values_reaching(nid, e.id)
        if len(vals) != 1 or vals[0][0] == PARAM or vals[0][1] is None:
            return None
        site, v = vals[0]
        if isinstance(v, (ast.ListComp, ast.GeneratorExp)):
            return v
        empty = (isinstance(v, ast.List) and not v.elts) or (isinstance(v, ast.Call) and dotted(v.func) == 'list' and not v.args)
        if not empty:
            return None
        from fsa.effects import MUTATORS
        muts = []
        for n in self.cfg.nodes:
            if n.ast is None:
                continue
            for root in node_expr_roots(n):
                if isinstance(root, (ast.FunctionDef, ast.ClassDef)):
                    continue
                for x in ast.walk(root):
                    if isinstance(x, ast.Call) and isinstance(x.func, ast.Attribute) and isinstance(x.func.value, ast.Name) and x.func.value.id == e.id \
                            and x.func.attr in MUTATORS:
                        muts.append((n, x))
                    if isinstance(x, (ast.Subscript,)) and isinstance(x.ctx, (ast.Store, ast.Del)) and isinstance(x.value, ast.Name) and x.value.id == e.id:
                        muts.append((n, x))
                if isinstance(root, ast.AugAssign) and isinstance(root.target, ast.Name) and root.target.id == e.id:
                    muts.append((n, root))
        if len(muts) != 1:
            return None
        n, c = muts[0]
        if not (isinstance(c, ast.Call) and c.func.attr == 'append' and len(c.args) == 1 and n.kind == 'stmt' and isinstance(n.ast, ast.Expr) and n.ast.value is c):
            return None
        if not n.loops or len(n.loops) != 1 + len(self.cfg.nodes[site].loops):
            return None
        lp = self.cfg.nodes[n.loops[-1]]
        if lp.kind != 'for' or site not in self.dom[lp.id] or lp.id not in self.dom[nid] or lp.id in self.cfg.nodes[nid].loops:
            return None
        tnames = tuple(x.id for x in ast.walk(lp.ast.target) if isinstance(x, ast.Name))
        elt = self.expand(n.id, c.args[0], stop=tnames)
        conds: List[ast.AST] = []
        for (at, truth, tn) in self.guard_atoms(n.id):
            if lp.id in tn.loops:
                at = self.expand(tn.id, at, stop=tnames)
                conds.append(at if truth else ast.UnaryOp(op=ast.Not(), operand=at))
        lc = ast.ListComp(elt=elt, generators=[ast.comprehension(target=lp.ast.target, iter=lp.ast.iter, ifs=conds, is_async=0)])
        ast.copy_location(lc, n.ast)
        return ast.fix_missing_locations(lc)

    def as_dictcomp(self, nid: int, e: ast.AST) -> Optional[ast.DictComp]:
        """`e` as a dict comprehension: itself, or a local initialised empty and filled by exactly one store in one loop."""
        from fsa.effects import MUTATORS
        if isinstance(e, ast.DictComp):
            return e
        if isinstance(e, ast.Call):
            e2 = self._inline_pure_calls(e)
            return e2 if isinstance(e2, ast.DictComp) else None
        if not isinstance(e, ast.Name):
            return None
        vals = self.lf.values_reaching(nid, e.id)
        if len(vals) != 1 or vals[0][0] == PARAM or vals[0][1] is None:
            return None
        site, v = vals[0]
        if isinstance(v, ast.DictComp):
            return v
        empty = (isinstance(v, ast.Dict) and not v.keys) or (isinstance(v, ast.Call) and dotted(v.func) in ('dict', 'collections.OrderedDict', 'OrderedDict') and not v.args and not v.keywords)
        if not empty:
            return None
        stores = [n for n in self.cfg.nodes if n.kind == 'stmt' and isinstance(n.ast, (ast.Assign, ast.AugAssign))
                  and any(isinstance(t, ast.Subscript) and isinstance(t.value, ast.Name) and t.value.id == e.id
                          for t in (n.ast.targets if isinstance(n.ast, ast.Assign) else [n.ast.target]))]
        other = [n for n in self.nodes_with(lambda x: isinstance(x, ast.Call) and isinstance(x.func, ast.Attribute) and isinstance(x.func.value, ast.Name)
                                              and x.func.value.id == e.id and x.func.attr in MUTATORS)]
        if len(stores) != 1 or other or not isinstance(stores[0].ast, ast.Assign):
            return None
        st = stores[0]
        if not st.loops or site not in self.dom[st.loops[0]] or st.loops[0] not in self.dom[nid] or nid in [x.id for x in self.cfg.nodes if st.loops[0] in x.loops]:
            return None
        if len(st.loops) != 1 + len(self.cfg.nodes[site].loops):
            return None
        return self.loop_store_comp(st)

    def local_memo_read(self, nid: int, e: ast.AST) -> Optional[ast.AST]:
        """`D[k]` read as `V` when the local `D` starts empty and is filled at one place only, `if k not in D: D[k] = V`, with
        a key that fixes V: whatever in V changes from one pass of the loop to the next is an element of the key
        (`kind = (s.shape, s.dtype); D[kind] = np.full(s.shape, x, dtype=s.dtype)`).  The value handed out may then be
        the one made on an earlier pass - the same object - but it is equal to V made now.  None if not of that form."""
        if not (isinstance(e, ast.Subscript) and isinstance(e.value, ast.Name) and e.value.id in self.lf.locals and isinstance(e.ctx, ast.Load)):
            return None
        D = e.value.id
        inits = [n for n in self.assigns_to(D)]
        if len(inits) != 1 or not ((isinstance(inits[0].ast.value, ast.Dict) and not inits[0].ast.value.keys) or (is_call_(inits[0].ast.value, 'dict') and not inits[0].ast.value.args)):
            return None
        stores = [n for n in self.cfg.nodes if n.kind == 'stmt' and isinstance(n.ast, ast.Assign) and len(n.ast.targets) == 1 and isinstance(n.ast.targets[0], ast.Subscript)
                  and text(n.ast.targets[0].value) == D]
        other = [n for n in self.cfg.nodes if n.ast is not None and n.kind == 'stmt' and n not in stores and n is not inits[0]
                 and any(isinstance(x, ast.Call) and isinstance(x.func, ast.Attribute) and text(x.func.value) == D and x.func.attr in
                         ('update', 'pop', 'clear', 'setdefault', 'popitem') for x in ast.walk(n.ast))]
        if len(stores) != 1 or other:
            return None
        st = stores[0]
        k_store, k_read = st.ast.targets[0].slice, e.slice
        if self.etext(st.id, k_store) != self.etext(nid, k_read) or st.id not in self.dom[nid] and not self.cfg.reaches(st.id, nid):
            return None
        if not (self.holds(st.id, f'{text(k_store)} not in {D}') or self.holds(st.id, f'{text(k_store)} in {D}', False)):
            return None
        key = self.expand(st.id, k_store)
        parts = {text(x) for x in (key.elts if isinstance(key, ast.Tuple) else [key])}
        V = self.expand(st.id, st.ast.value)
        # what varies between passes: locals defined inside the loop(s) around the store
        loop_locals = set()
        for lid in st.loops:
            for m in self.cfg.nodes:
                if lid in m.loops or m.id == lid:
                    a_ = m.ast
                    if m.kind == 'for' and a_ is not None:
                        loop_locals |= {x.id for x in ast.walk(a_.target) if isinstance(x, ast.Name)}
                    elif m.kind == 'stmt' and isinstance(a_, (ast.Assign, ast.AugAssign, ast.AnnAssign)):
                        for t_ in (a_.targets if isinstance(a_, ast.Assign) else [a_.target]):
                            loop_locals |= {x.id for x in ast.walk(t_) if isinstance(x, ast.Name) and isinstance(x.ctx, ast.Store)}
        par = {}
        for p_ in ast.walk(V):
            for c_ in ast.iter_child_nodes(p_):
                par[id(c_)] = p_
        for x in ast.walk(V):
            if isinstance(x, ast.Name) and x.id in loop_locals:
                cur, covered = x, False
                while cur is not None:
                    if text(cur) in parts:
                        covered = True
                        break
                    cur = par.get(id(cur))
                if not covered:
                    return None
        return V

    def dict_lookup_read(self, nid: int, e: ast.AST) -> ast.AST:
        """`D[k]` read as `V(k, M[k])` when the local `D` is `{a: V(a, b) for a, b in M.items()}` (or `{a: V(a) for a in M}`),
        has that one definition and is not changed in place: a table derived from another table, looked up."""
        import copy as _copy
        from fsa.summ import _subst
        me = self

        class T(ast.NodeTransformer):
            def visit_Subscript(self, node):
                self.generic_visit(node)
                if not (isinstance(node.value, ast.Name) and isinstance(node.ctx, ast.Load) and node.value.id in me.lf.locals) or node.value.id in me.mutated_in_place():
                    return node
                vals = me.lf.values_reaching(nid, node.value.id)
                if len(vals) != 1 or not isinstance(vals[0][1], ast.DictComp) or len(vals[0][1].generators) != 1 or vals[0][1].generators[0].ifs:
                    return node
                dc = vals[0][1]
                g = dc.generators[0]
                if not isinstance(dc.key, ast.Name):
                    return node
                if isinstance(g.target, ast.Tuple) and len(g.target.elts) == 2 and all(isinstance(x, ast.Name) for x in g.target.elts) \
                        and isinstance(g.iter, ast.Call) and isinstance(g.iter.func, ast.Attribute) and g.iter.func.attr == 'items' and not g.iter.args \
                        and dc.key.id == g.target.elts[0].id:
                    src = g.iter.func.value
                    env = {g.target.elts[0].id: node.slice, g.target.elts[1].id: ast.Subscript(value=_copy.deepcopy(src), slice=_copy.deepcopy(node.slice), ctx=ast.Load())}
                    return _subst(dc.value, env)
                if isinstance(g.target, ast.Name) and dc.key.id == g.target.id:
                    return _subst(dc.value, {g.target.id: node.slice})
                return node

        return ast.fix_missing_locations(T().visit(_copy.deepcopy(e)))

    def groupby_read(self, e: ast.AST) -> ast.AST:
        """`G[c]` read as `[E(s) for s in SRC if K(s) == c]` when `G` is a local dictionary of lists filled by one loop
        `for s in SRC: G[K(s)].append(E(s))` (or `G.setdefault(K(s), []).append(E(s))`) and changed nowhere else
        (names as the gated evaluator writes them, `G@<line>`, included)."""
        import copy as _copy
        groups: Dict[str, Tuple[ast.AST, ast.AST, ast.AST, ast.AST]] = {}
        for n in self.cfg.nodes:
            if n.kind != 'for' or n.ast.orelse or len(n.ast.body) != 1 or not isinstance(n.ast.body[0], ast.Expr):
                continue
            c = n.ast.body[0].value
            if not (isinstance(c, ast.Call) and isinstance(c.func, ast.Attribute) and c.func.attr == 'append' and len(c.args) == 1):
                continue
            r = c.func.value
            key = None
            if isinstance(r, ast.Subscript) and isinstance(r.value, ast.Name):
                g_, key = r.value.id, r.slice
            elif isinstance(r, ast.Call) and isinstance(r.func, ast.Attribute) and r.func.attr == 'setdefault' and isinstance(r.func.value, ast.Name) \
                    and len(r.args) == 2 and isinstance(r.args[1], ast.List) and not r.args[1].elts:
                g_, key = r.func.value.id, r.args[0]
            if key is None or g_ not in self.lf.locals:
                continue
            # initialised to empty lists only, and touched by nothing but this loop
            inits = self.assigns_to(g_)
            ok_init = len(inits) == 1 and inits[0].ast.value is not None and (
                (isinstance(inits[0].ast.value, ast.Dict) and all(isinstance(v_, ast.List) and not v_.elts for v_ in inits[0].ast.value.values))
                or (isinstance(inits[0].ast.value, ast.DictComp) and isinstance(inits[0].ast.value.value, ast.List) and not inits[0].ast.value.value.elts)
                or text(inits[0].ast.value) in ('defaultdict(list)', 'collections.defaultdict(list)'))
            others = [m for m in self.cfg.nodes if m.ast is not None and m.kind == 'stmt' and m.id != inits[0].id if ok_init
                      for x in ast.walk(m.ast) if isinstance(x, ast.Name) and x.id == g_ and m.ast is not n.ast.body[0]
                      and (isinstance(x.ctx, (ast.Store, ast.Del)) or any(
                          isinstance(p_, ast.Call) and isinstance(p_.func, ast.Attribute) and p_.func.value is x and p_.func.attr in
                          ('update', 'pop', 'popitem', 'clear', 'setdefault', '__setitem__') for p_ in ast.walk(m.ast))
                          or any(isinstance(p_, ast.Subscript) and p_.value is x and isinstance(p_.ctx, (ast.Store, ast.Del)) for p_ in ast.walk(m.ast)))]
            if ok_init and not others and n.id not in [l for m in [inits[0]] for l in m.loops]:
                groups[g_] = (n.ast.target, n.ast.iter, key, c.args[0])
        if not groups:
            return e

        class T(ast.NodeTransformer):
            def visit_Subscript(self, node):
                self.generic_visit(node)
                if isinstance(node.value, ast.Name) and isinstance(node.ctx, ast.Load) and node.value.id.split('@')[0] in groups:
                    tg, it, key, elt = groups[node.value.id.split('@')[0]]
                    cond = ast.Compare(left=_copy.deepcopy(key), ops=[ast.Eq()], comparators=[_copy.deepcopy(node.slice)])
                    return ast.ListComp(elt=_copy.deepcopy(elt), generators=[ast.comprehension(target=_copy.deepcopy(tg), iter=_copy.deepcopy(it), ifs=[cond], is_async=0)])
                return node

        return ast.fix_missing_locations(T().visit(_copy.deepcopy(e)))

    def deep_helpers(self) -> Dict[str, Tuple[ast.FunctionDef, ast.AST]]:
        """Module-level functions called by name here (defined in this module or imported from another module of the
        package) whose return value can be read leniently: past their own nested helpers, a helper passed as an argument,
        a memoising decorator.  For rules that need one more level of reading than `expand` gives everyone."""
        from fsa.summ import summarise_return
        called = {x.func.id for x in ast.walk(self.fi.node) if isinstance(x, ast.Call) and isinstance(x.func, ast.Name)}
        out: Dict[str, Tuple[ast.FunctionDef, ast.AST]] = {}
        mod = self.fi.module
        defs = {s_.name: s_ for s_ in mod.tree.body if isinstance(s_, ast.FunctionDef)}
        pkg = mod.name.rsplit('.', 1)[0] if '.' in mod.name else mod.name
        for s_ in mod.tree.body:
            if isinstance(s_, ast.ImportFrom):
                base = mod.name.split('.')
                src = '.'.join(base[:len(base) - s_.level] + ([s_.module] if s_.module else [])) if s_.level else (s_.module or '')
                for a_ in s_.names:
                    q_ = f'{src}.{a_.name}'
                    if q_ in self.repo.functions and (a_.asname or a_.name) not in defs:
                        defs[a_.asname or a_.name] = self.repo.functions[q_].node
        strict = self._pure_helpers()
        for nm in sorted(called):
            if nm in defs and nm not in strict and defs[nm] is not self.fi.node:
                rv = summarise_return(defs[nm], lenient=True)
                if rv is not None:
                    out[nm] = (defs[nm], rv)
        return out

    def symexec(self, methods: bool = False, deep: bool = False, exclude=(), **kw):
        """Gated symbolic evaluator of this function, reading through the helpers `expand` reads through (with `methods`
        also through one-expression methods of the same class, `self.m(...)`; with `deep` through `deep_helpers()`)."""
        from fsa.gated import SymExec
        hs = {k: v for k, v in self._pure_helpers().items() if (methods or not k.startswith('self.')) and k not in exclude}
        if deep:
            hs.update(self.deep_helpers())
        return SymExec(self.fi.node, extra_helpers=hs, **kw)

    def path_to(self, n: Node) -> List[str]:
        p = self.cfg.some_path(self.cfg.entry, n.id)
        return self.cfg.describe_path(p) if p else []


def exec_source(f: 'Fn', nid: int, arg: Optional[ast.AST], depth: int = 0):
    """What an `exec(arg, ...)` at node `nid` runs, read back through locals and through `compile(text, name, 'exec')`:
    (source expression, faithful).  `faithful` is False when a compile() on the way changes what the text means
    (`optimize=` above the interpreter's own level strips assert / __debug__ / docstrings; a mode other than 'exec')."""
    faithful = True
    cur, at = arg, nid
    for _ in range(6):
        if isinstance(cur, ast.Name) and cur.id in f.lf.locals:
            vals = f.lf.values_reaching(at, cur.id)
            if len(vals) == 1 and vals[0][0] != PARAM and vals[0][1] is not None:
                at, cur = vals[0][0], vals[0][1]
                continue
            return cur, faithful
        if isinstance(cur, ast.Call) and dotted(cur.func) == 'compile' and cur.args:
            mode = cur.args[2] if len(cur.args) > 2 else kwarg(cur, 'mode')
            if not is_const(mode, 'exec'):
                faithful = False
            opt = kwarg(cur, 'optimize') or (cur.args[5] if len(cur.args) > 5 else None)
            if opt is not None and not is_const(opt, -1):
                faithful = False
            flags = kwarg(cur, 'flags') or (cur.args[3] if len(cur.args) > 3 else None)
            if flags is not None and not is_const(flags, 0):
                faithful = False
            cur = cur.args[0]
            continue
        return cur, faithful
    return cur, faithful


def module_bound_names(repo: Repo, modname: str) -> Set[str]:
    mod = repo.module(modname)
    out: Set[str] = set()
    for stmt in mod.tree.body:
        if isinstance(stmt, (ast.Import, ast.ImportFrom)):
            for al in stmt.names:
                out.add((al.asname or al.name).split('.')[0])
        elif isinstance(stmt, (ast.FunctionDef, ast.ClassDef, ast.AsyncFunctionDef)):
            out.add(stmt.name)
        elif isinstance(stmt, ast.Assign):
            for t in stmt.targets:
                for x in ast.walk(t):
                    if isinstance(x, ast.Name):
                        out.add(x.id)
        elif isinstance(stmt, ast.AnnAssign) and isinstance(stmt.target, ast.Name):
            out.add(stmt.target.id)
    return out


def tainted_names(fnode: ast.AST, seeds: Iterable[str]) -> Set[str]:
    """Names data-dependent on `seeds` through assignments / loop targets /
    comprehension results (flow-insensitive closure)."""
    t = set(seeds)
    changed = True
    while changed:
        changed = False
        for n in ast.walk(fnode):
            tgt_names: List[str] = []
            src: Optional[ast.AST] = None
            if isinstance(n, ast.Assign):
                src = n.value
                for tg in n.targets:
                    for x in ast.walk(tg):
                        if isinstance(x, ast.Name):
                            tgt_names.append(x.id)
            elif isinstance(n, ast.AnnAssign) and n.value is not None:
                src = n.value
                tgt_names = [x.id for x in ast.walk(n.target) if isinstance(x, ast.Name)]
            elif isinstance(n, ast.AugAssign):
                src = n.value
                tgt_names = [x.id for x in ast.walk(n.target) if isinstance(x, ast.Name)]
            elif isinstance(n, (ast.For, ast.comprehension)):
                src = n.iter
                tgt_names = [x.id for x in ast.walk(n.target) if isinstance(x, ast.Name)]
            elif isinstance(n, ast.Call) and isinstance(n.func, ast.Attribute) and n.func.attr in ('append', 'extend', 'update', 'add') \
                    and isinstance(n.func.value, ast.Name):
                # x.append(tainted) taints x
                if any(isinstance(y, ast.Name) and y.id in t for a in n.args for y in ast.walk(a)):
                    if n.func.value.id not in t:
                        t.add(n.func.value.id)
                        changed = True
                continue
            elif isinstance(n, ast.Assign) or src is None:
                continue
            if src is None:
                continue
            if any(isinstance(y, ast.Name) and y.id in t for y in ast.walk(src)):
                for nm in tgt_names:
                    if nm not in t:
                        t.add(nm)
                        changed = True
            # subscript stores  d[k] = tainted  taint d
            if isinstance(n, ast.Assign):
                for tg in n.targets:
                    if isinstance(tg, ast.Subscript) and isinstance(tg.value, ast.Name):
                        if any(isinstance(y, ast.Name) and y.id in t for y in ast.walk(n.value)) and tg.value.id not in t:
                            t.add(tg.value.id)
                            changed = True
    return t


REORDERING_CALLS = {'sorted', 'reversed', 'set', 'frozenset', 'random.shuffle', 'random.sample', 'shuffle'}
REORDERING_METHODS = {'sort', 'reverse'}


def reordering_sites(fnode: ast.AST, tainted: Set[str]) -> List[ast.Call]:
    out = []
    for n in ast.walk(fnode):
        if not isinstance(n, ast.Call):
            continue
        d = dotted(n.func)
        if d in REORDERING_CALLS:
            if any(isinstance(y, ast.Name) and y.id in tainted for a in n.args for y in ast.walk(a)):
                out.append(n)
        elif isinstance(n.func, ast.Attribute) and n.func.attr in REORDERING_METHODS:
            r = n.func.value
            if any(isinstance(y, ast.Name) and y.id in tainted for y in ast.walk(r)):
                out.append(n)
    return out


def thorough_compositions(R, rule_id: str, focus: Iterable[str] = ()) -> None:
    """Thorough tier: super()-chain resolution and keyword acceptance over every
    mixin composition (fsa/mro.py); `focus` = method names whose provider chain
    is recorded in the evidence."""
    from fsa.mro import check_composition, compositions
    from fsa.source import resolve_method

    def body() -> None:
        n = 0
        for sel, base, mro in compositions(R.repo):
            n += 1
            name = '(' + ', '.join(sel + (base,)) + ')'
            probs = check_composition(R.repo, mro)
            chain = {}
            for m in focus:
                provs = []
                after = None
                while True:
                    p = resolve_method(R.repo, mro, m, after=after)
                    if p is None:
                        break
                    provs.append(p.cls.name)
                    after = p.cls.qualname
                chain[m] = provs
            if not probs:
                R.ok(name, 'every super() call resolves to a provider that accepts its arguments', detail={'mro': [c.split('.')[-1] for c in mro], 'providers': chain})
            for (q, m, why) in probs:
                R.violation(name, f'super-chain:{q}:{m}', f'in composition {name}: `super().{m}(...)` in {q.split(".")[-2]}.{q.split(".")[-1]}: {why}')
        R.expect('compositions', n, 60, 'mixin compositions enumerated')

    R.rule(rule_id, body)
