"""C05 - solve() equals the ordered sequence of single-period solves; failures contained."""

from __future__ import annotations

import ast
from typing import List, Optional

from fsa.cfg import CFG
from fsa.effects import effect_nodes
from fsa.match import Unknown, dotted, is_call, is_const, is_self_call, kwarg, method_call, has_star_kwargs, pred_call_attr, pred_raise
from fsa.source import AnchorMissing, Unsupported, iter_own_nodes, stmt_key, text
from rules.common import Fn
from rules.solver_common import effects_of
from rules import c02, c03

OPTIONS = c02.OPTIONS


def _unzip_of_possibly_empty(R, f: Fn) -> None:
    """`a, b = zip(*pairs)` (also through map(list, ...)) has nothing to unpack when `pairs` is empty: an empty range of
    periods (end before start) must be kept away from it."""
    from fsa.match import entails
    for n in f.cfg.nodes:
        a = n.ast
        if n.kind != 'stmt' or not isinstance(a, ast.Assign) or len(a.targets) != 1 or not isinstance(a.targets[0], (ast.Tuple, ast.List)):
            continue
        zs = [x for x in ast.walk(a.value) if is_call(x, 'zip') and len(x.args) == 1 and isinstance(x.args[0], ast.Starred)]
        if not zs:
            continue
        src = zs[0].args[0].value
        facts = f.guard_atoms(n.id)
        # as long as: `[... for x in X]` (no filter) and `list(X)` are as long as X
        same_len = [src]
        cur, at = src, n.id
        for _ in range(4):
            if isinstance(cur, ast.Name) and cur.id in f.lf.locals:
                vals = f.lf.values_reaching(at, cur.id)
                if len(vals) != 1 or vals[0][1] is None or not isinstance(vals[0][0], int) or vals[0][0] < 0 or cur.id in f.mutated_in_place():
                    break
                at, cur = vals[0][0], vals[0][1]
            if isinstance(cur, (ast.ListComp, ast.GeneratorExp)) and len(cur.generators) == 1 and not cur.generators[0].ifs:
                cur = cur.generators[0].iter
            elif (is_call(cur, 'list') or is_call(cur, 'tuple') or is_call(cur, 'enumerate')) and len(cur.args) == 1:
                cur = cur.args[0]
            elif not isinstance(cur, ast.Name):
                break
            same_len.append(cur)
        nonempty = any(entails(facts, ast.parse(t_, mode='eval').body, tr) for s_ in same_len for (t_, tr) in
                       ((f'len({text(s_)}) > 0', True), (f'len({text(s_)}) == 0', False), (text(s_), True), (f'len({text(s_)})', True)))
        R.check(nonempty, f.q, f'unzip-empty:{text(src)}', f'`{text(a)[:50]}` runs only when `{text(src)}` is not empty',
                f'`{text(a)[:60]}` unpacks zip(*{text(src)}) into {len(a.targets[0].elts)} names with no guard that `{text(src)}` is non-empty: an empty range '
                f'of periods (end before start, or a span shorter than lags + leads) raises ValueError instead of returning empty lists', where=f.where(n))


def r1_solve_loop(R) -> None:
    for q, extra in (('fsic.core.interfaces.SolverMixin.solve', []), ('fsic.core.linkers.BaseLinker.solve', ['submodels'])):
        f = Fn(R, q)
        _unzip_of_possibly_empty(R, f)
        calls = f.nodes_with(lambda x: is_self_call(x, 'solve_t'))
        if not R.require(q, len(calls), 'self.solve_t(t, ...) per period', fi=f.fi, pred=pred_call_attr('solve_t')):
            continue
        R.check(len(calls) == 1, q, 'one-solve_t-site', 'one call site of solve_t', f'{len(calls)} call sites of self.solve_t()', where=f.where(calls[0]))
        n = calls[0]
        call = [x for x in ast.walk(n.ast) if is_self_call(x, 'solve_t')][0]
        R.count_calls()
        lp = [f.cfg.nodes[i] for i in n.loops]
        if not lp:
            in_comp = any(isinstance(c_, (ast.ListComp, ast.GeneratorExp, ast.DictComp, ast.SetComp)) and any(y is call for y in ast.walk(c_)) for c_ in ast.walk(n.ast))
            if in_comp:
                raise Unknown(f'{q}: self.solve_t() is called from a comprehension (`{n.label()[:50]}`): the order and pairing of periods and flags is not read there')
            R.violation(q, 'solve_t-not-in-loop', 'self.solve_t() is not called inside the period loop', where=f.where(n), mismatch=True)
            continue
        loop = lp[-1]
        R.check(len(lp) == 1, q, 'solve_t-once-per-period', 'one solve_t per period', 'solve_t is nested in an inner loop', where=f.where(n))
        # loop iterates enumerate(period_iter) where period_iter = self.iter_periods(start=start, end=end, **kwargs)
        it = loop.ast.iter
        core = it.args[0] if is_call(it, 'enumerate') and len(it.args) == 1 else it
        src = None
        if isinstance(core, ast.Name):
            vals = f.lf.values_reaching(loop.id, core.id)
            if len(vals) == 1:
                src = vals[0][1]
        elif isinstance(core, ast.Call):
            src = core
        ok = src is not None and is_self_call(src, 'iter_periods') and text(kwarg(src, 'start') or ast.Constant(None)) == 'start' \
            and text(kwarg(src, 'end') or ast.Constant(None)) == 'end' and has_star_kwargs(src, 'kwargs')
        R.check(ok, q, 'period-source:' + (text(src)[:60] if src is not None else text(core)), 'periods come from iter_periods(start=start, end=end, **kwargs) in its order',
                f'the period loop iterates `{text(it)[:60]}` which is not iter_periods(start=start, end=end, **kwargs)', where=f.where(loop))
        # targets: i, (t, period)
        tg = loop.ast.target
        names = [x.id for x in ast.walk(tg) if isinstance(x, ast.Name)]
        a0 = call.args[0] if call.args else None
        pos_name = names[1] if is_call(it, 'enumerate') and len(names) >= 3 else (names[0] if names else None)
        R.check(isinstance(a0, ast.Name) and a0.id == pos_name, q, 'solve_t-position', 'solve_t receives the position yielded by iter_periods',
                f'solve_t receives `{text(a0)}`, expected the loop position `{pos_name}`', where=f.where(n))
        c02.forwarding_identity(R, q, call, OPTIONS, where=f.where(n), extra_kw=extra)
        # result stored in solved[i]; labels / indexes
        a = n.ast
        stored = isinstance(a, ast.Assign) and len(a.targets) == 1 and isinstance(a.targets[0], ast.Subscript) and a.value is call
        R.check(stored and text(a.targets[0].slice) == names[0], q, 'flag-stored', 'the flag returned for period i is stored at position i',
                f'`{text(a)[:60]}` does not store the solve_t result at the enumeration index', where=f.where(n))
        flag_list = text(a.targets[0].value) if stored else None
        rets = f.returns()
        if R.require(q, len(rets), 'return (labels, indexes, solved)', fi=f.fi, pred=lambda x: isinstance(x, ast.Return)):
            rv = rets[0].ast.value
            ok = isinstance(rv, ast.Tuple) and len(rv.elts) == 3 and text(rv.elts[2]) == flag_list
            R.check(ok, q, 'return-triple:' + text(rv), 'returns (labels, positions, flags)', f'`return {text(rv)}` is not the (labels, positions, flags) triple',
                    where=f.where(rets[0]))
            if ok:
                lab_l, idx_l = text(rv.elts[0]), text(rv.elts[1])
                st = {}
                for m in f.cfg.nodes:
                    b = m.ast
                    if loop.id in m.loops and m.kind == 'stmt' and isinstance(b, ast.Assign) and isinstance(b.targets[0], ast.Subscript):
                        st[text(b.targets[0].value)] = (text(b.targets[0].slice), text(b.value))
                R.check(st.get(idx_l) == (names[0], pos_name), q, f'positions-list:{st.get(idx_l)}', 'positions list receives the position of period i',
                        f'`{idx_l}[...]` receives {st.get(idx_l)}', where=f.where(loop))
                lab_name = names[2] if len(names) >= 3 else None
                R.check(st.get(lab_l) == (names[0], lab_name), q, f'labels-list:{st.get(lab_l)}', 'labels list receives the label of period i',
                        f'`{lab_l}[...]` receives {st.get(lab_l)}', where=f.where(loop))
        # no try in the loop body, no other effect
        trys = [x for x in ast.walk(loop.ast) if isinstance(x, ast.Try)]
        R.check(not trys, q, 'no-try-in-loop', 'an exception from one period propagates at once (no handler in the loop)',
                'the period loop contains a try block: a failing period could be swallowed and later periods solved', where=f.where(loop))
        eff = [e for e in effect_nodes(f.cfg, effects_of(R.repo)) if loop.id in f.cfg.nodes[e].loops and e != n.id]
        R.check(not eff, q, 'loop-effects', 'the only effect in the loop is the solve_t call',
                f'the period loop has another effect: `{f.cfg.nodes[eff[0]].label() if eff else ""}`', where=f.where(loop))
        # no break / continue / early return in the loop
        jumps = [m for m in f.cfg.nodes if loop.id in m.loops and isinstance(m.ast, (ast.Break, ast.Continue, ast.Return))]
        R.check(not jumps, q, 'no-jumps', 'every period of the range is visited', f'the period loop contains `{jumps[0].label() if jumps else ""}`', where=f.where(loop))


PER_PERIOD_ERRORS = ('IndexError', 'SolutionError', 'NonConvergenceError', 'DimensionError')


def r1b_no_per_period_rejection_up_front(R) -> None:
    """solve() is the ordered sequence of single-period solves: an error that belongs to one period (an offset that
    runs off the span at the last period, a non-finite value, non-convergence) is raised by that period's solve_t(), after
    the earlier periods were solved and stored - never by solve() itself before the loop."""
    for q in ('fsic.core.interfaces.SolverMixin.solve', 'fsic.core.linkers.BaseLinker.solve'):
        f = Fn(R, q)
        bad = [r for r in f.raises() if f.raised(r) in PER_PERIOD_ERRORS]
        for r in bad:
            R.violation(q, f'per-period-error-raised-by-solve:{f.raised(r)}', f'`{text(r.ast)[:70]}`: solve() raises {f.raised(r)} itself; such a condition belongs to the period it '
                        f'concerns and is raised by that period\'s solve_t() after the earlier periods have been solved and recorded', where=f.where(r))
        if not bad:
            R.ok(q, 'solve() raises no per-period error class itself')


def r2_iter_periods(R) -> None:
    q = 'fsic.core.interfaces.SolverMixin.iter_periods'
    f = Fn(R, q)
    rs = f.raises('SolutionError')
    if R.require(q, len(rs), 'raise SolutionError on an empty span', fi=f.fi, pred=pred_raise('SolutionError')):
        r = rs[0]
        g = [(text(a), truth) for (a, truth, _t) in f.guard_atoms(r.id)]
        ok = f.holds(r.id, 'len(self.span) == 0') or f.holds(r.id, 'self.span', False) or f.holds(r.id, 'len(self.span)', False) \
            or f.holds(r.id, 'len(self.span) < 1') or f.holds(r.id, 'len(self.span) > 0', False)
        if not ok and not any('span' in t for (t, _tr) in g):
            ok = False
        elif not ok:
            raise Unknown(f'{q}: empty-span test {g} not in the idiom table')
        R.check(ok, q, 'empty-span-guard', 'an empty span raises SolutionError', f'SolutionError guard is {g}', where=f.where(r))
        tn = [f.cfg.nodes[tid] for (tid, lab) in f.guards_of(r.id)][0]
        others = [n for n in f.cfg.nodes if n.kind in ('stmt', 'test') and n.id != tn.id and n.id != r.id and n.ast is not None
                  and not (isinstance(n.ast, ast.Expr) and isinstance(n.ast.value, ast.Constant))]
        R.check(all(tn.id in f.dom[n.id] for n in others if f.dom[n.id]), q, 'empty-span-first', 'the empty-span rejection comes first',
                'something precedes the empty-span rejection', where=f.where(tn))
    rets = f.returns()
    if R.require(q, len(rets), 'return PeriodIter(indexes, labels)', fi=f.fi, pred=lambda x: isinstance(x, ast.Return)):
        rv = rets[0].ast.value
        rv = f.expand(rets[0].id, rv, depth=2, stop=('indexes',)) if rv is not None else rv
        ok = is_call(rv, 'PeriodIter') and len(rv.args) == 2
        if not ok:
            raise Unknown(f'{q}: `return {text(rv)[:60]}` is not PeriodIter(<positions>, <labels>)')
        idx, lab = rv.args
        sl = lab
        if not (isinstance(sl, ast.Subscript) and isinstance(sl.slice, ast.Slice)):
            raise Unknown(f'{q}: labels `{text(lab)[:60]}` are not a slice of the span')
        # bounds of the label slice vs bounds of the positions range
        rng = f.expand(rets[0].id, idx, depth=3)
        lo_ok = hi_ok = False
        if is_call(rng, 'range') and len(rng.args) >= 2 and sl.slice.lower is not None and sl.slice.upper is not None:
            lo_s, hi_s = f.expand(rets[0].id, sl.slice.lower, depth=3), f.expand(rets[0].id, sl.slice.upper, depth=3)
            lo_ok = text(lo_s) in (text(rng.args[0]), f'{text(rng)}.start') or text(sl.slice.lower) == f'{text(idx)}.start'
            hi_ok = text(hi_s) in (text(rng.args[1]), f'{text(rng)}.stop') or text(sl.slice.upper) == f'{text(idx)}.stop'
        good = text(sl.value) in ('self.span', "self.__dict__['span']") and sl.slice.step is None and lo_ok and hi_ok
        R.check(good, q, 'labels-slice:' + text(lab), 'labels are the slice of span over the same bounds as the positions',
                f'labels `{text(lab)}` do not cover the same bounds as the positions `{text(rng)[:80]}`', where=f.where(rets[0]))
    c03.r7_default_range(R)
    # PeriodIter zips its arguments in order and yields them in order
    pi = R.repo.func('fsic.core.interfaces.PeriodIter.__init__')
    src = text(pi.node)
    R.check('list(zip(*args))' in src and 'len(args[0])' in src, pi.qualname, 'perioditer-zip', 'PeriodIter pairs positions with labels in order',
            'PeriodIter.__init__ does not zip its arguments in order', where=pi.where)
    it = R.repo.func('fsic.core.interfaces.PeriodIter.__iter__')
    R.check('yield from self._iter' in text(it.node), it.qualname, 'perioditer-iter', 'PeriodIter yields the pairs in order', 'PeriodIter.__iter__ does not yield from the zipped list',
            where=it.where)


def r3_validation_first(R) -> None:
    for q in ('fsic.core.interfaces.SolverMixin.solve', 'fsic.fortran.FortranEngine.solve'):
        f = Fn(R, q)
        work = f.nodes_with(lambda x: is_self_call(x, 'solve_t', 'iter_periods') or (isinstance(x, ast.Call) and text(x.func) == 'self.ENGINE.solve'))
        ks = f.raises('KeyError')
        if not R.require(q, len(ks), 'KeyError for start and end labels that do not resolve to one position', fi=f.fi,
                         pred=lambda x: isinstance(x, ast.Raise) and x.exc is not None and text(x.exc) in ('KeyError(start)', 'KeyError(end)')):
            continue
        seen = set()
        for k in ks:
            for nm in ('start', 'end'):
                if f.holds(k.id, f'{nm} is None', False) and f.xholds(k.id, f'isinstance(self._locate_period_in_span({nm}), int)', False) \
                        and text(k.ast.exc) == f'KeyError({nm})':
                    seen.add(nm)
            tn = [f.cfg.nodes[tid] for (tid, lab) in f.guards_of(k.id) if f.cfg.nodes[tid].kind == 'test']
            outer = [t for t in tn if all(t.id in f.dom[u.id] for u in tn)]
            for w in work:
                R.check(bool(outer) and outer[0].id in f.dom[w.id] and not f.cfg.reaches(w.id, k.id), q, f'validation-dominates:{stmt_key(k.ast)}', 'label validation precedes any solving',
                        f'`{w.label()[:50]}` can run before the `{text(k.ast.exc)}` validation', where=f.where(k))
        for nm in ('start', 'end'):
            R.check(nm in seen, q, f'validates:{nm}', f'`{nm}` must resolve to a single int position, else KeyError({nm})',
                    f'no `if {nm} is not None and not isinstance(self._locate_period_in_span({nm}), int): raise KeyError({nm})`', where=f.fi.where)


def _classify_return(f: Fn, node, v: ast.AST, depth: int = 0) -> str:
    if depth > 6:
        return 'unknown'
    if isinstance(v, ast.Constant) and isinstance(v.value, int) and not isinstance(v.value, bool):
        return 'pyint'
    if is_call(v, 'int', 'len'):
        return 'pyint'
    if method_call(v, 'item') and not v.args:
        return 'pyint'
    if method_call(v, 'tolist') and not v.args:
        # ndarray.tolist(): Python scalars all the way down (a list of ints for a 1-D index array)
        return 'pylist' if _classify_return(f, node, v.func.value, depth + 1) in ('ndarray', 'npscalar') else 'unknown'
    if method_call(v, 'index', 'get_loc'):
        return 'library'
    if isinstance(v, ast.Subscript):
        base = _classify_return(f, node, v.value, depth + 1)
        if base in ('ndarray', 'ndarray-tuple'):
            return 'ndarray' if base == 'ndarray-tuple' else 'npscalar'
        if base == 'pylist' and not isinstance(v.slice, ast.Slice):
            return 'pyint'
        return 'unknown'
    if isinstance(v, ast.Name):
        vals = f.lf.values_reaching(node.id, v.id)
        kinds = set()
        for (s, dv) in vals:
            if dv is not None:
                kinds.add(_classify_return(f, f.cfg.nodes[s], dv, depth + 1))
                continue
            # unpacking `(a,) = arr` / `a, b = arr`
            a = f.cfg.nodes[s].ast if s >= 0 else None
            if isinstance(a, ast.Assign) and isinstance(a.targets[0], (ast.Tuple, ast.List)):
                src = _classify_return(f, f.cfg.nodes[s], a.value, depth + 1)
                kinds.add({'ndarray': 'npscalar', 'ndarray-tuple': 'ndarray', 'pylist': 'pyint'}.get(src, 'unknown'))
            else:
                kinds.add('unknown')
        return kinds.pop() if len(kinds) == 1 else 'unknown'
    if isinstance(v, ast.Call):
        d = dotted(v.func) or ''
        if method_call(v, 'nonzero'):
            return 'ndarray-tuple'
        if d.startswith('np.') or d.startswith('numpy.'):
            if d.split('.')[-1] in ('nonzero', 'where'):
                return 'ndarray-tuple'
            return 'ndarray'
    return 'unknown'


def r5_position_type(R) -> None:
    # consumers
    n_cons = 0
    for q in ('fsic.core.interfaces.SolverMixin.solve', 'fsic.core.interfaces.SolverMixin.solve_period', 'fsic.extensions.model.TracerMixin.trace_period',
              'fsic.fortran.FortranEngine.solve'):
        fi = R.repo.func(q)
        for n in ast.walk(fi.node):
            if is_call(n, 'isinstance') and len(n.args) == 2 and text(n.args[1]) == 'int':
                n_cons += 1
    R.expect('consumers', n_cons, 5, '`isinstance(<position>, int)` checks in solve/solve_period/trace_period')
    # producers defined in the package
    ci = R.repo.cls('fsic.core.containers.VectorContainer')
    lst = ci.body_assign('_VALID_INDEX_METHODS')
    if lst is None or not isinstance(lst, (ast.List, ast.Tuple)):
        raise AnchorMissing('VectorContainer._VALID_INDEX_METHODS is not a list display')
    prods = [e.id for e in lst.elts if isinstance(e, ast.Name)]
    R.expect('producers', len(prods), 1, 'package-defined search methods in _VALID_INDEX_METHODS')
    for p_ in prods:
        q = f'fsic.core.containers.VectorContainer.{p_}'
        f = Fn(R, q)
        for r in f.returns():
            v = r.ast.value
            k = _classify_return(f, r, v) if v is not None else 'none'
            if k == 'unknown':
                raise Unknown(f'{q}: cannot type the returned position `{text(v)}`')
            R.check(k in ('pyint', 'library'), q, f'position-type:{text(v)}', 'the position returned is a Python int',
                    f'`return {text(v)}` returns a NumPy {"scalar" if k == "npscalar" else "array"} ({k}): consumers test isinstance(..., int), so '
                    f'solve(start=label) / solve_period(label) raise KeyError for valid labels of a NumPy-array span', where=f.where(r))


def run(R) -> None:
    R.explanation = (
        'C05: the period loops of SolverMixin.solve and BaseLinker.solve: periods come from iter_periods(start, end, **kwargs), exactly one '
        'solve_t per period with the position and identity forwarding of all options, results stored per enumeration index, no try/break/'
        'continue/other effect in the loop; iter_periods: empty-span rejection first, positions/labels over the same bounds, default range; '
        'label validation dominates any solving; position type contract between package-defined producers and the isinstance(..., int) '
        'consumers by a small NumPy-scalar provenance lattice. Containment of failures follows from this and C04.R1 (only position t is '
        'written). Does not decide list/pandas index semantics.'
    )
    R.rule('C05.R1', lambda: (r1_solve_loop(R), r1b_no_per_period_rejection_up_front(R)))
    R.rule('C05.R2', lambda: r2_iter_periods(R))
    R.rule('C05.R3', lambda: (r3_validation_first(R), r3b_single_position(R)))
    R.rule('C05.R4', lambda: r4_containment(R))
    R.rule('C05.R5', lambda: r5_position_type(R))


def r3b_single_position(R) -> None:
    """A label that is unknown or does not resolve to a single position raises KeyError (C10.R3 owns the detail)."""
    from rules import c10
    c10.r3_keyerror_discipline(R)


def r4_containment(R) -> None:
    """Earlier periods keep their state (only position t is written: C04.R1) and
    the failing period carries the status its policy prescribes (C06.R2/R4)."""
    from rules import c04, c06
    from rules.solver_common import SolverShape
    c04.r1_index_discipline(R)
    sh = SolverShape(R.repo, c06.Q)
    c06.r4_exception_discipline(R, sh)
    c06.r2_policy_table(R, sh)


def run_thorough(R) -> None:
    from rules.common import thorough_compositions
    thorough_compositions(R, 'C05.T1', ['solve', 'iter_periods', 'solve_t'])
