"""C07 - the Fortran back-end computes what the Python back-end computes.

The Fortran template is a string constant; it is read statically (fsa/ftn.py)
and each subroutine translated to a Python AST so the same CFG machinery serves
both sides.  R1 numbering, R2 FFI argument agreement, R3 index base, R4 code
tables and exception agreement, R5 control skeleton agreement, R6 equation
rewrite, R7 numeric literals.
"""

from __future__ import annotations

import ast
import re
from fractions import Fraction
from typing import Dict, List, Optional, Set, Tuple

from fsa.cfg import CFG, raised_class
from fsa.consts import fold_class_const, folder
from fsa.flow import LocalFlow, dominators, guards, must_pass
from fsa.ftn import FSub, FUnit, parse_template
from fsa.match import (Affine, Cmp, Unknown, affine, cmp_of, conj_atoms, convergence_test, dotted, is_call, is_const, kwarg, method_call,
                       str_eq_test, enum_value_ref)
from fsa.source import AnchorMissing, Unsupported, iter_own_nodes, stmt_key, text
from rules.common import Fn
from rules.solver_common import expr, series_stores
from rules import c03

FE = 'fsic.fortran.FortranEngine'
BFD = 'fsic.fortran.build_fortran_definition'


def unit_of(R) -> FUnit:
    return parse_template(folder(R.repo, 'fsic.fortran').get('FORTRAN_TEMPLATE'))


# ---------------------------------------------------------------------------
def r1_numbering(R) -> None:
    f = Fn(R, BFD)
    ds = f.assigns_to('variables_to_numbers')
    if not R.require(BFD, len(ds), 'variables_to_numbers = {x: i for i, x in enumerate(chain(...), start=1)}', fi=f.fi, pred=lambda x: isinstance(x, ast.DictComp)):
        return
    dc = ds[0].ast.value
    ok = isinstance(dc, ast.DictComp) and is_call(dc.generators[0].iter, 'enumerate')
    if not ok:
        raise Unsupported(f'{BFD}: variables_to_numbers is not a dict comprehension over enumerate(...)')
    en = dc.generators[0].iter
    start = kwarg(en, 'start') or (en.args[1] if len(en.args) > 1 else None)
    R.check(start is not None and is_const(start, 1), BFD, f'numbering-start:{text(start) if start is not None else 0}', 'variable numbers start at 1 (Fortran rows)',
            f'enumerate(..., start={text(start) if start is not None else 0}): variable numbers must start at 1', where=f.where(ds[0]))
    # which name lists are chained, in which order: read on values (C03.R5 owns the reader)
    order = c03.numbering_order(R, f, f.symexec(deep=True))
    if '?' in order:
        raise Unknown(f'{BFD}: which kinds of names are numbered, in which order, was not read (read as {order}): the name lists are built in a form this rule does not model')
    R.check(order == ['ENDOGENOUS', 'EXOGENOUS', 'PARAMETER', 'ERROR'], BFD, f'numbering-order:{order}',
            'numbering follows NAMES = ENDOGENOUS + EXOGENOUS + PARAMETERS + ERRORS', f'variables are numbered in the order {order}', where=f.where(ds[0]), decided=True)
    tg = [x.id for x in ast.walk(dc.generators[0].target) if isinstance(x, ast.Name)]
    R.check(len(tg) == 2 and text(dc.key) == tg[1] and text(dc.value) == tg[0], BFD, 'numbering-map', 'the map is name -> number', f'`{text(dc)[:60]}`', where=f.where(ds[0]))
    # name lists / lags / leads twin
    c03.r5_definition(R)
    # the integer arrays in module structure
    cid = R.repo.func(BFD + '.<locals>.create_integer_array_definition')
    ok = any(isinstance(n, ast.ListComp) and text(n.elt) == f'variables_to_numbers[{text(n.generators[0].target)}]' and text(n.generators[0].iter) == 'variable_names'
             for n in ast.walk(cid.node))
    R.check(ok, cid.qualname, 'type-arrays', 'the per-type index arrays list the numbers of their variables in order', 'create_integer_array_definition does not map names through variables_to_numbers',
            where=cid.where)
    fm = [x for x in ast.walk(f.fi.node) if method_call(x, 'format') and text(x.func.value) == 'FORTRAN_TEMPLATE']
    if fm:
        kws = {k.arg: text(k.value) for k in fm[0].keywords}
        kwv = {k.arg: k.value for k in fm[0].keywords}
        for nm in ('endogenous', 'exogenous', 'parameters', 'errors'):
            # which names go in is decided on values by C03.R5 (called above); here: the array is built by the helper, under its own label
            v_ = kwv.get(nm)
            okf = is_call(v_, 'create_integer_array_definition') and len(v_.args) == 2 and is_const(v_.args[1], nm)
            R.check(okf, BFD, f'array-field:{nm}:{kws.get(nm)}', f'{{{nm}}} is the index array of the {nm} names',
                    f'template field {nm} receives `{kws.get(nm)}`', where=f.fi.where)
        for nm in ('lags', 'leads'):
            R.check(kws.get(nm) == nm, BFD, f'field:{nm}', f'{{{nm}}} receives {nm}', f'template field {nm} receives `{kws.get(nm)}`', where=f.fi.where)


# ---------------------------------------------------------------------------
def _dims_dummies(sub: FSub) -> Set[str]:
    out: Set[str] = set()
    for d in sub.decls.values():
        if d.dims:
            for x in re.findall(r'[A-Za-z_]\w*', d.dims):
                out.add(x)
    return out


def _f2py_signature(sub: FSub) -> Tuple[List[str], List[str]]:
    dims = _dims_dummies(sub)
    ins = [a for a in sub.args if sub.decls[a].intent == 'in' and a not in dims]
    outs = [a for a in sub.args if sub.decls[a].intent == 'out']
    return ins, outs


def _role_of_actual(a: ast.AST) -> str:
    t = text(a)
    if t == 'self.values.astype(float)':
        return 'initial_values'
    if isinstance(a, ast.Name):
        return a.id
    if isinstance(a, ast.BinOp) and isinstance(a.op, ast.Add) and isinstance(a.left, ast.Name):
        return a.left.id
    if isinstance(a, ast.ListComp):
        it = text(a.generators[0].iter)
        g0 = a.generators[0]
        # the positions to solve, one-based: `[t + 1 for t in <the local list of positions>]`, whatever the list is called
        if it == 'indexes' or (isinstance(g0.iter, ast.Name) and isinstance(g0.target, ast.Name) and isinstance(a.elt, ast.BinOp) and isinstance(a.elt.op, ast.Add)
                               and text(a.elt.left) == g0.target.id and isinstance(a.elt.right, ast.Constant) and a.elt.right.value == 1 and not g0.ifs):
            return 'indexes'
        if it in ('self.check', "self.__dict__['check']"):
            return 'convergence_variables'
    if isinstance(a, ast.Subscript):
        b = text(a.value)
        if b.endswith('_ERROR_OPTIONS'):
            return 'error_control'
        if b.endswith('_FAILURE_OPTIONS'):
            return 'failure_control'
    return '?' + t[:30]


def _engine_calls(R):
    out = []
    for m, sub in (('solve', 'solve'), ('solve_t', 'solve_t'), ('_evaluate', 'evaluate')):
        q = f'{FE}.{m}'
        f = Fn(R, q)
        for n in f.cfg.nodes:
            a = n.ast
            if n.kind == 'stmt' and isinstance(a, ast.Assign) and isinstance(a.value, ast.Call) and text(a.value.func) == f'self.ENGINE.{sub}':
                out.append((q, f, n, a, sub))
    return out


def r2_ffi_agreement(R, unit: FUnit) -> None:
    calls = _engine_calls(R)
    R.expect(FE, len(calls), 3, 'self.ENGINE.<subroutine>(...) call sites')
    for (q, f, n, a, subname) in calls:
        if subname not in unit.subs:
            raise AnchorMissing(f'FORTRAN_TEMPLATE: subroutine {subname} not found')
        sub = unit.subs[subname]
        ins, outs = _f2py_signature(sub)
        R.count_calls()
        c = a.value
        roles = [_role_of_actual(x) for x in c.args]
        # `t + 1` plays the role of dummy t; names must match dummies
        R.check(roles == ins and not c.keywords, q, f'ffi-args:{roles}', f'positional arguments match the intent(in) dummies of `{subname}` in order',
                f'self.ENGINE.{subname}(...) passes {roles} but the subroutine expects {ins} (f2py order: intent(in) dummies as declared, dimensions last)',
                where=f.where(n))
        tg = a.targets[0]
        got = [text(e) for e in tg.elts] if isinstance(tg, ast.Tuple) else [text(tg)]
        want = {'solved_values': 'solved_values', 'converged': 'converged', 'iteration': 'iteration', 'error_code': 'error_code',
                'convergence_results': 'convergences', 'iterations': 'iterations', 'solution_error_codes': 'error_codes'}
        exp = [want.get(o, o) for o in outs]
        if got != exp and set(got) != set(exp) and len(got) == len(exp):
            # other names: matched by what each result is used for - the matrix is what is stored back into `self.values`, the
            # error code(s) what is compared with integer literals
            uses = {}
            for x in ast.walk(f.fi.node):
                if isinstance(x, ast.Assign) and len(x.targets) == 1 and text(x.targets[0]) == 'self.values' and isinstance(x.value, ast.Name):
                    uses[x.value.id] = 'solved_values'
                if isinstance(x, ast.Compare) and isinstance(x.left, ast.Name) and any(isinstance(c_, ast.Constant) and type(c_.value) is int and c_.value not in (0, 1) for c_ in ast.walk(x)):
                    uses.setdefault(x.left.id, 'error_code')
            # a name that is iterated together with others: the loop variable that is compared carries the role back
            for x in ast.walk(f.fi.node):
                if isinstance(x, ast.For) and is_call(x.iter, 'zip') or (isinstance(x, ast.For) and is_call(x.iter, 'enumerate') and x.iter.args and is_call(x.iter.args[0], 'zip')):
                    z = x.iter if is_call(x.iter, 'zip') else x.iter.args[0]
                    tg_ = x.target.elts[-1] if is_call(x.iter, 'enumerate') and isinstance(x.target, ast.Tuple) else x.target
                    if isinstance(tg_, ast.Tuple) and len(tg_.elts) == len(z.args):
                        for a_, t_ in zip(z.args, tg_.elts):
                            if isinstance(a_, ast.Name) and isinstance(t_, ast.Name) and uses.get(t_.id) == 'error_code':
                                uses[a_.id] = 'error_code'
            pos0 = uses.get(got[0]) == 'solved_values'
            posl = uses.get(got[-1]) == 'error_code'
            misplaced = [g_ for i_, g_ in enumerate(got) if (uses.get(g_) == 'solved_values' and i_ != 0) or (uses.get(g_) == 'error_code' and i_ != len(got) - 1)]
            if misplaced:
                R.violation(q, f'ffi-results:{got}', f'results are unpacked as {got} but `{subname}` returns {outs} in that order: `{misplaced[0]}` is used as the '
                            f'{uses[misplaced[0]]} and does not sit where the routine returns it', where=f.where(n))
            elif pos0 and posl:
                R.ok(q, f'the result tuple is unpacked in intent(out) order of `{subname}` (roles read from the uses of {got})')
            else:
                raise Unknown(f'{q}: the results of `{subname}` are unpacked into {got}: which is which was not read from their uses')
            continue
        R.check(got == exp, q, f'ffi-results:{got}', f'the result tuple is unpacked in intent(out) order of `{subname}`',
                f'results are unpacked as {got} but `{subname}` returns {outs} in that order', where=f.where(n))
    # internal calls
    for sname, sub in unit.subs.items():
        for x in ast.walk(sub.pyfunc):
            if isinstance(x, ast.Call) and isinstance(x.func, ast.Name) and x.func.id in unit.subs:
                callee = unit.subs[x.func.id]
                actual = [text(z) for z in x.args]
                ren = {'previous_values': 'initial_values', 'index': 't', 'indexes(i)': 't'}
                mapped = [ren.get(z, z) for z in actual]
                R.check(mapped == callee.args, f'FORTRAN_TEMPLATE.{sname}', f'internal-call:{x.func.id}:{actual}',
                        f'`call {x.func.id}(...)` passes its actuals in the callee\'s dummy order',
                        f'`call {x.func.id}({", ".join(actual)})` does not match the dummy list {callee.args}', where=f'template line {x.lineno}')


# ---------------------------------------------------------------------------
def _subscript_dummies(unit: FUnit) -> Dict[str, Set[str]]:
    """Per subroutine: integer dummies whose value is used as an array subscript
    (directly, through `index = t`, or by being passed on to such a dummy)."""
    arrays = {'solved_values', 'initial_values', 'previous_values'}
    res: Dict[str, Set[str]] = {k: set() for k in unit.subs}
    changed = True
    while changed:
        changed = False
        for sname, sub in unit.subs.items():
            alias: Dict[str, str] = {}
            for n in ast.walk(sub.pyfunc):
                if isinstance(n, ast.Assign) and isinstance(n.targets[0], ast.Name) and isinstance(n.value, ast.Name) and n.value.id in sub.args:
                    alias[n.targets[0].id] = n.value.id
                if isinstance(n, ast.Assign) and isinstance(n.targets[0], ast.Name) and isinstance(n.value, ast.BinOp):
                    for y in ast.walk(n.value):
                        if isinstance(y, ast.Name) and (y.id in alias or y.id in sub.args) and n.targets[0].id not in sub.args:
                            alias.setdefault(n.targets[0].id, alias.get(y.id, y.id))
            used: Set[str] = set()
            # the {equations} slot is filled with solved_values(<n>, index...) references (C07.R6)
            if any(isinstance(n, ast.Name) and n.id == '__PLACEHOLDER_equations__' for n in ast.walk(sub.pyfunc)):
                used.add(alias.get('index', 'index'))
            for n in ast.walk(sub.pyfunc):
                idx_exprs: List[ast.AST] = []
                if isinstance(n, ast.Call) and isinstance(n.func, ast.Name) and n.func.id in arrays:
                    idx_exprs = list(n.args)
                if isinstance(n, ast.Subscript) and isinstance(n.value, ast.Name) and n.value.id in arrays:
                    idx_exprs = list(n.slice.elts) if isinstance(n.slice, ast.Tuple) else [n.slice]
                for e in idx_exprs:
                    for y in ast.walk(e):
                        if isinstance(y, ast.Name):
                            used.add(alias.get(y.id, y.id))
                if isinstance(n, ast.Call) and isinstance(n.func, ast.Name) and n.func.id in unit.subs:
                    callee = unit.subs[n.func.id]
                    for arg, dummy in zip(n.args, callee.args):
                        if dummy in res[n.func.id]:
                            for y in ast.walk(arg):
                                if isinstance(y, ast.Name):
                                    used.add(alias.get(y.id, y.id))
            new = {u for u in used if u in sub.args and sub.decls[u].type == 'integer' and sub.decls[u].intent == 'in'} - _dims_dummies(sub)
            if not new <= res[sname]:
                res[sname] |= new
                changed = True
    return res


def _one_based(a: ast.AST) -> Optional[bool]:
    """Is the Python actual of the form `e + 1` (element-wise for comprehensions)?"""
    if isinstance(a, ast.ListComp):
        return _one_based(a.elt)
    if isinstance(a, ast.BinOp) and isinstance(a.op, ast.Add):
        return is_const(a.right, 1) or is_const(a.left, 1)
    if isinstance(a, (ast.Call, ast.Name, ast.Attribute, ast.Subscript)):
        return False
    return None


def r2b_results_stored_first(R) -> None:
    """The values returned by the engine are stored back before any status
    bookkeeping or exception derived from the error codes (the pure-Python
    engine keeps what earlier periods computed when a later one fails)."""
    for (q, f, n, a, subname) in _engine_calls(R):
        stores = [m for m in f.cfg.nodes if m.kind == 'stmt' and isinstance(m.ast, ast.Assign) and text(m.ast.targets[0]) == 'self.values']
        if not R.require(q, len(stores), 'self.values = solved_values', fi=f.fi, pred=lambda x: isinstance(x, ast.Attribute) and x.attr == 'values' and isinstance(x.ctx, ast.Store)):
            continue
        st = stores[0]
        R.check(n.id in f.dom[st.id], q, 'values-after-engine', 'the stored matrix is the one the engine returned', 'self.values is stored before the engine call',
                where=f.where(st))
        if subname == 'evaluate':
            # evaluation: nothing is stored when the engine reports an error
            for r in f.raises():
                if n.id in f.dom[r.id]:
                    R.check(not f.cfg.reaches(st.id, r.id), q, f'evaluate-store-after-checks:{raised_class(r.ast)}', 'a failed evaluation stores nothing',
                            'values are stored before the error code of evaluate() is checked', where=f.where(st))
            continue
        later = [r for r in f.raises() if n.id in f.dom[r.id] and any('error_code' in text(x) or 'converged' in text(x) or 'status' in text(x)
                                                                      for (x, _t, _n) in f.guard_atoms(r.id))]
        for r in later:
            R.check(st.id in f.dom[r.id], q, f'values-before-raise:{raised_class(r.ast)}:{stmt_key(r.ast)[:30]}',
                    'engine results are stored before an exception derived from the outcome is raised',
                    f'`raise {raised_class(r.ast)}` (L{r.lineno}) can be reached before `self.values = solved_values`: the model would keep its old values '
                    f'although statuses of the solved periods were updated', where=f.where(st))
        sts = [m for m in f.cfg.nodes if m.kind == 'stmt' and isinstance(m.ast, ast.Assign) and isinstance(m.ast.targets[0], ast.Subscript)
               and text(m.ast.targets[0].value) in ('self.status', 'self.iterations') and n.id in f.dom[m.id]]
        for m in sts:
            R.check(st.id in f.dom[m.id], q, f'values-before-status:{stmt_key(m.ast)[:40]}', 'values are stored before statuses are recorded',
                    f'`{m.label()[:50]}` can run before the engine results are stored', where=f.where(m))


def r3_index_base(R, unit: FUnit) -> None:
    sd = _subscript_dummies(unit)
    n = 0
    for (q, f, node, a, subname) in _engine_calls(R):
        sub = unit.subs[subname]
        ins, _outs = _f2py_signature(sub)
        for actual, dummy in zip(a.value.args, ins):
            if dummy in sd[subname]:
                n += 1
                ob = _one_based(actual)
                if ob is None:
                    raise Unknown(f'{q}: cannot tell whether `{text(actual)[:40]}` is one-based')
                R.check(ob, q, f'index-base:{dummy}:{text(actual)[:50]}', f'`{dummy}` is used as a Fortran subscript and receives a one-based value',
                        f'`{text(actual)[:60]}` is passed as `{dummy}`, which the Fortran code uses as a (one-based) array subscript: zero-based positions '
                        f'read row/column 0 (out of bounds) and never reach the last one', where=f.where(node))
    R.expect(FE, n, 5, 'subscript-valued actuals at the FFI boundary')


# ---------------------------------------------------------------------------
PY_EXCEPTION_FOR = {
    # situation -> exception class raised by the pure-Python engine
    'index_error_below': 'IndexError', 'index_error_above': 'IndexError', 'index_error_lags': 'IndexError', 'index_error_leads': 'IndexError',
    'numerical_error_raise': 'SolutionError', 'numerical_error_skip': None, 'pre_existing_non_finite_value': 'SolutionError',
    'offset_predates_span': 'IndexError', 'offset_postdates_span': 'IndexError',
}


def _wrapper_code_table(f: Fn) -> Tuple[Dict[int, Tuple[str, Optional[str]]], Optional[str]]:
    """{literal code: (condition text, exception class raised or None)} and the default-branch exception."""
    table: Dict[int, Tuple[str, Optional[str]]] = {}
    default = None
    for t in f.tests():
        codes: List[int] = []
        for a in conj_atoms(t.ast):
            if isinstance(a, ast.Compare) and text(a.left) == 'error_code' and isinstance(a.ops[0], (ast.Eq, ast.In)):
                c = a.comparators[0]
                if isinstance(c, ast.Constant) and isinstance(c.value, int):
                    codes.append(c.value)
                elif isinstance(c, (ast.Tuple, ast.List)):
                    codes += [e.value for e in c.elts if isinstance(e, ast.Constant)]
        if not codes:
            continue
        exc = None
        for (b, lab) in t.succ:
            if lab == 'T':
                reach = f.cfg.reachable_from(b, avoid=[t.id])
                for r in f.raises():
                    # a raise directly governed by this test (not by a later elif)
                    g = [tid for (tid, l2) in f.guards_of(r.id) if l2 == 'T']
                    if t.id in g and not any(f.cfg.nodes[x].kind == 'test' and x != t.id and t.id in f.dom[x] and (x, 'T') in f.guards_of(r.id)
                                             and 'error_code' in text(f.cfg.nodes[x].ast) for x in g):
                        exc = raised_class(r.ast)
        for c in codes:
            if c != 0:
                table[c] = (text(t.ast), exc)
    for r in f.raises('FortranEngineError'):
        default = 'FortranEngineError'
    return table, default


def _vectorised_status(f, q) -> None:
    """The statuses are written in one array operation (`self.status[positions] = status[mask]`): which code ends with which
    status is then a matter of mask arithmetic, which this rule does not read."""
    for s_ in series_stores(f.cfg, f.lf):
        collected = isinstance(s_.value, ast.Name) and s_.value.id in f.lf.locals and s_.value.id in f.mutated_in_place()
        if s_.series == 'status' and (collected or (isinstance(s_.value, ast.Subscript) and isinstance(s_.value.value, ast.Name) and s_.value.value.id in f.lf.locals)):
            raise Unknown(f'{q}: `{s_.node.label()[:60]}` records the statuses of all periods in one array operation: the status per error code is not read')


def r4_code_tables(R, unit: FUnit) -> None:
    eo = fold_class_const(R.repo, FE, '_ERROR_OPTIONS')
    fo = fold_class_const(R.repo, FE, '_FAILURE_OPTIONS')
    ec = unit.modules.get('error_codes')
    fc = unit.modules.get('failure_codes')
    if ec is None or fc is None:
        raise AnchorMissing('FORTRAN_TEMPLATE: modules error_codes / failure_codes')
    for k, v in eo.items():
        tv = ec.consts.get(f'error_control_{k}')
        R.check(tv is not None and int(tv) == v, FE, f'error-option:{k}:{v}:{tv}', f"errors='{k}' is code {v} on both sides",
                f"_ERROR_OPTIONS['{k}'] = {v} but the template has error_control_{k} = {tv}")
    for k, v in fo.items():
        tv = fc.consts.get(f'failure_control_{k}')
        R.check(tv is not None and int(tv) == v, FE, f'failure-option:{k}:{v}:{tv}', f"failures='{k}' is code {v} on both sides",
                f"_FAILURE_OPTIONS['{k}'] = {v} but the template has failure_control_{k} = {tv}")
    R.check(set(eo) == {'raise', 'skip', 'ignore', 'replace'} and set(fo) == {'raise', 'ignore'}, FE, 'option-keys', 'option keys are the documented policies',
            f'option keys are {sorted(eo)} / {sorted(fo)}')
    names_by_code = {int(v): k for k, v in ec.consts.items() if not k.startswith('error_control_')}
    # which codes can each subroutine return (transitively)?
    def assignable(sname: str, seen=None) -> Set[str]:
        seen = seen or set()
        if sname in seen:
            return set()
        seen.add(sname)
        sub = unit.subs[sname]
        out: Set[str] = set()
        for n in ast.walk(sub.pyfunc):
            if isinstance(n, ast.Assign) and text(n.targets[0]) in ('error_code',) and isinstance(n.value, ast.Name):
                out.add(n.value.id)
            if isinstance(n, ast.Call) and isinstance(n.func, ast.Name) and n.func.id in unit.subs:
                out |= assignable(n.func.id, seen)
        return out

    # What each wrapper does with each error code is decided path-sensitively: the exploration is split by the value
    # of the error-code local (every code the template defines, plus one it does not), of `errors`, and of the boolean
    # results bound together with the code.  It does not matter whether the wrapper is an if/elif ladder, guard
    # clauses or a mixture.
    from fsa.flow import bound_on_edge, names_bound
    from fsa.pathsens import Flags, OTHER
    all_codes = sorted({int(v) for k, v in ec.consts.items() if not k.startswith('error_control_')})
    unknown_code = max(all_codes + [0]) + 57
    for m, subname in (('solve', 'solve'), ('solve_t', 'solve_t'), ('_evaluate', 'evaluate')):
        q = f'{FE}.{m}'
        f = Fn(R, q)
        # role: the local compared with error-code literals
        cands = {}
        for t in f.tests():
            for x in ast.walk(t.ast):
                if isinstance(x, ast.Compare) and isinstance(x.left, ast.Name) and len(x.ops) == 1:
                    c0 = x.comparators[0]
                    lits = [c0] if isinstance(c0, ast.Constant) else (list(c0.elts) if isinstance(c0, (ast.Tuple, ast.List, ast.Set)) else [])
                    if lits and all(isinstance(l_, ast.Constant) and type(l_.value) is int for l_ in lits):
                        cands[x.left.id] = cands.get(x.left.id, 0) + 1
                        for l_ in lits:
                            if l_.value != 0:
                                R.check(l_.value in names_by_code, q, f'code-exists:{l_.value}', f'literal code {l_.value} exists in module error_codes ({names_by_code.get(l_.value)})',
                                        f'the wrapper tests error code {l_.value}, which module error_codes does not define', where=f.fi.where)
        cands = {k: v for k, v in cands.items() if k in f.lf.locals and k not in f.fi.params()}
        if not cands:
            raise Unsupported(f'{q}: no local is compared with error-code literals')
        ecv = max(cands, key=cands.get)
        # booleans bound by the same construct (the engine's `converged`)
        co = set()
        for n in f.cfg.nodes:
            bound = set(names_bound(n))
            for (b_, lab) in n.succ:
                bound |= set(bound_on_edge(f.cfg, n.id, lab))
            if ecv in bound:
                co |= {x for x in bound if x != ecv}
        def _bool_operands(t_):
            # names standing as a truth value in a test: the test itself, or an operand of and / or / not at any depth
            if isinstance(t_, ast.Name):
                yield t_.id
            elif isinstance(t_, ast.BoolOp):
                for v_ in t_.values:
                    yield from _bool_operands(v_)
            elif isinstance(t_, ast.UnaryOp) and isinstance(t_.op, ast.Not):
                yield from _bool_operands(t_.operand)
        bools = sorted(x for x in co if any(x in set(_bool_operands(t.ast)) for t in f.tests()))
        doms = {'errors': ['raise', 'skip', 'ignore', 'replace'], ecv: [0] + all_codes + [unknown_code]}
        for b_ in bools:
            doms[b_] = [True, False]
        fl = Flags(f.cfg, f.fi.params(), domains=doms)
        ei, ci = fl.idx.get('errors'), fl.idx[ecv]
        bi = [fl.idx[b_] for b_ in bools]
        binders = []
        for n in f.cfg.nodes:
            if ecv in names_bound(n) or any(ecv in bound_on_edge(f.cfg, n.id, lab) for (_b, lab) in n.succ):
                binders.append(n)
        loop_hdrs = [n.id for n in binders if n.kind == 'for']

        def outcome(code, mode):
            starts = []
            for n in binders:
                for s_ in fl.states_at(n.id):
                    for (q_, lab) in fl.succ[(n.id, s_)]:
                        s2 = q_[1]
                        if lab in ('exc', 'raise') or s2[ci][0] != 'c' or s2[ci][2] != code:
                            continue
                        if ei is not None and not (s2[ei][0] == 'c' and s2[ei][2] == mode):
                            continue
                        if code != 0 and any(s2[i][0] == 'c' and s2[i][2] is True for i in bi):
                            continue
                        starts.append(q_)
            reach = fl.reach(starts, avoid_nodes=loop_hdrs)
            nodes = {p_[0] for p_ in reach}
            out = set()
            for p_ in reach:
                nd = f.cfg.nodes[p_[0]]
                if nd.kind == 'stmt' and isinstance(nd.ast, ast.Raise):
                    ex_ = nd.ast.exc
                    if isinstance(ex_, ast.Name) and ex_.id in fl.idx:
                        # an exception object built earlier and carried in a local: its class is part of the state
                        tok = p_[1][fl.idx[ex_.id]]
                        out.add(tok[1] if tok[0] == 'x' else '?')
                    else:
                        out.add(f.raised(nd) or '?')
            normal = f.cfg.exit in nodes or any(q_[0] in loop_hdrs for p_ in reach for (q_, _l) in fl.succ.get(p_, []))
            if normal:
                out.add('<normal>')
            # statuses stored through a flag (`self.status[t] = status.value`, status chosen earlier): read from the state
            stored = set()
            for p_ in reach:
                nd = f.cfg.nodes[p_[0]]
                a_ = nd.ast
                if nd.kind == 'stmt' and isinstance(a_, ast.Assign) and len(a_.targets) == 1 and isinstance(a_.targets[0], ast.Subscript) and text(a_.targets[0].value) == 'self.status':
                    tok = fl.val(a_.value, p_[1])
                    if tok[0] == 'e' and tok[3] == 'value':
                        stored.add(tok[2])
            outcome.stored = stored
            return out, nodes, bool(starts)

        default_exc = 'FortranEngineError' if m != '_evaluate' else 'SolutionError'
        modes = ['raise', 'skip', 'ignore', 'replace'] if ei is not None else [None]
        got_default = set()
        for md in modes:
            o_, _n, any_ = outcome(unknown_code, md)
            if any_:
                got_default |= o_
        R.check(got_default == {default_exc}, q, 'default-branch', f'an unhandled error code surfaces as {default_exc}',
                f'an error code the wrapper does not know leads to {sorted(got_default)}, expected {default_exc}', where=f.fi.where)
        can = assignable(subname)
        # codes excluded because the wrapper itself rejects the situation before calling the engine
        pre: Set[str] = set()
        if any(f.raised(r) == 'IndexError' and not any(ecv in text(a_) for (a_, _tr, _t) in f.guard_atoms(r.id)) and not any(f.cfg.reaches(bn.id, r.id) for bn in binders)
               for r in f.raises('IndexError')):
            pre |= {'offset_predates_span', 'offset_postdates_span'}
        if any(not any(f.cfg.reaches(bn.id, r.id) for bn in binders) for r in f.raises('SolutionError')):
            pre.add('pre_existing_non_finite_value')
        for cname in sorted(can):
            if cname not in PY_EXCEPTION_FOR:
                continue
            code = int(ec.consts[cname])
            want = PY_EXCEPTION_FOR[cname]
            if cname in pre:
                R.ok(q, f'{cname} ({code}): the wrapper rejects the situation itself before calling the engine', trivial=True)
                continue
            acting = {'numerical_error_raise': ['raise'], 'numerical_error_skip': ['skip'], 'pre_existing_non_finite_value': ['raise']}.get(cname, modes)
            if ei is None:
                acting = [None]
            got = set()
            touched = set()
            stored_ = set()
            for md in acting:
                o_, nn_, any_ = outcome(code, md)
                if any_:
                    got |= o_
                    touched |= nn_
                    stored_ |= getattr(outcome, 'stored', set())
            if want is None:
                R.check(got == {'<normal>'}, q, f'code-exception:{cname}', f'{cname} ({code}) raises nothing (status S)', f'{cname} ({code}) leads to {sorted(got)}', where=f.fi.where)
                st_s = [s_ for s_ in series_stores(f.cfg, f.lf) if s_.node.id in touched and s_.series == 'status' and enum_value_ref(s_.value) == 'SKIPPED']
                skipped_flag = any(isinstance(f.cfg.nodes[i].ast, ast.Assign) and enum_value_ref(f.cfg.nodes[i].ast.value) == 'SKIPPED' for i in touched) or \
                    any(isinstance(x, ast.Attribute) and text(x) == 'SolutionStatus.SKIPPED.value' for i in touched if f.cfg.nodes[i].ast is not None for x in ast.walk(f.cfg.nodes[i].ast))
                skipped_flag = skipped_flag or 'SKIPPED' in stored_
                if not (st_s or skipped_flag):
                    _vectorised_status(f, q)
                R.check(bool(st_s) or skipped_flag, q, f'code-status:{cname}', f'{cname} ({code}) records status S', f'{cname} ({code}) does not record SolutionStatus.SKIPPED', where=f.fi.where)
                continue
            R.check(got == {want}, q, f'code-exception:{cname}:{sorted(got)}',
                    f'{cname} ({code}) surfaces as {want}, as in the Python engine',
                    f'error code {code} ({cname}) leads to {sorted(got)} from {m}() but the pure-Python engine raises {want} in the same situation', where=f.fi.where)
            if cname == 'numerical_error_raise':
                st_e = [s_ for s_ in series_stores(f.cfg, f.lf) if s_.node.id in touched and s_.series == 'status' and enum_value_ref(s_.value) == 'ERROR']
                if not st_e and 'ERROR' in stored_:
                    st_e = [True]
                if not st_e and m != '_evaluate':
                    _vectorised_status(f, q)
                R.check(bool(st_e) or m == '_evaluate', q, f'code-status:{cname}', f'{cname} ({code}) records status E before raising', f'{cname} ({code}) does not record SolutionStatus.ERROR',
                        where=f.fi.where)
        # the run over several periods: the wrapper goes through the periods in order and raises at the first one whose code calls
        # for it - having already stored every value the engine returned.  So the engine must have stopped at that period exactly
        # when the wrapper is going to raise there: carried on, it has solved later periods that the pure-Python loop never reaches
        if m == 'solve' and ei is not None:
            fstop = _ftn_solve_stops(unit, ec, fc)
            for cname in sorted(can):
                if cname not in PY_EXCEPTION_FOR or cname in pre or cname not in ec.consts:
                    continue
                code = int(ec.consts[cname])
                acting = {'numerical_error_raise': ['raise'], 'numerical_error_skip': ['skip'], 'pre_existing_non_finite_value': ['raise']}.get(cname, modes)
                for md in acting:
                    o_, _nn, any_ = outcome(code, md)
                    if not any_:
                        continue
                    raises_ = bool(o_ - {'<normal>'}) and '<normal>' not in o_
                    stops_ = fstop(code, int(eo[md]))
                    if stops_ is None:
                        raise Unknown(f'FORTRAN_TEMPLATE.solve: whether the period loop stops for error code {code} under errors={md!r} was not evaluated')
                    R.check(raises_ == stops_, 'FORTRAN_TEMPLATE.solve', f'stop-agrees:{cname}:{md}',
                            f"code {code} ({cname}) under errors='{md}': the engine {'stops' if stops_ else 'carries on'} and the wrapper {'raises' if raises_ else 'carries on'}",
                            f"error code {code} ({cname}) under errors='{md}': the wrapper {'raises ' + '/'.join(sorted(o_ - {'<normal>'})) if raises_ else 'carries on'} at that period but the "
                            f"Fortran period loop {'stops there' if stops_ else 'carries on and solves the later periods, whose values the wrapper stores before it raises'}: after the same "
                            f"exception the two engines hold different values", where='template', decided=True)
        # a mode-specific code under another mode is not acted on as if it were expected
        if ei is not None:
            for cname, own in (('numerical_error_raise', 'raise'), ('numerical_error_skip', 'skip')):
                if cname not in can or cname not in ec.consts:
                    continue
                code = int(ec.consts[cname])
                got = set()
                for md in modes:
                    if md != own:
                        o_, _n, any_ = outcome(code, md)
                        if any_:
                            got |= o_
                R.check(got == {default_exc}, q, f'code-mode:{code}', f"code {code} is acted on only under errors == '{own}'",
                        f"code {code} under another errors= mode leads to {sorted(got)}, expected {default_exc}", where=f.fi.where)


def _ftn_solve_stops(unit: FUnit, ec, fc):
    """(error code, error-control value) -> does the period loop of the Fortran `solve` return at a period that ended with that
    code (True / False; None if a guard could not be evaluated).  The guards of every `return` inside the loop are evaluated on
    the constants of the two code modules."""
    sv = unit.subs.get('solve')
    if sv is None:
        raise AnchorMissing('FORTRAN_TEMPLATE: subroutine solve')
    scfg = CFG(sv.pyfunc)
    loops = [n for n in scfg.nodes if n.kind == 'for']
    rets = [n for n in scfg.nodes if isinstance(n.ast, ast.Return) and loops and loops[0].id in n.loops]
    consts = {}
    for mod_ in (ec, fc):
        for k_, v_ in mod_.consts.items():
            try:
                consts[k_] = int(v_)
            except (TypeError, ValueError):
                pass

    def stops(code: int, control: int):
        env = dict(consts)
        env.update({'error_code': code, 'error_control': control, 'converged': False, 'failure_control': consts.get('failure_control_ignore', -99)})
        any_unknown = False
        for r in rets:
            ok_all = True
            for (tid, lab) in guards(scfg, r.id):
                tn = scfg.nodes[tid]
                if tn.kind != 'test' or lab not in ('T', 'F'):
                    continue
                try:
                    val = bool(eval(compile(ast.fix_missing_locations(ast.Expression(body=tn.ast)), '<guard>', 'eval'), {'__builtins__': {}}, dict(env)))
                except Exception:
                    any_unknown = True
                    ok_all = False
                    break
                if val != (lab == 'T'):
                    ok_all = False
                    break
            if ok_all:
                return True
        return None if any_unknown else False

    return stops


def r4c_empty_span(R) -> None:
    """An empty span: the pure-Python `solve()` raises SolutionError (in `iter_periods()`); the wrapper, which does not call
    `iter_periods()`, must reject it the same way before it takes `span[lags]` / `span[-1 - leads]` as the default bounds
    (which raises IndexError on an empty span)."""
    q = f'{FE}.solve'
    f = Fn(R, q)
    forms = ('len(self.span) == 0', 'len(self.span) < 1')
    neg = ('self.span', 'len(self.span)', 'len(self.span) > 0')
    rs = [r for r in f.raises('SolutionError') if any(f.holds(r.id, t_) for t_ in forms) or any(f.holds(r.id, t_, False) for t_ in neg)]
    subs = [n for n in f.cfg.nodes if n.ast is not None and n.kind in ('stmt', 'test') and any(
        isinstance(x, ast.Subscript) and text(x.value) in ('self.span', "self.__dict__['span']") and isinstance(x.ctx, ast.Load) for x in ast.walk(n.ast))]
    if not subs:
        R.inconclusive(q, 'the default bounds are not taken by subscripting the span: where an empty span would fail was not read')
        return
    guards_ = {tid for r in rs for (tid, _lab) in f.guards_of(r.id)}
    ok = bool(rs) and all(any(g_ in f.dom[n.id] for g_ in guards_) for n in subs)
    R.check(ok, q, 'empty-span-rejected', 'an empty span raises SolutionError before the span is subscripted, as in the pure-Python solve()',
            f'`{text(subs[0].ast)[:60]}` subscripts the span with no empty-span rejection before it: FortranEngine.solve() on an empty span raises IndexError where the pure-Python '
            f'solve() raises SolutionError (`Object `span` is empty`) - a different exception type for the same call', where=f.where(subs[0]))


def r4b_outcome_recorded_before_raise(R) -> None:
    """The pure-Python engine records the status and the iteration count of a period and *then* raises for it
    (NonConvergenceError after 'F', SolutionError after 'E').  The wrappers must leave the same record behind: every such
    raise is preceded, on every path, by a store into the status series and one into the iterations series."""
    for m in ('solve', 'solve_t'):
        q = f'{FE}.{m}'
        f = Fn(R, q)
        stores = series_stores(f.cfg, f.lf)
        st_nodes = {k: [s_.node.id for s_ in stores if s_.series == k] for k in ('status', 'iterations')}
        for cls_, msgkey in (('NonConvergenceError', 'non-convergence'),):
            rs = f.raises(cls_)
            if not rs:
                R.inconclusive(q, f'no `raise {cls_}` found in the form this rule reads')
                continue
            for r in rs:
                for k in ('status', 'iterations'):
                    before = [i for i in st_nodes[k] if i in f.dom[r.id]]
                    # a store that every path to the raise passes (dominates it), or a set of stores that together cut every path
                    from fsa.flow import must_pass
                    cut = bool(before) or (bool(st_nodes[k]) and must_pass(f.cfg, f.cfg.entry, r.id, st_nodes[k]))
                    R.check(cut, q, f'recorded-before-raise:{cls_}:{k}', f'the {k} of the period is recorded before {cls_} is raised for it',
                            f'`raise {cls_}` at L{r.lineno} is reached without the {k} of the period having been stored: the pure-Python engine records the status (F) and the '
                            f'iteration count first and then raises, so after the same exception the two objects differ', where=f.where(r), decided=bool(st_nodes[k]))


# ---------------------------------------------------------------------------
def r5_skeleton(R, unit: FUnit) -> None:
    sub = unit.subs.get('solve_t')
    if sub is None:
        raise AnchorMissing('FORTRAN_TEMPLATE: subroutine solve_t')
    cfg = CFG(sub.pyfunc)
    lf = LocalFlow(cfg, sub.args)
    dom = dominators(cfg)
    C = 'FORTRAN_TEMPLATE.solve_t'

    def G(nid):
        return guards(cfg, nid)

    loops = [n for n in cfg.nodes if n.kind == 'for' and text(n.ast.target) == 'iteration']
    if not R.expect(C, len(loops), 1, 'do iteration = 1, max_iter'):
        return
    lp = loops[0]
    it = lp.ast.iter
    R.check(affine(it.args[0]) == affine(expr('1')) and affine(it.args[1]) == affine(expr('max_iter + 1')), C, 'loop-bounds:' + text(it), 'passes run 1..max_iter',
            f'the pass loop is `{text(it)}`', where=f'template line {lp.lineno}')
    # normalisation of t
    norm = [n for n in cfg.nodes if n.kind == 'stmt' and isinstance(n.ast, ast.Assign) and text(n.ast.targets[0]) == 'index']
    ok = any(text(n.ast.value) == 't' for n in norm) and any(affine(n.ast.value) == affine(expr('index + ncols')) and
                                                             any((cmp_of(cfg.nodes[tid].ast) or Cmp('==', Affine())).as_int() == cmp_of(expr('index < 1')).as_int() and lab == 'T' for (tid, lab) in G(n.id)) for n in norm)
    R.check(ok, C, 'reverse-index', 'non-positive positions count from the end (index = t; if index < 1: index += ncols)', 'reverse-index normalisation differs', where='template')
    # offset guards
    tests = [n for n in cfg.nodes if n.kind == 'test']
    ol = [n for n in cfg.nodes if n.kind == 'stmt' and isinstance(n.ast, ast.Assign) and text(n.ast.targets[0]) == 'offset_location']
    ok_ol = len(ol) == 1 and affine(ol[0].ast.value) == affine(expr('index + offset'))
    R.check(ok_ol, C, 'offset-location', 'offset_location = index + offset', f'`{text(ol[0].ast) if ol else "?"}`', where='template')
    subst = {'offset_location': Affine(Fraction(1), {'P': Fraction(1), 'offset': Fraction(1)}), 'ncols': Affine(Fraction(0), {'N': Fraction(1)})}
    lo = hi = None
    for t in tests:
        c = cmp_of(t.ast, subst)
        if c is None:
            continue
        if c.as_int() == cmp_of(expr('P + offset < 0')).as_int():
            lo = t
        if c.as_int() == cmp_of(expr('P + offset >= N')).as_int():
            hi = t
    for which, t, desc, code in (('lo', lo, 'P + offset < 0', 'offset_predates_span'), ('hi', hi, 'P + offset >= ncols', 'offset_postdates_span')):
        if t is None:
            R.violation(C, f'offset-guard-{which}', f'no offset rejection equivalent to `{desc}` (0-based P) in the Fortran routine; the Python solver has it', where='template', mismatch=True)
            continue
        tb = [b for (b, lab) in t.succ if lab == 'T']
        okc = all(isinstance(cfg.nodes[b].ast, ast.Assign) and text(cfg.nodes[b].ast.value) == code for b in tb)
        R.check(okc, C, f'offset-guard-{which}-code', f'`{desc}` sets {code}', f'the `{desc}` branch does not set {code}', where=f'template line {t.lineno}')
    cps = [n for n in cfg.nodes if n.kind == 'stmt' and isinstance(n.ast, ast.Assign) and isinstance(n.ast.targets[0], ast.Subscript)
           and text(n.ast.targets[0]) == 'solved_values[endogenous, index]']
    ok = len(cps) == 1 and text(cps[0].ast.value) == 'solved_values(endogenous, offset_location)' and lo is not None and hi is not None \
        and (lo.id, 'F') in G(cps[0].id) and (hi.id, 'F') in G(cps[0].id)
    R.check(ok, C, 'offset-copy', 'endogenous rows of column index are seeded from column index + offset after both range checks',
            'the offset copy is missing, copies other rows/columns, or is not guarded by both range checks', where='template')
    # pre-existing check
    pre = [t for t in tests if lp.id not in t.loops and 'ieee_is_finite' in text(t.ast)]
    ok = len(pre) == 1 and {text(a) for a in conj_atoms(pre[0].ast)} == {'error_control == error_control_raise', 'any(not ieee_is_finite(current_check))'} \
        and pre[0].id in dom[lp.id]
    R.check(ok, C, 'pre-existing', "pre-existing non-finite check values are rejected under errors='raise' only, before the first pass",
            'the pre-existing check differs from the Python solver (condition or placement)', where='template')
    # min_iter gate
    gate = [t for t in tests if lp.id in t.loops and cmp_of(t.ast) is not None and set(cmp_of(t.ast).expr.terms) == {'iteration', 'min_iter'}]
    conv = []
    for t in tests:
        if lp.id in t.loops and 'tol' in text(t.ast):
            try:
                conv.append((t, convergence_test(t.ast)))
            except Unknown as e:
                raise Unknown(f'{C}: convergence test `{text(t.ast)}` not in the idiom table: {e}')
    if not (R.expect(C, len(gate), 1, 'iteration < min_iter gate') and R.expect(C, len(conv), 1, 'convergence test')):
        return
    g, (ct, (quant, op, operand, tol, has_abs)) = gate[0], conv[0]
    okg = cmp_of(g.ast).as_int() == cmp_of(expr('iteration < min_iter')).as_int() and (g.id, 'F') in G(ct.id) \
        and all(isinstance(cfg.nodes[b].ast, ast.Continue) for (b, lab) in g.succ if lab == 'T')
    R.check(okg, C, 'min-iter-gate:' + text(g.ast), 'below min_iter the pass is not judged (cycle)', f'gate `{text(g.ast)}` differs from `iteration < min_iter -> cycle` or does not guard the test',
            where=f'template line {g.lineno}')
    R.check(quant == 'all' and op == '<' and has_abs and text(tol) == 'tol', C, f'convergence:{quant}:{op}:{has_abs}', 'converged iff all(abs(diff) < tol), strict',
            f'Fortran convergence test is {quant}(|d| {op} {text(tol)}), abs={has_abs}; the Python solver uses all(|d| < tol)', where=f'template line {ct.lineno}')
    if isinstance(operand, ast.Name):
        vals = lf.values_reaching(ct.id, operand.id)
        okd = len(vals) == 1 and vals[0][1] is not None and text(vals[0][1]) == 'current_check - previous_check'
        R.check(okd, C, 'diff', 'diff = current_check - previous_check', f'`{operand.id}` is `{text(vals[0][1]) if vals and vals[0][1] is not None else "?"}`', where='template')
    ev = [n for n in cfg.nodes if n.kind == 'stmt' and isinstance(n.ast, ast.Expr) and is_call(n.ast.value, 'evaluate')]
    prevs = [n for n in cfg.nodes if n.kind == 'stmt' and isinstance(n.ast, ast.Assign) and text(n.ast.targets[0]) == 'previous_check' and lp.id in n.loops]
    curs = [n for n in cfg.nodes if n.kind == 'stmt' and isinstance(n.ast, ast.Assign) and text(n.ast.targets[0]) == 'current_check' and lp.id in n.loops]
    ok = len(ev) == 1 and len(prevs) == 1 and len(curs) == 1 and prevs[0].id in dom[ev[0].id] and ev[0].id in dom[curs[0].id] and text(prevs[0].ast.value) == 'current_check' \
        and text(curs[0].ast.value) == 'solved_values(convergence_variables, index)'
    R.check(ok, C, 'prev-eval-cur', 'previous saved before, current re-read after the evaluation, both at column index', 'order of save / evaluate / re-read differs', where='template')
    # the starting point of the first comparison is read after the seeding copy (as in the Python solver: C02.R2)
    copies = [n for n in cfg.nodes if n.kind == 'stmt' and isinstance(n.ast, ast.Assign) and isinstance(n.ast.targets[0], (ast.Subscript, ast.Call))
              and 'offset_location' in text(n.ast.value) and text(n.ast.targets[0]).startswith('solved_values')]
    first_reads = [n for n in cfg.nodes if n.kind == 'stmt' and isinstance(n.ast, ast.Assign) and lp.id not in n.loops
                   and text(n.ast.value).replace(' ', '') == 'solved_values(convergence_variables,index)']
    if R.expect(C, len(copies), 1, 'offset copy in the Fortran solve_t') and R.expect(C, len(first_reads), 1, 'first read of the check values before the pass loop'):
        R.check(not any(cfg.reaches(r_.id, c_.id) for r_ in first_reads for c_ in copies), C, 'first-read-after-offset-copy',
                'the check values are first read after the values were seeded from the offset period',
                'the check values are read before the copy from the offset period: the first convergence test compares against values the period held before seeding '
                '(the Python solver reads them after the copy)', where=f'template line {first_reads[0].lineno}')
    # converged -> exit; count after exhaustion
    tb = [b for (b, lab) in ct.succ if lab == 'T']
    reach = set()
    for b in tb:
        reach |= cfg.reachable_from(b, avoid=[lp.id])
    ok = any(isinstance(cfg.nodes[x].ast, ast.Break) for x in reach) and any(isinstance(cfg.nodes[x].ast, ast.Assign) and text(cfg.nodes[x].ast) == 'converged = True' for x in reach)
    R.check(ok, C, 'converged-exit', 'convergence sets converged and leaves the loop', 'the converged branch does not set converged = .true. and exit', where='template')
    adj = [n for n in cfg.nodes if n.kind == 'stmt' and isinstance(n.ast, ast.Assign) and text(n.ast) == 'iteration = iteration - 1' and lp.id not in n.loops]
    ok = len(adj) == 1 and any(text(cfg.nodes[tid].ast) == 'not converged' and lab == 'T' for (tid, lab) in G(adj[0].id))
    R.check(ok, C, 'exhausted-count', 'after an exhausted loop the reported count is max_iter (do-variable minus one when not converged)',
            'no `if(.not. converged) iteration = iteration - 1` after the loop: an unconverged period would report max_iter + 1 passes', where='template')
    # a run in which the loop body never executes (max_iter < 1) must end with error code 0, as the
    # Python solver ends with status 'F' and no error: every fall-through exit passes an `error_code = 0`
    # assignment or a call of evaluate() (which sets it)
    setters = [n.id for n in cfg.nodes if n.kind == 'stmt' and ((isinstance(n.ast, ast.Assign) and text(n.ast.targets[0]) == 'error_code' and is_const(n.ast.value, 0))
                                                                  or (isinstance(n.ast, ast.Expr) and is_call(n.ast.value, 'evaluate')))]
    falls = [n for n in cfg.nodes if any(b == cfg.exit and lab == 'fall' for (b, lab) in n.succ)]
    ok = bool(falls) and all(must_pass(cfg, cfg.entry, n.id, setters) or n.id in setters for n in falls)
    R.check(ok, C, 'zero-trip-error-code', 'the routine ends with error code 0 when no pass is run (max_iter < 1)',
            'a path reaches the end of solve_t with the error code still at its initial -1 (the pass loop never ran and nothing set it): the wrapper reports '
            '"uncaught error code -1" where the Python engine records F / NonConvergenceError', where='template')
    # numerical error handling returns codes for raise / skip
    for ctl, code in (('error_control_raise', 'numerical_error_raise'), ('error_control_skip', 'numerical_error_skip')):
        ts = [t for t in tests if lp.id in t.loops and text(t.ast) == f'error_control == {ctl}']
        ok = len(ts) == 1 and all(isinstance(cfg.nodes[b].ast, ast.Assign) and text(cfg.nodes[b].ast.value) == code for (b, lab) in ts[0].succ if lab == 'T')
        R.check(ok, C, f'numerical:{ctl}', f'{ctl} yields {code}', f'the {ctl} branch does not set {code}', where='template')
    # solve: visits indexes in order, stops under the raise controls
    sv = unit.subs.get('solve')
    if sv is None:
        raise AnchorMissing('FORTRAN_TEMPLATE: subroutine solve')
    scfg = CFG(sv.pyfunc)
    sl = [n for n in scfg.nodes if n.kind == 'for']
    ok = len(sl) == 1 and text(sl[0].ast.iter) in ('range(1, nperiods + 1)',)
    R.check(ok, 'FORTRAN_TEMPLATE.solve', 'periods-in-order', 'periods are visited in the order given', f'`{text(sl[0].ast.iter) if sl else "?"}`', where='template')
    rets = [n for n in scfg.nodes if isinstance(n.ast, ast.Return)]
    conds = []
    for r in rets:
        conds.append(sorted(text(scfg.nodes[tid].ast) + ':' + lab for (tid, lab) in guards(scfg, r.id) if scfg.nodes[tid].kind == 'test'))
    want1 = sorted(['error_code == 0:T', 'converged:F', 'failure_control == failure_control_raise:T'])
    R.check(want1 in [sorted(c_) for c_ in conds], 'FORTRAN_TEMPLATE.solve', f'early-stop-failure:{conds}', "solve stops early on non-convergence under failures='raise'",
            f'early returns of solve are guarded by {conds}: none is (no error, not converged, failures = raise)', where='template')
    # when it stops on an error code is decided against what the wrapper does with that code (C07.R4 `stop-agrees`)


# ---------------------------------------------------------------------------
def r6_equation_rewrite(R) -> None:
    import re as _re
    from fsa.match import atoms_equal, nnf_atoms
    from fsa.strshape import shape, show
    from rules.solver_common import expr
    top = Fn(R, BFD)
    sym_param = (top.fi.params() + ['symbols'])[0]
    # no function on the generation path keeps state between calls (a cache keyed by less than every input makes the
    # generated code depend on what was built before)
    from fsa.calls import callees_of
    from rules.c14 import global_writes
    from rules.common import module_bound_names
    mod_names = module_bound_names(R.repo, 'fsic.fortran')
    path_fns = [top.fi] + [g_ for g_ in callees_of(R.repo, top.fi) if g_.module.name == 'fsic.fortran' and g_.cls is None]
    for g_ in path_fns:
        ws = global_writes(g_, mod_names)
        from rules import memo as _memo
        for w in list(ws):
            lab = _memo.owned(R.repo, w)
            if lab is not None:
                R.ok(g_.qualname, f'`{text(w)[:50]}` fills the cache `{lab}`: whether its key is complete is decided by rule C07.M')
                ws.remove(w)
        for w in ws:
            R.violation(g_.qualname, 'generation-state:' + text(w)[:60], f'`{text(w)[:70]}` writes module-level state on the code-generation path: what is generated for one '
                        f'model can depend on the models built before it (e.g. a cache keyed by the equation text alone reuses another model\'s variable numbers)',
                        where=f'{g_.module.relpath}:{w.lineno}')
        if not ws:
            R.ok(g_.qualname, 'writes no module-level state', trivial=True)
    f = top
    loops = [n for n in f.cfg.nodes if n.kind == 'for' and any(method_call(x, 'finditer') for x in ast.walk(n.ast.iter))]
    call_site = None  # (node in BFD, call expression) when the rewrite lives in a helper
    if not loops:
        hosts = [g_ for g_ in path_fns[1:] if any(isinstance(x, ast.For) and any(method_call(y, 'finditer') for y in ast.walk(x.iter)) for x in ast.walk(g_.node))]
        if len(hosts) == 1:
            sites = [(n, x) for n in top.cfg.nodes if n.ast is not None and n.kind == 'stmt' for x in ast.walk(n.ast) if is_call(x, hosts[0].name)]
            if len(sites) == 1:
                call_site = sites[0]
                f = Fn(R, hosts[0].qualname)
                loops = [n for n in f.cfg.nodes if n.kind == 'for' and any(method_call(x, 'finditer') for x in ast.walk(n.ast.iter))]
    if not R.require(BFD, len(loops), 'loop over the matches', fi=top.fi, pred=lambda x: method_call(x, 'finditer')):
        return
    lp = loops[0]
    HQ = f.q

    def at_top(e: ast.AST):
        """(function, node id, expression) of `e` read in build_fortran_definition: a parameter of the helper is replaced
        by the argument at the call site."""
        if call_site is None:
            return e
        cn, cx = call_site
        ps = f.fi.params()
        bound = dict(zip(ps, cx.args))
        for kw in cx.keywords:
            if kw.arg:
                bound[kw.arg] = kw.value
        from fsa.match import substitute
        return substitute(e, {k: v for k, v in bound.items() if not k.startswith('*')})
    it = lp.ast.iter
    fin = [x for x in ast.walk(it) if method_call(x, 'finditer')][0]
    pat = f.expand(lp.id, fin.func.value)
    if isinstance(pat, ast.Name) and pat.id not in f.lf.locals:
        try:
            pat = R.repo.module_assign('fsic.fortran', pat.id)
        except Exception:
            pass
    if not (is_call(pat, 're.compile') and pat.args):
        raise Unknown(f'{BFD}: the scanning pattern `{text(pat)[:60]}` is not re.compile(<constant>)')
    R.check(isinstance(pat.args[0], ast.Constant) and pat.args[0].value == r'([_A-Za-z][_A-Za-z0-9]*)\[(.*?)\]' and len(pat.args) == 1 and not pat.keywords, BFD, 'rewrite-pattern',
            'variable references are identifier[index]', f'pattern is {text(pat.args[0])}', where=f.where(lp))
    if not isinstance(lp.ast.target, ast.Name):
        raise Unknown(f'{BFD}: match loop target is not a name')
    m = lp.ast.target.id
    scanned = fin.args[0] if fin.args else None

    def grp(t: str) -> str:
        """Normal form of the ways to read a group / a span end of the match."""
        t = _re.sub(rf"\b{m}\.groups\(\)\[(\d)\]", lambda k: f'{m}[{int(k.group(1)) + 1}]', t)
        t = _re.sub(rf"\b{m}\.group\((\d)\)", lambda k: f'{m}[{k.group(1)}]', t)
        t = t.replace(f'{m}.span()[0]', f'{m}.start()').replace(f'{m}.span()[1]', f'{m}.end()')
        t = t.replace(f'{m}.span(0)[0]', f'{m}.start()').replace(f'{m}.span(0)[1]', f'{m}.end()')
        return t

    # the splice: C = C[:start] + <replacement> + C[end:]
    splice = None
    for n in f.cfg.nodes:
        a_ = n.ast
        if lp.id in n.loops and n.kind == 'stmt' and isinstance(a_, ast.Assign) and len(a_.targets) == 1 and isinstance(a_.targets[0], ast.Name):
            c = a_.targets[0].id
            if any(isinstance(x, ast.Subscript) and isinstance(x.value, ast.Name) and x.value.id == c and isinstance(x.slice, ast.Slice) for x in ast.walk(a_.value)):
                splice = (n, c)
    if splice is None:
        raise Unknown(f'{BFD}: no in-place splice `code = code[:start] + ... + code[end:]` in the match loop')
    sn, c = splice
    R.check(is_call(it, 'reversed'), BFD, 'rewrite-reversed', 'in-place replacement runs right to left', 'matches are replaced left to right in a re-sliced string (stale offsets)',
            where=f.where(lp))
    v = sn.ast.value
    terms = []
    cur = v
    while isinstance(cur, ast.BinOp) and isinstance(cur.op, ast.Add):
        terms.insert(0, cur.right)
        cur = cur.left
    terms.insert(0, cur)
    ok_sp = len(terms) == 3 and isinstance(terms[0], ast.Subscript) and isinstance(terms[2], ast.Subscript) \
        and text(terms[0].value) == c and text(terms[2].value) == c and isinstance(terms[0].slice, ast.Slice) and isinstance(terms[2].slice, ast.Slice) \
        and terms[0].slice.lower is None and terms[0].slice.upper is not None and grp(f.etext(sn.id, terms[0].slice.upper, stop=(m,))) == f'{m}.start()' \
        and terms[2].slice.upper is None and terms[2].slice.lower is not None and grp(f.etext(sn.id, terms[2].slice.lower, stop=(m,))) == f'{m}.end()' \
        and terms[0].slice.step is None and terms[2].slice.step is None
    R.check(ok_sp, BFD, 'rewrite-splice', 'the reference is spliced at the match span', f'`{text(sn.ast)[:90]}` does not replace exactly the matched span', where=f.where(sn))
    # the scanned text is the text spliced (its starting value)
    if scanned is not None:
        init = [d for d in f.vdefs(c) if lp.id not in d.node.loops]
        same = bool(init) and all(f.etext(d.node.id, d.value) == f.etext(lp.id, scanned) for d in init)
        R.check(same, BFD, 'rewrite-same-text', 'match offsets refer to the text being rewritten', f'`{c}` does not start as the scanned text `{text(scanned)}`', where=f.where(lp))
    if len(terms) == 3:
        rep_ = f.dict_lookup_read(sn.id, f.expand(sn.id, terms[1], stop=(m,)))
        parts = [(k, grp(t_) if k == 'sym' else t_) for (k, t_) in shape(rep_)]
        nums = {x.id for x in ast.walk(f.fi.node) if isinstance(x, ast.Name)}
        want_idx = f"{m}[2].replace('t', 'index')"
        ok_shape = len(parts) == 5 and parts[0] == ('lit', 'solved_values(') and parts[2] == ('lit', ', ') and parts[4] == ('lit', ')') \
            and parts[1][0] == 'sym' and _re.fullmatch(rf'(\w+)\[{m}\[1\]\]', parts[1][1]) is not None and parts[3] == ('sym', want_idx)
        R.check(ok_shape, BFD, 'rewrite-shape:' + show(parts)[:80], 'NAME[idx] becomes solved_values(number of NAME, idx with t -> index)',
                f'rewrite produces `{show(parts)[:90]}`: expected solved_values(<numbers[{m}[1]]>, <{m}[2] with t -> index>) '
                f'(the t -> index replacement must apply to the index group only)', where=f.where(sn))
        if ok_shape:
            table = _re.fullmatch(rf'(\w+)\[{m}\[1\]\]', parts[1][1]).group(1)
            tname = at_top(ast.Name(id=table, ctx=ast.Load()))
            tdefs = top.vdefs(tname.id) if isinstance(tname, ast.Name) else []
            okt = len(tdefs) == 1 and isinstance(tdefs[0].value, ast.DictComp) and is_call(tdefs[0].value.generators[0].iter, 'enumerate')
            R.check(okt, BFD, 'rewrite-table', 'numbers come from the name -> number table (C07.R1)', f'`{table}` is not the enumerate() table', where=f.where(sn))
    # source: the normalised equations of endogenous symbols, in order
    inner_node = lp if call_site is None else call_site[0]
    outer = [top.cfg.nodes[i] for i in inner_node.loops]
    if not outer or outer[-1].kind != 'for':
        raise Unknown(f'{BFD}: the match loop is not nested in a loop over the symbols')
    ol = outer[-1]
    src = ol.ast.iter
    if isinstance(src, ast.Name):
        vals = top.lf.values_reaching(ol.id, src.id)
        if len(vals) == 1 and vals[0][1] is not None:
            src = vals[0][1]
    comp = None
    if is_call(src, 'filter') and len(src.args) == 2 and isinstance(src.args[0], ast.Lambda) and len(src.args[0].args.args) == 1:
        lam = src.args[0]
        comp = (lam.args.args[0].arg, lam.body, src.args[1], lam.args.args[0].arg)
    elif isinstance(src, (ast.GeneratorExp, ast.ListComp)) and len(src.generators) == 1 and isinstance(src.generators[0].target, ast.Name):
        g = src.generators[0]
        cond = g.ifs[0] if len(g.ifs) == 1 else (ast.BoolOp(op=ast.And(), values=list(g.ifs)) if g.ifs else ast.Constant(value=True))
        comp = (g.target.id, cond, g.iter, text(src.elt))
    elif is_call(src, 'list', 'tuple', 'iter') and len(src.args) == 1 and isinstance(src.args[0], (ast.GeneratorExp, ast.ListComp)):
        g = src.args[0].generators[0]
        cond = g.ifs[0] if len(g.ifs) == 1 else (ast.BoolOp(op=ast.And(), values=list(g.ifs)) if g.ifs else ast.Constant(value=True))
        comp = (text(g.target), cond, g.iter, text(src.args[0].elt))
    if comp is None:
        raise Unknown(f'{BFD}: the equation loop iterates `{text(src)[:70]}`')
    x, cond, base, elt = comp
    atoms = nnf_atoms(cond, True)
    want = [(expr(f'{x}.type == Type.ENDOGENOUS'), True), (expr(f'{x}.equation is None'), False)]
    ok = elt == x and text(base) == sym_param and len(atoms) == 2 and all(any(atoms_equal(a1, a2) and t1 == t2 for (a2, t2) in atoms) for (a1, t1) in want)
    R.check(ok, BFD, 'equations-source', 'equations are those of the endogenous symbols, in symbol order',
            f'the equation loop runs over `{text(src)[:90]}`: not the endogenous symbols with an equation, in symbol order', where=f.where(ol))
    if scanned is not None and isinstance(ol.ast.target, ast.Name):
        sc_top = at_top(f.expand(lp.id, scanned)) if call_site is not None else scanned
        got = top.etext(inner_node.id, sc_top, stop=(ol.ast.target.id,))
        R.check(got == f'{ol.ast.target.id}.equation', BFD, 'equations-text', 'the rewritten text is the normalised equation',
                f'the rewritten text is `{got}`', where=top.where(inner_node))


NUMERIC_TOKEN_HINTS = (r'\d', '[0-9]', r'\.', 'digit')
KIND_HINTS = ('d0', '_8', '_dp', 'real(', 'dble(', 'kind=')


def r7_numeric_literals(R) -> None:
    fi = R.repo.func(BFD)
    R.saw_function(fi)
    found = False
    for n in ast.walk(fi.node):
        if isinstance(n, ast.Call) and (is_call(n, 're.compile', 're.sub') or method_call(n, 'sub')):
            consts = [a.value for a in ast.walk(n) if isinstance(a, ast.Constant) and isinstance(a.value, str)]
            if any(any(h in c for h in NUMERIC_TOKEN_HINTS) for c in consts) and any(any(k in c for k in KIND_HINTS) for c in consts):
                found = True
    for n in ast.walk(fi.node):
        if isinstance(n, ast.Constant) and isinstance(n.value, str) and any(k in n.value for k in KIND_HINTS) and any(h in n.value for h in ('{', '\\')):
            found = found or False
    R.check(found, BFD, 'numeric-literals',
            'numeric literals of the equations are given a double-precision kind',
            'no transformation on the flow equation -> Fortran code treats numeric literals: they are copied verbatim, so `0.1` is a default (single-precision) '
            'real and `1/3` is integer division (Y = 0.1*X + 1/3*Z at X=Z=1: Fortran 0.1000000015, Python 0.4333)', where=fi.where)


def run(R) -> None:
    R.explanation = (
        'C07: the Fortran template is read statically into declarations + per-subroutine Python ASTs (no compiler involved). Numbering: '
        'enumerate(chain(endogenous, exogenous, parameters, errors), start=1) and the name-list twin; FFI: positional actuals vs intent(in) '
        'dummies in f2py order and result tuples vs intent(out); index base: every integer dummy that flows into an array subscript must '
        'receive an `e + 1` actual; option/error code tables on both sides and exception-class agreement per code; control skeleton of '
        'solve_t/solve compared with the Python solver after 1-based normalisation (guards, loop, gate, strict all-abs test, exhausted '
        'count); shape of the equation rewrite; numeric-literal treatment (K3). Does not decide that the generated file compiles, '
        'floating-point agreement, textwrap line breaking or f2py marshalling.'
    )
    unit = unit_of(R)
    R.rule('C07.R1', lambda: r1_numbering(R))
    R.rule('C07.R2', lambda: r2_ffi_agreement(R, unit))
    R.rule('C07.R2b', lambda: r2b_results_stored_first(R))
    R.rule('C07.R3', lambda: r3_index_base(R, unit))
    R.rule('C07.R4', lambda: (r4_code_tables(R, unit), r4b_outcome_recorded_before_raise(R), r4c_empty_span(R)))
    R.rule('C07.R5', lambda: r5_skeleton(R, unit))
    R.rule('C07.R5b', lambda: c03.r7_default_range(R))
    R.rule('C07.R6', lambda: r6_equation_rewrite(R))
    R.rule('C07.R7', lambda: r7_numeric_literals(R))
