"""C02 - per-period solve: status, iteration count, result flag, convergence.

Decided structurally (DESIGN 4.C02): R1 reject-first, R2 offset guards + copy,
R3 loop bounds, R4 min_iter gate, R5 convergence predicate, R6 exit table,
R7 definite assignment, R8 hooks, R9 solve_period forwarding.
"""

from __future__ import annotations

import ast
from fractions import Fraction

from fsa.flow import PARAM, must_pass
from fsa.match import (
    pred_call_attr,
    pred_raise,
    pred_series_store,
    pred_compare_names,
    Affine,
    Cmp,
    affine,
    cmp_of,
    conj_atoms,
    disj_atoms,
    dotted,
    enum_value_ref,
    has_star_kwargs,
    is_const,
    is_self_call,
    kwarg,
    str_eq_test,
)
from fsa.source import AnchorMissing, Unsupported, stmt_key, text
from fsa.cfg import raised_class
from fsa.match import Unknown
from rules.solver_common import (
    FalsyLimit,
    position_cmp,
    SolverShape,
    offset_source_index,
    check_convergence,
    expr,
    guard_atoms,
    is_normalised_position,
    mode_chain,
)

Q = 'fsic.core.models.BaseModel.solve_t'
OPTIONS = ['min_iter', 'max_iter', 'tol', 'offset', 'failures', 'errors', 'catch_first_error']


def _construct(q: str) -> str:
    mod, _, rest = q.partition('.core.') if '.core.' in q else (q, '', '')
    return q


# ---------------------------------------------------------------------------

def r1_reject_first(R, shapes) -> None:
    """The min_iter > max_iter ValueError precedes every effect."""
    for sh in shapes:
        try:
            t = sh.minmax_test()
        except FalsyLimit as e:
            R.violation(sh.q, 'limits-check-skipped-for-zero', str(e), where=sh.fi.where)
            continue
        except AnchorMissing:
            R.require(sh.q, 0, 'rejection of min_iter > max_iter', fi=sh.fi, pred=pred_compare_names('min_iter', 'max_iter'))
            continue
        rs = [n for n in sh.raises('ValueError') if (t.id, 'T') in sh.guards_of(n.id)]
        if not R.require(sh.q, len(rs), '`raise ValueError` under min_iter > max_iter', fi=sh.fi, pred=pred_raise('ValueError')):
            continue
        r = rs[0]
        bad = [e for e in sh.eff if e in sh.on_path_between(sh.cfg.entry, r.id)]
        # and every effect node lies behind the test
        not_behind = [e for e in sh.eff if t.id not in sh.dom[e] and sh.dom[e]]
        offenders = sorted(set(bad) | set(not_behind))
        if offenders:
            n = sh.cfg.nodes[offenders[0]]
            R.violation(
                sh.q,
                'effect-before-minmax:' + stmt_key(n.ast),
                f'an effect precedes (or bypasses) the `min_iter > max_iter` rejection: `{n.label()}`',
                where=sh.where(n),
                path=sh.path_to(n),
            )
        else:
            R.ok(sh.q, 'ValueError(min_iter > max_iter) dominates every effect node',
                 detail={'effect_nodes': len(sh.eff), 'test': sh.where(t)})


def r2_offset(R, sh: SolverShape) -> None:
    ixs = sh.raises('IndexError')
    # locate the copy store: series[t] = series[t + offset] over self.endogenous
    copies = [
        s for s in sh.stores
        if s.owner == 'self' and s.series.startswith('<dyn:') and not sh.in_loop(s.node)
    ]
    if not R.require(sh.q, len(copies), 'offset copy: series[t] = series[t + offset] over self.endogenous', fi=sh.fi,
                     pred=lambda n: isinstance(n, ast.Assign) and 'offset' in text(n.value) and isinstance(n.targets[0], ast.Subscript)):
        return
    cp = copies[0]
    # (a) shape of the copy
    ok_shape = (
        text(cp.index) == 't'
        and isinstance(cp.value, ast.Subscript)
        and text(cp.value.value) == text(ast.parse(text(cp.node.ast.targets[0])).body[0].value.value)
        and offset_source_index(sh, cp.node.id, cp.value.slice)
        and not cp.aug
    )
    R.check(
        ok_shape, sh.q, 'offset-copy-shape:' + stmt_key(cp.node.ast),
        'offset copy is series[t] <- series[t + offset] on the same series',
        f'offset copy is not `series[t] = series[t + offset]`: `{cp.node.label()}`',
        where=sh.where(cp.node),
    )
    # (a2) the check values used as the starting point are read after the seeding copy
    from rules.solver_common import is_check_read
    firsts = [n for n in sh.cfg.nodes if n.kind == 'stmt' and isinstance(n.ast, ast.Assign) and is_check_read(sh, n.ast.value) and not sh.in_loop(n)]
    for n in firsts:
        R.check(not sh.cfg.reaches(n.id, cp.node.id), sh.q, 'offset-copy-before-first-read',
                'the starting check values are read after the offset copy (pass 1 is compared with the seeded values)',
                f'`{n.label()[:50]}` is taken before the offset copy: the first pass would be compared with the values from before seeding',
                where=sh.where(n))
    # (b) iterated over self.endogenous
    lp = [sh.cfg.nodes[i] for i in cp.node.loops]
    it_ok = bool(lp) and lp[-1].kind == 'for' and text(lp[-1].ast.iter) in ('self.endogenous', "self.__dict__['endogenous']")
    R.check(
        it_ok, sh.q, 'offset-copy-iter:' + (stmt_key(lp[-1].ast) if lp else '<none>'),
        'offset copy iterates self.endogenous',
        f'offset copy does not iterate `self.endogenous`: `{lp[-1].label() if lp else "<no loop>"}`',
        where=sh.where(cp.node),
    )
    # (c) guarded by truthiness of offset
    g_off = False
    for (a, truth, tn) in guard_atoms(sh, cp.node.id):
        if truth and (text(a) == 'offset' or (cmp_of(a) is not None and cmp_of(a) == Cmp('!=', affine(expr('offset'))))):
            g_off = True
    R.check(g_off, sh.q, 'offset-copy-guard', 'offset copy runs only when offset is non-zero',
            'offset copy is not guarded by `if offset`', where=sh.where(cp.node))
    # (d) two range rejections dominate the copy (locals are read through; comparisons in integer canonical form)
    found_lo = found_hi = None
    lo = cmp_of(expr('P + offset < 0')).as_int()
    his = [cmp_of(expr(f'P + offset >= {ls}')).as_int() for ls in ('len(self.span)', "len(self.__dict__['span'])")]
    near = []
    unresolved = []
    for (a, truth, tn) in guard_atoms(sh, cp.node.id):
        if truth:
            continue
        cc = position_cmp(sh, tn.id, a)
        if cc is None:
            c0 = cmp_of(sh.expand(tn.id, a))
            if c0 is not None and {'t', 'offset'} <= set(c0.expr.terms):
                R.violation(sh.q, 'offset-guard-raw-position:' + text(tn.ast), f'the offset range check `{text(tn.ast)}` uses the raw position `t`, which may be negative '
                            f'(counting from the end): an out-of-span source period is not rejected for negative `t`', where=sh.where(tn))
                return
            if any(raised_class(sh.cfg.nodes[b].ast) == 'IndexError' for (b, lab) in tn.succ if lab == 'T' and isinstance(sh.cfg.nodes[b].ast, ast.Raise)):
                unresolved.append(tn)
            continue
        if 'offset' not in cc.expr.terms:
            continue
        if cc == lo:
            found_lo = tn
        elif cc in his:
            found_hi = tn
        else:
            near.append((tn, cc))
    if (found_lo is None or found_hi is None) and unresolved and not near:
        raise Unknown(f'{sh.q}: an IndexError guard of the offset copy (`{text(unresolved[0].ast)}`) could not be resolved to the normalised position')
    for (tn, cc) in near:
        R.violation(sh.q, 'offset-guard-bound:' + text(tn.ast), f'the offset range check `{text(tn.ast)}` is `{cc!r}` in canonical form (P = normalised position): neither '
                    f'`P + offset < 0` nor `P + offset >= len(span)` (an out-of-span source period would be accepted, or a valid one refused)', where=sh.where(tn))
    if near:
        return
    # `t` itself may be used if normalised in place: not accepted (unknown idiom)
    for which, tn, desc in (('lo', found_lo, 'P + offset < 0'), ('hi', found_hi, 'P + offset >= len(span)')):
        if tn is None:
            R.violation(
                sh.q, f'offset-guard-{which}',
                f'no rejection `{desc}` (P = normalised position) guards the offset copy '
                f'(strictness and bounds are compared in integer canonical form)',
                where=sh.where(cp.node),
                mismatch=True,
            )
            continue
        rs = [r for r in ixs if (tn.id, 'T') in sh.guards_of(r.id)]
        R.check(
            len(rs) >= 1, sh.q, f'offset-guard-{which}-raise',
            f'`{desc}` raises IndexError before the copy',
            f'the test `{text(tn.ast)}` does not raise IndexError on its true branch',
            where=sh.where(tn),
        )
        for r in rs:
            bad = [e for e in sh.eff if e in sh.on_path_between(sh.cfg.entry, r.id)]
            R.check(
                not bad, sh.q, f'offset-guard-{which}-effectfree',
                f'nothing is written before IndexError({desc})',
                f'an effect precedes the out-of-span offset rejection: `{sh.cfg.nodes[bad[0]].label() if bad else ""}`',
                where=sh.where(r),
            )


def r3_loop_bounds(R, sh: SolverShape) -> None:
    it = sh.loop.ast.iter
    ok = False
    if isinstance(it, ast.Call) and dotted(it.func) == 'range' and not it.keywords:
        if len(it.args) == 2:
            ok = affine(it.args[0]) == affine(expr('1')) and affine(it.args[1]) == affine(expr('max_iter + 1'))
        elif len(it.args) == 3:
            ok = (
                affine(it.args[0]) == affine(expr('1'))
                and affine(it.args[1]) == affine(expr('max_iter + 1'))
                and affine(it.args[2]) == affine(expr('1'))
            )
    else:
        raise Unsupported(f'{sh.q}: pass loop does not iterate a range(): `{text(it)}`')
    R.check(ok, sh.q, 'loop-range:' + text(it), 'pass counter ranges over 1..max_iter',
            f'pass loop iterates `{text(it)}`, expected range(1, max_iter + 1)', where=sh.where(sh.loop))
    # counter is the iteration= argument of the evaluation call
    call = sh.call_expr(sh.n_eval, sh.eval_call)
    kv = kwarg(call, 'iteration')
    R.check(
        isinstance(kv, ast.Name) and kv.id == sh.counter, sh.q, 'eval-iteration-arg',
        'the pass counter is passed as iteration= to the evaluation call',
        f'evaluation call does not pass iteration={sh.counter}: `{text(call)[:80]}`', where=sh.where(sh.n_eval),
    )
    # called exactly once per loop iteration: the eval node is not in an inner cycle
    inner = [l for l in sh.n_eval.loops if l != sh.loop.id and sh.loop.id in sh.cfg.nodes[l].loops + (l,)]
    R.check(
        sh.n_eval.loops[-1] == sh.loop.id and sh.loop.id in sh.dom[sh.n_eval.id],
        sh.q, 'eval-once-per-pass', 'one evaluation call per pass (no inner loop, not conditional on a skip)',
        'evaluation call is nested in an inner loop', where=sh.where(sh.n_eval),
    )
    # every path round the loop passes through the evaluation call
    body_first = [b for (b, lab) in sh.loop.succ if lab == 'iter']
    through = all(must_pass(sh.cfg, b, sh.loop.id, [sh.n_eval.id]) for b in body_first)
    R.check(through, sh.q, 'eval-every-pass', 'every pass evaluates the system',
            'some path round the pass loop skips the evaluation call', where=sh.where(sh.n_eval))
    # the counter is not rebound inside the loop
    rebinds = [n for n in sh.cfg.nodes if sh.in_loop(n) and sh.counter in __import__('fsa.flow', fromlist=['names_bound']).names_bound(n)]
    R.check(not rebinds, sh.q, 'counter-rebound', 'pass counter is bound by the loop header only',
            f'pass counter `{sh.counter}` is rebound inside the loop', where=sh.where(rebinds[0]) if rebinds else '')


def r4_min_iter_gate(R, sh: SolverShape) -> None:
    gate, c = sh.min_iter_gate()
    conv, _ = sh.convergence_node()
    below = Cmp('<', affine(expr(f'{sh.counter} - min_iter')))  # counter < min_iter
    # which edge means "below min_iter"?
    ci = c.as_int()
    if ci == below.as_int():
        below_edge, ok_edge = 'T', 'F'
    elif ci == below.negate().as_int():
        below_edge, ok_edge = 'F', 'T'
    else:
        R.violation(sh.q, 'min-iter-gate:' + text(gate.ast),
                    f'min_iter gate `{text(gate.ast)}` is not `{sh.counter} < min_iter` (or its negation) in integer canonical form',
                    where=sh.where(gate))
        return
    R.ok(sh.q, f'min_iter gate is `{sh.counter} < min_iter` (strict)', detail=text(gate.ast))
    # on every path to the convergence test the pass counter is known not to be below min_iter (facts of the dominating
    # tests, with unit propagation through a compound gate such as `i < min_iter and <values finite>`)
    from fsa.match import entails
    facts = guard_atoms(sh, conv.id)
    known = entails(facts, expr(f'{sh.counter} < min_iter'), False)
    R.check(known, sh.q, 'min-iter-gate-dominates',
            'convergence test is reachable only when iteration >= min_iter',
            'the convergence test can be reached on a pass below min_iter (the gate does not guard it)',
            where=sh.where(conv), path=sh.path_to(conv))
    if not isinstance(gate.ast, ast.BoolOp):
        # the below edge leads back to the header without passing the convergence test
        tgt = [b for (b, lab) in gate.succ if lab == below_edge]
        fine = all(must_pass(sh.cfg, b, conv.id, [sh.loop.id]) for b in tgt)
        R.check(fine, sh.q, 'min-iter-gate-continue', 'below min_iter the pass is not judged',
                'the below-min_iter branch reaches the convergence test within the same pass', where=sh.where(gate))


def r5_convergence(R, sh: SolverShape) -> None:
    check_convergence(R, sh)


def r6_exit_table(R, sh: SolverShape, linker: bool = False) -> None:
    fs = sh.final_store('status')
    fi_ = sh.final_store('iterations')
    # (a) final stores post-dominate every normal loop exit
    for (b, lab) in sh.loop_exit_targets():
        for st, nm in ((fs, 'status'), (fi_, 'iterations')):
            ok = must_pass(sh.cfg, b, sh.cfg.exit, [st.id]) and must_pass(
                sh.cfg, b, sh.cfg.raise_exit, [st.id], skip_labels=()
            )
            R.check(ok, sh.q, f'final-{nm}-postdominates-{lab}',
                    f'every `{lab}` exit of the pass loop stores {nm}[t]',
                    f'a `{lab}` exit of the pass loop can leave the function without storing self.{nm}[t]',
                    where=sh.where(st))
    # (b) index is t
    for s in sh.stores:
        if s.node.id in (fs.id, fi_.id):
            R.check(text(s.index) == 't', sh.q, f'final-index:{stmt_key(s.node.ast)}', 'final stores address position t',
                    f'final store addresses `{text(s.index)}`, not `t`', where=sh.where(s.node))
    # (c) status value, path-sensitively: which members can the final store receive, and under which loop outcome
    sval = fs.ast.value
    fl = sh.flags
    conv, _ = sh.convergence_node()
    from fsa.pathsens import TOP, UNDEF
    from fsa.match import nnf_atoms
    by_member = {}
    unknown_states = []
    for s in fl.states_at(fs.id):
        for tok in fl.vals(sval, s):
            if tok == TOP:
                unknown_states.append(s)
                continue
            if tok == UNDEF:
                continue  # definite assignment is R7
            m = sh.status_member(tok)
            by_member.setdefault(m if m is not None else ('?', tok), set()).add((fs.id, s))
    if unknown_states:
        # not a flag: look at the reaching definitions for one that is positively not a status member
        if not isinstance(sval, ast.Name):
            raise Unsupported(f'{sh.q}: final status store value `{text(sval)}` is not decided by the flag analysis')
        for (site, v) in sh.lf.values_reaching(fs.id, sval.id):
            node = sh.cfg.nodes[site] if site != PARAM else None
            if v is not None and fl._flag_value(v):
                continue
            if v is None or isinstance(v, (ast.Call, ast.Subscript, ast.Attribute, ast.Name)):
                raise Unsupported(f'{sh.q}: `{sval.id}` is bound to `{text(v) if v is not None else "<parameter>"}`: not a value the flag analysis can follow')
            R.violation(sh.q, f'status-def:{text(v)}',
                        f'a definition of `{sval.id}` reaching the final store is not `SolutionStatus.<member>.value`: `{text(v)}`',
                        where=sh.where(node) if node else '', mismatch=True)
        raise Unsupported(f'{sh.q}: `{sval.id}` is not a flag (bound by a loop, unpacking or augmented assignment)')
    members = {k: v for k, v in by_member.items() if isinstance(k, str)}
    for k, tg in by_member.items():
        if not isinstance(k, str):
            R.violation(sh.q, f'status-def:{k[1][2]!r}', f'the final store can receive `{k[1][2]!r}`, which is not the value of a SolutionStatus member', where=sh.where(fs))
    if 'UNSOLVED' in members:
        tgt = sorted(members['UNSOLVED'], key=repr)[0]
        p = fl.some_path(tgt)
        R.violation(sh.q, 'status-unsolved-reaches-final',
                    "the initial status '-' can reach the final store: some loop exit sets no status",
                    where=sh.where(fs), path=sh.cfg.describe_path(p) if p else None)
    else:
        R.ok(sh.q, "the initial status '-' never reaches the final store (every loop exit sets a status)")
    allowed = {'SOLVED', 'FAILED', 'SKIPPED'} if not linker else {'SOLVED', 'FAILED'}
    lastpass_tests = []
    skip_tests = []
    for tn in sh.tests():
        for (a, truth) in nnf_atoms(tn.ast, True):
            c = cmp_of(a)
            if sh.in_loop(tn) and c is not None and truth and c == Cmp('==', affine(expr(f'{sh.counter} - max_iter'))):
                lastpass_tests.append(tn)
            se = str_eq_test(a)
            if se and se[0] == 'errors' and se[1] == 'skip' and se[2] == truth:
                skip_tests.append(tn)
    for m, tg in sorted(members.items()):
        if m == 'UNSOLVED':
            continue
        if m not in allowed:
            R.violation(sh.q, f'status-member:{m}', f'status {m} stored by the final store is outside {sorted(allowed)}', where=sh.where(fs))
            continue
        if m == 'SOLVED':
            ok = fl.last_test(tg, conv.id, sh.conv_label)
            p = None
            if not ok:
                p = fl.some_path(sorted(tg, key=repr)[0], avoid_nodes=[conv.id]) or next(
                    (fl.some_path(t_, skip_edges=[(conv.id, sh.conv_label)]) for t_ in sorted(tg, key=repr) if fl.some_path(t_, skip_edges=[(conv.id, sh.conv_label)])), None)
            R.check(ok, sh.q, 'status-row:SOLVED', "'.' reaches the final store only when the last convergence test succeeded",
                    "status '.' is assigned outside the true branch of the convergence test", where=sh.where(fs),
                    path=sh.cfg.describe_path(p) if p else None)
        elif m == 'FAILED':
            edges = [(sh.loop.id, 'exhausted')] + [(tn.id, 'T') for tn in lastpass_tests]
            ok = fl.must_take(tg, edges)
            p = None
            if not ok:
                p = next((fl.some_path(t_, skip_edges=edges) for t_ in sorted(tg, key=repr) if fl.some_path(t_, skip_edges=edges)), None)
            R.check(ok, sh.q, 'status-row:FAILED' + ('@body' if lastpass_tests else '@else'),
                    "'F' reaches the final store only when the pass budget is exhausted (for-else or iteration == max_iter)",
                    "status 'F' is assigned on a path where the pass budget is not exhausted",
                    where=sh.where(fs), path=sh.cfg.describe_path(p) if p else None)
        elif m == 'SKIPPED':
            ok = bool(skip_tests) and fl.must_take(tg, [(tn.id, 'T') for tn in skip_tests])
            R.check(ok, sh.q, 'status-row:SKIPPED', "'S' is assigned only under errors == 'skip'", "status 'S' is assigned outside errors == 'skip'",
                    where=sh.where(fs))
    R.check('SOLVED' in members and 'FAILED' in members, sh.q, 'status-rows-present',
            "both '.' and 'F' can reach the final store",
            f'final status store is reached only by {sorted(members)}', where=sh.where(fs))
    # (d) iterations value is the pass counter; zero-trip value is 0
    ival = fi_.ast.value
    R.check(isinstance(ival, ast.Name) and ival.id == sh.counter, sh.q, 'iterations-value:' + text(ival),
            'iterations[t] receives the pass counter (number of passes performed)',
            f'iterations[t] receives `{text(ival)}`, not the pass counter `{sh.counter}`', where=sh.where(fi_))
    if isinstance(ival, ast.Name) and ival.id == sh.counter:
        for (site, v) in sh.lf.values_reaching(fi_.id, sh.counter):
            if site == sh.loop.id or site == PARAM:
                continue
            R.check(v is not None and is_const(v, 0), sh.q, f'counter-init:{text(v)}',
                    'pass counter starts at 0 (zero-trip loop records max_iter = 0 passes)',
                    f'pass counter initialised to `{text(v)}`, expected 0', where=sh.where(sh.cfg.nodes[site]))
    # (e) return expression: true exactly in the states where the stored status is '.'
    rets = [n for n in sh.cfg.nodes if n.kind == 'stmt' and isinstance(n.ast, ast.Return)]
    for r in rets:
        v = r.ast.value
        bad = None
        undecided = False
        for s in fl.states_at(r.id):
            stored = {sh.status_member(t_) for t_ in fl.vals(sval, s) if t_ not in (TOP, UNDEF)}
            if len(stored) != 1:
                undecided = True
                continue
            res = fl.ev(v, s) if v is not None else False
            if res is None:
                undecided = True
            elif res != (stored == {'SOLVED'}):
                bad = (s, stored, res)
        if bad is None and undecided:
            # not decided by the flags: accept the literal comparison only
            ok = False
            if isinstance(v, ast.Compare) and len(v.ops) == 1 and isinstance(v.ops[0], ast.Eq) and isinstance(sval, ast.Name):
                l, rr = v.left, v.comparators[0]
                for x, y in ((l, rr), (rr, l)):
                    if isinstance(x, ast.Name) and x.id == sval.id and enum_value_ref(y) == 'SOLVED':
                        ok = True
            if not ok:
                raise Unsupported(f'{sh.q}: return expression `{text(v)}` is not decided by the flag analysis')
        R.check(bad is None, sh.q, 'return:' + text(v), "returns True exactly for status '.'",
                f'return expression `{text(v)}` is not `status == SolutionStatus.SOLVED.value`'
                + (f': it is {bad[2]} when the stored status is {sorted(bad[1])} ({fl.show(bad[0])})' if bad else ''), where=sh.where(r))
        R.check(fs.id in sh.dom[r.id] and fi_.id in sh.dom[r.id], sh.q, 'return-after-stores',
                'the return is dominated by the final stores', 'a return bypasses the final stores', where=sh.where(r))
    R.require(sh.q, len(rets), 'return of the solved flag', fi=sh.fi, pred=lambda n: isinstance(n, ast.Return))
    # (f) NonConvergenceError exactly under FAILED and failures == 'raise'
    ncs = sh.raises('NonConvergenceError')
    if R.require(sh.q, len(ncs), 'raise NonConvergenceError', fi=sh.fi, pred=pred_raise('NonConvergenceError')):
        n = ncs[0]
        atoms = [(a, t, tn) for (a, t, tn) in guard_atoms(sh, n.id) if not sh.in_loop(tn) and sh.loop.id in sh.dom[tn.id]]
        here = {sh.status_member(t_) if t_ not in (TOP, UNDEF) else None for s in fl.states_at(n.id) for t_ in fl.vals(sval, s)}
        has_failed = here == {'FAILED'}
        has_raise = False
        extra = []
        for (a, truth, tn) in atoms:
            se = str_eq_test(a)
            if se and se[0] == 'failures' and se[1] == 'raise' and se[2] == truth:
                has_raise = True
                continue
            # any other condition must not exclude a failed state
            fs_states = [s for s in fl.states_at(tn.id) if {sh.status_member(t_) if t_ not in (TOP, UNDEF) else None for t_ in fl.vals(sval, s)} == {'FAILED'}]
            if fs_states and all(fl.ev(a, s) is truth for s in fs_states):
                continue
            extra.append(text(a))
        R.check(has_failed and has_raise and not extra, sh.q, 'nonconvergence-guard',
                "NonConvergenceError is raised exactly when status is 'F' and failures == 'raise'",
                f'NonConvergenceError guard is not exactly (status == FAILED and failures == "raise"): '
                f'status there={sorted(str(x) for x in here)} raise={has_raise} extra={extra}', where=sh.where(n))
        R.check(fs.id in sh.dom[n.id] and fi_.id in sh.dom[n.id], sh.q, 'nonconvergence-after-stores',
                'NonConvergenceError is raised after status and iterations are recorded',
                'NonConvergenceError can be raised before the final stores', where=sh.where(n))


def r7_definite_assignment(R, shapes) -> None:
    for sh in shapes:
        pu = sh.lf.possibly_unbound_uses()
        if not pu:
            R.ok(sh.q, 'every local read is definitely assigned on all paths (incl. the zero-trip loop)',
                 detail={'locals': len(sh.lf.locals)})
        for (nid, name) in pu:
            n = sh.cfg.nodes[nid]
            R.violation(sh.q, f'unbound:{name}@{stmt_key(n.ast)}',
                        f'local `{name}` may be unbound at `{n.label()}` (e.g. max_iter=0: the pass loop body never runs)',
                        where=sh.where(n))


def r8_hooks(R, sh: SolverShape) -> None:
    before = sh.calls_self('solve_t_before')
    after = sh.calls_self('solve_t_after')
    if not R.require(sh.q, len(before), 'self.solve_t_before() call', fi=sh.fi, pred=pred_call_attr('solve_t_before')) \
            or not R.require(sh.q, len(after), 'self.solve_t_after() call', fi=sh.fi, pred=pred_call_attr('solve_t_after')):
        return
    nb, na = before[0], after[0]
    R.check(len(before) == 1 and not nb.loops, sh.q, 'before-once', 'solve_t_before runs outside every loop',
            'solve_t_before is called inside a loop', where=sh.where(nb))
    R.check(nb.id in sh.dom[sh.loop.id], sh.q, 'before-dominates-loop', 'solve_t_before runs before the first pass on every path',
            'the pass loop can start without solve_t_before having run', where=sh.where(nb))
    R.check(len(after) == 1, sh.q, 'after-single-site', 'one call site of solve_t_after', 'several call sites of solve_t_after',
            where=sh.where(na))
    conv, _ = sh.convergence_node()
    R.check((conv.id, sh.conv_label) in sh.guards_of(na.id), sh.q, 'after-under-convergence',
            'solve_t_after runs only on the converging pass', 'solve_t_after is not confined to the true branch of the convergence test',
            where=sh.where(na), path=sh.path_to(na))
    R.check(sh.loop.id not in sh.cfg.reachable_from(na.id) - {na.id} or not sh.cfg.reaches(na.id, sh.loop.id),
            sh.q, 'after-at-most-once', 'after solve_t_after the loop is left (at most once per solve)',
            'the pass loop can continue after solve_t_after', where=sh.where(na))
    # every converged exit ran the post hook: conv T -> break only via na
    tgt = [b for (b, lab) in conv.succ if lab == sh.conv_label]
    exits = [b for (b, lab) in sh.loop_exit_targets()]
    ok = all(must_pass(sh.cfg, t, e, [na.id]) for t in tgt for e in exits)
    R.check(ok, sh.q, 'converged-exit-via-after', "every exit taken after convergence has run solve_t_after",
            'the loop can be left on the converged branch without calling solve_t_after', where=sh.where(conv))


def r8b_wrappers_keep_hooks(R) -> None:
    """'The hooks run exactly once' for every model: a mixin that wraps the hook methods must always call
    through to the wrapped hook (C17.R1 owns the detail)."""
    from rules import c17
    c17.r1_transparent(R)


def r9_solve_period(R) -> None:
    q = 'fsic.core.interfaces.SolverMixin.solve_period'
    fi = R.repo.func(q)
    from fsa.cfg import CFG
    from fsa.flow import LocalFlow, dominators

    cfg = CFG(fi.node)
    R.saw_function(fi, cfg)
    rets = [n for n in cfg.nodes if isinstance(n.ast, ast.Return)]
    calls = [n for n in rets if is_self_call(n.ast.value, 'solve_t')]
    if not R.require(q, len(calls), 'return self.solve_t(...)', fi=fi, pred=pred_call_attr('solve_t')):
        return
    R.check(len(rets) == 1, q, 'single-return', 'solve_period returns the result of solve_t', 'solve_period has other return statements')
    call = calls[0].ast.value
    R.count_calls()
    forwarding_identity(R, q, call, OPTIONS, where=f'{fi.module.relpath}:{call.lineno}')
    # first positional argument: the located position of `period` (however many locals it passes through)
    from rules.common import Fn
    f = Fn(R, q)
    cn = [n for n in f.cfg.nodes if n.kind == 'stmt' and isinstance(n.ast, ast.Return) and is_self_call(n.ast.value, 'solve_t')]
    a0 = call.args[0] if call.args else None
    LOC = 'self._locate_period_in_span(period)'
    ok = bool(cn) and a0 is not None and f.etext(cn[0].id, cn[0].ast.value.args[0]) == LOC
    R.check(ok, q, 'position-arg', 'the position passed to solve_t is _locate_period_in_span(period)',
            f'first argument of solve_t is `{text(a0)}`, not the located position of `period`',
            where=f'{fi.module.relpath}:{call.lineno}')
    # KeyError rejection of non-int positions: the call runs only for an int position, anything else raises KeyError
    good = False
    if cn and ok:
        fact_ = f'isinstance({LOC}, int)'
        guarded = f.xholds(cn[0].id, fact_)
        ks = [k for k in f.raises('KeyError') if f.xholds(k.id, fact_, False)]
        good = guarded and bool(ks)
    R.check(good, q, 'keyerror-guard', 'a non-int position is rejected with KeyError before solving',
            'the solve_t call is not confined to `isinstance(t, int)` with KeyError raised otherwise', where=fi.where)


def forwarding_identity(R, q: str, call: ast.Call, options, where: str = '', extra_kw=()) -> None:
    """Every named option is forwarded by the same keyword; **kwargs is passed."""
    for o in list(options) + list(extra_kw):
        v = kwarg(call, o)
        if v is None:
            R.violation(q, f'forward-dropped:{o}', f'option `{o}` is not forwarded by `{text(call.func)}(...)`', where=where, mismatch=True)
        elif not (isinstance(v, ast.Name) and v.id == o):
            R.violation(q, f'forward-crossed:{o}', f'option `{o}` is forwarded as `{o}={text(v)}`', where=where)
        else:
            R.ok(q, f'{o}={o} forwarded to {text(call.func)}', trivial=True)
    if not has_star_kwargs(call, 'kwargs'):
        R.violation(q, 'forward-dropped:**kwargs', f'`**kwargs` is not forwarded by `{text(call.func)}(...)`', where=where, mismatch=True)
    else:
        R.ok(q, f'**kwargs forwarded to {text(call.func)}', trivial=True)
    named = {k.arg for k in call.keywords if k.arg}
    unexpected = named - set(options) - set(extra_kw)
    for u in sorted(unexpected):
        R.violation(q, f'forward-extra:{u}', f'unexpected keyword `{u}=` in forwarding call', where=where, mismatch=True)


# ---------------------------------------------------------------------------

def run(R) -> None:
    R.explanation = (
        'C02: CFG/dataflow rules over BaseModel.solve_t (shared CFG), BaseLinker.solve_t (R7 twin is in C08), '
        'SolverMixin.solve/solve_period: reject-first dominance, offset guards in integer canonical form, loop '
        'bounds in affine form, min_iter gate, convergence predicate idiom table (all / strict < / abs / '
        'current - previous by reaching definitions), exit table by reaching definitions + guards, definite '
        'assignment, hook placement, forwarding identity. Decides these structural clauses for all paths; does '
        'not decide float convergence behaviour.'
    )
    sh = SolverShape(R.repo, Q)
    R.saw_function(sh.fi, sh.cfg)
    shapes = [sh]
    R.rule('C02.R1', lambda: r1_reject_first(R, shapes))
    R.rule('C02.R1b', lambda: r1_solve(R))
    R.rule('C02.R2', lambda: r2_offset(R, sh))
    R.rule('C02.R3', lambda: r3_loop_bounds(R, sh))
    R.rule('C02.R4', lambda: r4_min_iter_gate(R, sh))
    R.rule('C02.R5', lambda: r5_convergence(R, sh))
    R.rule('C02.R6', lambda: r6_exit_table(R, sh))
    R.rule('C02.R7', lambda: r7_definite_assignment(R, shapes))
    R.rule('C02.R8', lambda: (r8_hooks(R, sh), r8b_wrappers_keep_hooks(R)))
    R.rule('C02.R9', lambda: r9_solve_period(R))


def r1_solve(R) -> None:
    """min_iter > max_iter is rejected first in the multi-period wrappers too."""
    from fsa.cfg import CFG
    from fsa.flow import dominators
    from fsa.effects import effect_nodes
    from rules.solver_common import effects_of, fsic_hierarchy

    for q in (
        'fsic.core.interfaces.SolverMixin.solve',
        'fsic.core.linkers.BaseLinker.solve',
        'fsic.fortran.FortranEngine.solve',
        'fsic.fortran.FortranEngine.solve_t',
    ):
        fi = R.repo.func(q)
        cfg = CFG(fi.node, fsic_hierarchy(R.repo))
        R.saw_function(fi, cfg)
        from rules.solver_common import FalsyLimit, minmax_conjunct
        try:
            ts = [n for n in cfg.nodes if n.kind == 'test' and minmax_conjunct(n.ast) is not None]
        except FalsyLimit as e:
            R.violation(q, 'limits-check-skipped-for-zero', str(e), where=fi.where)
            continue
        if not R.require(q, len(ts), 'rejection of min_iter > max_iter', fi=fi, pred=pred_compare_names('min_iter', 'max_iter')):
            continue
        t = ts[0]
        dom = dominators(cfg)
        eff = effect_nodes(cfg, effects_of(R.repo))
        rs = [n for n in cfg.nodes if isinstance(n.ast, ast.Raise) and 'ValueError' in text(n.ast.exc)
              and any(lab == 'T' and b == n.id for (b, lab) in t.succ)]
        R.check(bool(rs), q, 'minmax-raises', 'min_iter > max_iter raises ValueError',
                'the `min_iter > max_iter` test does not raise ValueError directly', where=f'{fi.module.relpath}:{t.lineno}')
        bad = [e for e in eff if t.id not in dom[e] and dom[e]]
        if bad:
            n = cfg.nodes[bad[0]]
            R.violation(q, 'effect-before-minmax:' + stmt_key(n.ast),
                        f'an effect precedes the `min_iter > max_iter` rejection: `{n.label()}`',
                        where=f'{fi.module.relpath}:{n.lineno}')
        else:
            R.ok(q, 'ValueError(min_iter > max_iter) dominates every effect node', detail={'effect_nodes': len(eff)})
