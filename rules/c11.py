"""C11 - copies and sibling instances share no mutable state.

R1 copy routes, R2 copy completeness, R3 class constants do not escape into
instances uncopied, R4 no mutable default arguments, R5 module/class-level
mutable objects are never written.
"""

from __future__ import annotations

import ast
from typing import Dict, List, Optional, Set, Tuple

from fsa.effects import MUTATORS
from fsa.flow import PARAM
from fsa.match import dict_slot, dotted, is_call, is_const, is_self_call, method_call, root_name
from fsa.source import AnchorMissing, Unsupported, iter_own_nodes, stmt_key, text
from rules.common import Fn, module_bound_names

COPIERS = {'copy.deepcopy', 'copy.copy', 'list', 'dict', 'set', 'tuple', 'sorted', 'frozenset', 'np.array', 'numpy.array', 'deepcopy'}
READONLY_CALLS = {'len', 'enumerate', 'zip', 'isinstance', 'any', 'all', 'iter', 'str', 'repr', 'print', 'min', 'max', 'sum', 'bool', 'type', 'id',
                  'itertools.chain', 'map', 'filter', 'reversed', 'hasattr', 'getattr', 'zip_longest', 'itertools.zip_longest', 'chain', 'islice', 'itertools.islice',
                  'itertools.groupby', 'groupby', 'itertools.product', 'product', 'Counter', 'collections.Counter', 'hash', 'callable', 'issubclass', 'range', 'next',
                  'np.array', 'np.asarray', 'np.array_equal'} | COPIERS
READONLY_METHODS = {'get', 'items', 'keys', 'values', 'index', 'count', 'join', 'format', 'copy', 'startswith', 'endswith', '__contains__', 'lower'}
MUTABLE_ANN = ('List', 'Dict', 'Sequence', 'Set', 'Mapping', 'list', 'dict', 'set')


def class_mutable_consts(R) -> Dict[str, Set[str]]:
    """class qualname -> names of class-level attributes that may hold a mutable object."""
    out: Dict[str, Set[str]] = {}
    for q, ci in R.repo.classes.items():
        names: Set[str] = set()
        for stmt in ci.node.body:
            tgt, val, ann = None, None, None
            if isinstance(stmt, ast.Assign) and len(stmt.targets) == 1 and isinstance(stmt.targets[0], ast.Name):
                tgt, val = stmt.targets[0].id, stmt.value
            elif isinstance(stmt, ast.AnnAssign) and isinstance(stmt.target, ast.Name):
                tgt, val, ann = stmt.target.id, stmt.value, stmt.annotation
            if tgt is None or tgt.startswith('__'):
                continue
            mutable = False
            if val is not None and isinstance(val, (ast.List, ast.Dict, ast.Set, ast.ListComp, ast.DictComp, ast.SetComp)):
                mutable = True
            if val is not None and isinstance(val, ast.BinOp):
                mutable = True
            if val is not None and isinstance(val, ast.Name) and val.id in names:
                mutable = True
            if ann is not None and any(m in text(ann) for m in MUTABLE_ANN):
                mutable = True
            if mutable:
                names.add(tgt)
        if names:
            out[q] = names
    return out


def all_mutable_const_names(R) -> Set[str]:
    s: Set[str] = set()
    for v in class_mutable_consts(R).values():
        s |= v
    return s


# ---------------------------------------------------------------------------
def r1_copy_routes(R) -> None:
    n = 0
    for q, ci in R.repo.classes.items():
        body = ci.body_names()
        if 'copy' not in body or not isinstance(body['copy'], ast.FunctionDef):
            continue
        n += 1
        c = body.get('__copy__')
        ok_c = c is not None and ((isinstance(c, ast.Assign) and text(c.value) == 'copy') or
                                  (isinstance(c, ast.FunctionDef) and any(is_self_call(x, 'copy') for x in ast.walk(c))))
        R.check(ok_c, q, '__copy__', f'{ci.name}.__copy__ is bound to this class\'s copy()',
                f'{ci.name} defines copy() but `__copy__` in the same class body is {"missing" if c is None else "not bound to it"}: '
                f'copy.copy(obj) would run a base class\'s copy', where=f'{ci.module.relpath}:{ci.node.lineno}')
        d = body.get('__deepcopy__')
        ok_d = d is not None and ((isinstance(d, ast.Assign) and text(d.value) == 'copy') or
                                  (isinstance(d, ast.FunctionDef) and any(isinstance(x, ast.Return) and x.value is not None and is_self_call(x.value, 'copy') for x in ast.walk(d))))
        R.check(ok_d, q, '__deepcopy__', f'{ci.name}.__deepcopy__ delegates to this class\'s copy()',
                f'{ci.name} defines copy() but `__deepcopy__` in the same class body is {"missing" if d is None else "not delegating to self.copy()"}',
                where=f'{ci.module.relpath}:{ci.node.lineno}')
    R.expect('fsic/*', n, 2, 'classes that define copy()')


def _deep_copy_arms(e: ast.AST) -> bool:
    """Every arm of `e` is copy.deepcopy(X) - or X.copy() taken only where X is known to be a plain ndarray without Python
    objects (the buffer copy is then as deep as it gets)."""
    from fsa.gated import canon, leaves
    for (facts, leaf) in leaves(canon(e)):
        if is_call(leaf, 'copy.deepcopy') and leaf.args:
            continue
        if method_call(leaf, 'copy') and not leaf.args:
            x = text(leaf.func.value)
            if any(text(a_) == f'{x}.dtype.hasobject' and not tr_ for (a_, tr_) in facts) \
                    and any(text(a_) in (f'type({x}) is np.ndarray', f'isinstance({x}, np.ndarray)') and tr_ for (a_, tr_) in facts):
                continue
        return False
    return True


def r2_copy_completeness(R) -> None:
    for q in ('fsic.core.containers.VectorContainer.copy', 'fsic.core.linkers.BaseLinker.copy'):
        f = Fn(R, q)
        news = [n for n in f.cfg.nodes if n.kind == 'stmt' and isinstance(n.ast, ast.Assign) and isinstance(n.ast.value, ast.Call)
                and text(n.ast.value.func) in ('self.__class__', 'type(self)')]
        if not R.require(q, len(news), 'copied = self.__class__(...)', fi=f.fi, pred=lambda x: isinstance(x, ast.Call) and text(x.func) in ('self.__class__', 'type(self)')):
            continue
        new = news[0]
        obj = text(new.ast.targets[0])
        ctor = new.ast.value
        # constructor arguments must be deep copies
        for a in list(ctor.args) + [k.value for k in ctor.keywords]:
            a2 = f.as_dictcomp(new.id, a) or f.expand(new.id, a)
            a2 = f._inline_pure_calls(a2)
            ok = _deep_copy_arms(a2) or (isinstance(a2, ast.DictComp) and _deep_copy_arms(a2.key) and _deep_copy_arms(a2.value))
            R.check(ok, q, 'ctor-arg:' + text(a)[:50], 'constructor arguments of the copy are deep copies',
                    f'`{text(a2)[:60]}` is passed to the new object by reference', where=f.where(new))
        # the constructor validates its arguments against each other (a linker's name against its submodel ids): a copy that
        # hands over only some of them has the others checked at their *defaults*, so an object the constructor accepted
        # may have no copy - every parameter that shares a rejection test with a passed one must be passed too
        init_q = q.rsplit('.', 1)[0] + '.__init__'
        if init_q in R.repo.functions:
            fi_ = Fn(R, init_q)
            passed_kw = {k.arg for k in ctor.keywords if k.arg}
            params_ = fi_.fi.params()[1:]
            passed_kw |= set(params_[:len(ctor.args)])
            seen_guard = set()
            for r_ in fi_.raises():
                for (a_, _tr, _t) in fi_.guard_atoms(r_.id):
                    if text(a_) in seen_guard:
                        continue
                    seen_guard.add(text(a_))
                    names_ = {x.id for x in ast.walk(a_) if isinstance(x, ast.Name) and x.id in params_}
                    if names_ & passed_kw and names_ - passed_kw:
                        # only parameters still holding what was passed in count
                        missing = sorted(n_ for n_ in names_ - passed_kw if all(s_ == PARAM for (s_, _v) in fi_.lf.values_reaching(_t.id, n_)))
                        if missing:
                            R.violation(q, 'ctor-guard-sees-default:' + ','.join(missing),
                                        f'`{text(ctor)[:50]}...` rebuilds the object without `{", ".join(missing)}`, which {init_q.split(".")[-2]}.__init__ checks against '
                                        f'`{", ".join(sorted(names_ & passed_kw))}` (`{text(a_)[:50]}`): the check then sees the default, so an object the constructor accepted '
                                        f'(a linker named \'L\' with a submodel \'_\') cannot be copied', where=f.where(new))
        # the new object's __dict__ is filled either by `.update(<mapping>)` or by stores in a loop: both are read as
        # the equivalent dict comprehension
        ups = [n for n in f.cfg.nodes if n.kind == 'stmt' and n.ast is not None and any(method_call(x, 'update') and text(x.func.value) == f'{obj}.__dict__' for x in ast.walk(n.ast))]
        loop_stores = [n for n in f.cfg.nodes if n.kind == 'stmt' and isinstance(n.ast, ast.Assign) and isinstance(n.ast.targets[0], ast.Subscript)
                       and text(n.ast.targets[0].value) == f'{obj}.__dict__' and n.loops]
        fills = []  # (node, DictComp)
        for n in ups:
            up = [x for x in ast.walk(n.ast) if method_call(x, 'update')][0]
            dc = f.as_dictcomp(n.id, up.args[0]) if up.args else None
            if dc is None:
                raise Unsupported(f'{q}: update argument `{text(up.args[0])[:40] if up.args else ""}` is not a dict comprehension or a dict filled by one loop')
            fills.append((n, dc))
        for n in loop_stores:
            dc = f.loop_store_comp(n)
            if dc is None:
                raise Unsupported(f'{q}: `{text(n.ast)[:50]}` is not a store in a for loop')
            fills.append((n, dc))
        if not fills:
            R.require(q, 0, f'{obj}.__dict__.update({{k: copy.deepcopy(v) ...}})', fi=f.fi, pred=lambda x: method_call(x, 'update'))
            continue
        from fsa.match import nnf_atoms
        passed = {k.arg for k in ctor.keywords if k.arg}
        for (n, dc) in fills:
            g = dc.generators[0]
            kv = [x.id for x in ast.walk(g.target) if isinstance(x, ast.Name)]
            # every arm of the value is a deep copy of the entry - or a NumPy `.copy()` taken only where the array is known
            # to hold no Python objects (an object array's `.copy()` shares its elements, e.g. the per-period Trace objects)
            from fsa.gated import canon, leaves
            arms_ok = True
            for (facts, leaf) in leaves(canon(f._inline_pure_calls(dc.value))):
                if is_call(leaf, 'copy.deepcopy') and len(kv) == 2 and text(leaf.args[0]) == kv[1]:
                    continue
                if method_call(leaf, 'copy') and len(kv) == 2 and text(leaf.func.value) == kv[1] and not leaf.args \
                        and any(text(a_) == f'{kv[1]}.dtype.hasobject' and not tr_ for (a_, tr_) in facts) \
                        and any(text(a_) in (f'type({kv[1]}) is np.ndarray', f'isinstance({kv[1]}, np.ndarray)') and tr_ for (a_, tr_) in facts):
                    continue
                arms_ok = False
            ok = len(dc.generators) == 1 and text(g.iter) == 'self.__dict__.items()' and len(kv) == 2 and text(dc.key) == kv[0] and arms_ok
            R.check(ok, q, 'deepcopy-all:' + text(dc)[:80], 'every entry of __dict__ is deep-copied into the copy',
                    f'`{text(dc)[:90]}` stores an entry by reference (no copy.deepcopy of the value; a shallow `.copy()` shares the elements of object arrays such as '
                    f'per-period Trace objects)', where=f.where(n))
            # exclusions: exact key tests only, and every excluded key handed to the constructor
            for c in g.ifs:
                for (at, truth) in nnf_atoms(c, True):
                    keys = None
                    if isinstance(at, ast.Compare) and len(at.ops) == 1 and kv and text(at.left) == kv[0] and not truth:
                        c0 = at.comparators[0]
                        if isinstance(at.ops[0], ast.In) and isinstance(c0, (ast.List, ast.Tuple, ast.Set)) and all(isinstance(e, ast.Constant) for e in c0.elts):
                            keys = [e.value for e in c0.elts]
                        elif isinstance(at.ops[0], ast.Eq) and isinstance(c0, ast.Constant):
                            keys = [c0.value]
                        elif isinstance(at.ops[0], ast.In) and isinstance(c0, ast.Constant) and isinstance(c0.value, str):
                            R.violation(q, 'excluded-key-substring:' + text(at), f'`{text(at)}` tests membership in a *string* (a substring test): every attribute whose name is '
                                        f'a substring of {c0.value!r} is silently left out of the copy', where=f.where(n))
                            continue
                    if keys is None:
                        raise Unsupported(f'{q}: filter `{text(c)}` in the copy of __dict__ not modelled')
                    for e in keys:
                        R.check(e in passed, q, f'excluded-key:{e}', f'the excluded entry `{e}` is handed to the constructor (deep-copied)',
                                f'`{e}` is excluded from the deep copy of __dict__ and not passed to the constructor: the copy would keep the constructor default',
                                where=f.where(n))
        rets = f.returns()
        last = fills[-1][0]
        anchor = f.cfg.nodes[last.loops[0]] if last.loops else last
        R.check(len(rets) == 1 and text(rets[0].ast.value) == obj and anchor.id in f.dom[rets[0].id], q, 'returns-copy', 'the populated copy is returned',
                'copy() does not return the populated new object', where=f.fi.where)


# ---------------------------------------------------------------------------
def _escapes(f: Fn, consts: Set[str], params: Tuple[str, ...] = (), depth: int = 0, results_of: Tuple[str, ...] = ()) -> List[Tuple[ast.AST, str, int]]:
    """(node, description, lineno) where a class-level mutable flows uncopied
    into something that may keep it.  `params`: parameters of this function that hold such an object (it was handed
    to this method by a caller): their uses are judged the same way, while they still hold what was passed."""
    fi = f.fi
    par: Dict[int, ast.AST] = {}
    for n in ast.walk(fi.node):
        for c in ast.iter_child_nodes(n):
            par[id(c)] = n
    recv = fi.node.args.args[0].arg if fi.node.args.args else None
    if recv not in ('self', 'cls') and not params and not results_of:
        return []

    def is_const_load(x: ast.AST) -> Optional[str]:
        if isinstance(x, ast.Attribute) and isinstance(x.ctx, ast.Load) and isinstance(x.value, ast.Name) and x.value.id == recv and x.attr in consts:
            return x.attr
        return None

    out: List[Tuple[ast.AST, str, int]] = []

    def judge_use(x: ast.AST, what: str) -> None:
        """x is an expression that evaluates to the class-level object itself."""
        p = par.get(id(x))
        if p is None:
            return
        if isinstance(p, ast.Call):
            if x is p.func:
                return
            d = dotted(p.func)
            if d in READONLY_CALLS:
                return
            if isinstance(p.func, ast.Attribute) and p.func.attr in READONLY_METHODS and x is not p.func.value:
                return
            if isinstance(p.func, ast.Attribute) and p.func.attr in READONLY_METHODS:
                return
            # handed to another method of the same class: follow it there
            if isinstance(p.func, ast.Attribute) and isinstance(p.func.value, ast.Name) and p.func.value.id in ('self', 'cls') and fi.cls is not None and depth < 2 \
                    and x in p.args and not any(isinstance(a_, ast.Starred) for a_ in p.args):
                cq = f'{fi.cls.qualname}.{p.func.attr}'
                if f.repo.has_func(cq):
                    ci = f.repo.functions[cq]
                    is_static = any(text(d_) == 'staticmethod' for d_ in ci.node.decorator_list)
                    pos = ci.node.args.args[(0 if is_static else 1):]
                    k = p.args.index(x)
                    if k < len(pos):
                        inner = _escapes(Fn(f.R, cq), consts, params=(pos[k].arg,), depth=depth + 1)
                        returned = [e_ for e_ in inner if 'is returned uncopied' in e_[1]]
                        others = [e_ for e_ in inner if e_ not in returned]
                        for (n_, why_, ln_) in others:
                            out.append((p, f'`{what}` is passed to `{text(p.func)}(...)`, where {why_}', getattr(p, 'lineno', 0)))
                        if returned and not others:
                            judge_use(p, f'{what} (returned by `{p.func.attr}`)')
                        return
            # handed to a function of the package (called by its bare name): follow it there the same way
            if isinstance(p.func, ast.Name) and depth < 2 and x in p.args and not any(isinstance(a_, ast.Starred) for a_ in p.args):
                cands = [g_ for g_ in f.repo.all_functions() if g_.name == p.func.id and g_.cls is None and g_.parent is None]
                if len(cands) == 1:
                    ci = cands[0]
                    pos = ci.node.args.args
                    k = p.args.index(x)
                    if k < len(pos):
                        inner = _escapes(Fn(f.R, ci.qualname), consts, params=(pos[k].arg,), depth=depth + 1)
                        returned = [e_ for e_ in inner if 'is returned uncopied' in e_[1]]
                        others = [e_ for e_ in inner if e_ not in returned]
                        for (n_, why_, ln_) in others:
                            out.append((p, f'`{what}` is passed to `{text(p.func)}(...)`, where {why_}', getattr(p, 'lineno', 0)))
                        if returned and not others:
                            judge_use(p, f'{what} (returned by `{p.func.id}`)')
                        return
            # a method of another object, or a class of the package called to build an object: follow it into the one function
            # of that name, if there is exactly one
            target = None
            if isinstance(p.func, ast.Attribute) and not (isinstance(p.func.value, ast.Name) and p.func.value.id in ('self', 'cls')):
                cands = [g_ for g_ in f.repo.all_functions() if g_.name == p.func.attr and g_.cls is not None and g_.parent is None]
                if len(cands) == 1:
                    target = cands[0]
            elif isinstance(p.func, ast.Name):
                cands = [g_ for g_ in f.repo.all_functions() if g_.name == '__init__' and g_.cls is not None and g_.cls.name == p.func.id]
                if len(cands) == 1:
                    target = cands[0]
            if target is not None and depth < 2 and x in p.args and not any(isinstance(a_, ast.Starred) for a_ in p.args):
                pos = target.node.args.args[1:]
                k = p.args.index(x)
                if k < len(pos):
                    inner = _escapes(Fn(f.R, target.qualname), consts, params=(pos[k].arg,), depth=depth + 1)
                    returned = [e_ for e_ in inner if 'is returned uncopied' in e_[1]]
                    others = [e_ for e_ in inner if e_ not in returned]
                    for (n_, why_, ln_) in others:
                        out.append((p, f'`{what}` is passed to `{text(p.func)}(...)`, where {why_}', getattr(p, 'lineno', 0)))
                    if returned and not others:
                        judge_use(p, f'{what} (returned by `{text(p.func)}`)')
                    return
            known_lib = isinstance(p.func, ast.Attribute) and isinstance(p.func.value, ast.Name) and p.func.value.id in ('np', 'pd', 'numpy', 'pandas', 'copy', 'itertools', 'difflib')
            if target is None and not known_lib and isinstance(p.func, ast.Attribute) and not (isinstance(p.func.value, ast.Name) and p.func.value.id in ('self', 'cls', 'super')):
                # a method of an object this rule knows nothing about: what it does with the argument was not read
                out.append((p, f'`{what}` is passed uncopied to `{text(p.func)}(...)` (callee not read)', getattr(p, 'lineno', 0)))
                return
            out.append((p, f'`{what}` is passed uncopied to `{text(p.func)}(...)`', getattr(p, 'lineno', 0)))
            return
        if isinstance(p, ast.keyword):
            pp = par.get(id(p))
            if isinstance(pp, ast.Call):
                d = dotted(pp.func)
                if d in READONLY_CALLS:
                    return
                out.append((pp, f'`{what}` is passed uncopied as `{p.arg}=` to `{text(pp.func)}(...)`', getattr(pp, 'lineno', 0)))
            return
        if isinstance(p, ast.Attribute):
            # method call on it, e.g. self.ALIASES.get(...): handled when p is the func of a Call
            pp = par.get(id(p))
            if isinstance(pp, ast.Call) and pp.func is p:
                if p.attr in MUTATORS:
                    out.append((pp, f'`{what}` is mutated by `.{p.attr}()`', getattr(pp, 'lineno', 0)))
                return
            return
        if isinstance(p, ast.Subscript):
            if isinstance(p.ctx, ast.Store) and p.value is x:
                out.append((p, f'`{what}` is written through a subscript', getattr(p, 'lineno', 0)))
            return
        if isinstance(p, (ast.Compare, ast.BoolOp, ast.UnaryOp, ast.JoinedStr, ast.FormattedValue, ast.If, ast.IfExp, ast.For, ast.comprehension,
                          ast.While, ast.BinOp, ast.Starred)):
            if isinstance(p, ast.IfExp) and x is not p.test:
                judge_use(p, what)
            return
        if isinstance(p, ast.Return):
            out.append((p, f'`{what}` is returned uncopied', p.lineno))
            return
        if isinstance(p, (ast.Assign, ast.AnnAssign)):
            for t in (p.targets if isinstance(p, ast.Assign) else [p.target]):
                if isinstance(t, ast.Name):
                    track_alias(t.id, p, what)
                else:
                    out.append((p, f'`{what}` is stored uncopied into `{text(t)}`', p.lineno))
            return
        if isinstance(p, (ast.List, ast.Tuple, ast.Dict, ast.Set)):
            judge_use(p, what)
            return

    seen_alias: Set[Tuple[str, int]] = set()

    def track_alias(name: str, assign: ast.AST, what: str) -> None:
        node = f.cfg.by_ast.get(id(assign))
        if node is None:
            return
        if (name, node) in seen_alias:
            return
        seen_alias.add((name, node))
        for n in f.cfg.nodes:
            if n.ast is None:
                continue
            from fsa.flow import node_expr_roots, _walk_no_scopes
            for root in node_expr_roots(n):
                for x in _walk_no_scopes(root):
                    if isinstance(x, ast.Name) and x.id == name and isinstance(x.ctx, ast.Load):
                        if node in f.lf.defs_reaching(n.id, name):
                            judge_use(x, f'{what} (via `{name}`)')

    for x in ast.walk(fi.node):
        nm = is_const_load(x)
        if nm is not None:
            judge_use(x, f'{recv}.{nm}')
    # calls of a private helper that returns a class-level object as it is: the call stands for the object
    for x in ast.walk(fi.node):
        if isinstance(x, ast.Call) and isinstance(x.func, ast.Attribute) and x.func.attr in results_of and isinstance(x.func.value, ast.Name) \
                and x.func.value.id in ('self', 'cls'):
            judge_use(x, f'the class-level object returned by `{x.func.attr}()`')
    # parameters that hold a class-level object: every read made while the name still refers to what was passed
    for pn in params:
        for n in f.cfg.nodes:
            if n.ast is None:
                continue
            from fsa.flow import node_expr_roots, _walk_no_scopes
            for root in node_expr_roots(n):
                for x in _walk_no_scopes(root):
                    if isinstance(x, ast.Name) and x.id == pn and isinstance(x.ctx, ast.Load) and PARAM in f.lf.defs_reaching(n.id, pn):
                        judge_use(x, f'the object passed as `{pn}`')
    return out


def r3_class_constants(R) -> None:
    consts = all_mutable_const_names(R)
    R.expect('fsic/*', len(consts), 8, 'mutable class-level attributes')
    n_loads = 0
    for fi in R.repo.all_functions():
        if fi.cls is None or fi.parent is not None:
            continue
        loads = [x for x in ast.walk(fi.node) if isinstance(x, ast.Attribute) and isinstance(x.value, ast.Name) and x.value.id in ('self', 'cls')
                 and x.attr in consts and isinstance(x.ctx, ast.Load)]
        if not loads:
            continue
        n_loads += len(loads)
        f = Fn(R, fi.qualname)
        esc = _escapes(f, consts)
        if not esc:
            R.ok(fi.qualname, f'{len(loads)} read(s) of class-level mutable attributes: copied before being kept, or read-only',
                 detail=sorted({x.attr for x in loads}))
        seen = set()
        # a private helper that returns the class-level object as it is: what matters is what its callers do with the result
        handed_back = [e_ for e_ in esc if 'is returned uncopied' in e_[1]]
        if handed_back and fi.name.startswith('_') and not fi.name.startswith('__') and len(handed_back) == len(esc):
            callers = [g_ for g_ in R.repo.all_functions() if g_.qualname != fi.qualname and any(
                isinstance(x, ast.Call) and isinstance(x.func, ast.Attribute) and x.func.attr == fi.name for x in ast.walk(g_.node))]
            if callers and all(isinstance(x.func.value, ast.Name) and x.func.value.id in ('self', 'cls') for g_ in callers for x in ast.walk(g_.node)
                               if isinstance(x, ast.Call) and isinstance(x.func, ast.Attribute) and x.func.attr == fi.name):
                esc = []
                for g_ in callers:
                    for (node, why, line) in _escapes(Fn(R, g_.qualname), consts, results_of=(fi.name,), depth=1):
                        if 'returned by `' + fi.name in why:
                            R.violation(g_.qualname, f'class-const-escape:{why}', f'{why}: instances (and the class) would share one mutable object',
                                        where=f'{g_.module.relpath}:{line}')
                R.ok(fi.qualname, f'returns a class-level mutable attribute as it is; {len(callers)} caller(s) judged on what they do with the result',
                     detail=sorted(g_.qualname for g_ in callers))
            elif not callers:
                from fsa.source import baseline
                if baseline() and fi.qualname not in baseline():
                    # a helper the rules do not anchor on is read in place of its calls: its callers were judged with its body in them
                    esc = []
                    R.ok(fi.qualname, 'returns a class-level mutable attribute as it is; read in place of its calls, where the use of the result is judged')
        for (node, why, line) in esc:
            key = f'class-const-escape:{why}'
            if key in seen:
                continue
            seen.add(key)
            if why.endswith('(callee not read)'):
                R.inconclusive(fi.qualname, f'{why}: whether the callee keeps or changes the object was not decided')
                continue
            R.violation(fi.qualname, key, f'{why}: instances (and the class) would share one mutable object', where=f'{fi.module.relpath}:{line}')
    R.expect('fsic/*', n_loads, 12, 'reads of class-level mutable attributes through self/cls')


def r4_mutable_defaults(R, extra_nodes: Optional[List[ast.AST]] = None) -> None:
    n = 0
    for fi in R.repo.all_functions():
        n += 1
        for nm, d in fi.param_defaults().items():
            if d is not None and isinstance(d, (ast.List, ast.Dict, ast.Set, ast.ListComp, ast.DictComp)) or (d is not None and is_call(d, 'list', 'dict', 'set')):
                R.violation(fi.qualname, f'mutable-default:{nm}', f'parameter `{nm}` has the mutable default `{text(d)}`: shared between calls', where=fi.where)
    # positive control: the rule must match the built-in fixture
    fixture = ast.parse('def f(self, x=[], *, y={}):\n    pass\n').body[0]
    hits = [d for d in fixture.args.defaults + fixture.args.kw_defaults if isinstance(d, (ast.List, ast.Dict))]
    R.check(len(hits) == 2, 'selftest/fixture', 'positive-control', 'the mutable-default matcher fires on the built-in fixture', 'positive control did not match')
    R.ok('fsic/*', f'no mutable default argument in {n} functions')


READERS = ('dict', 'list', 'tuple', 'sorted', 'set', 'frozenset', 'len', 'copy.deepcopy', 'copy.copy', 'deepcopy', 'iter', 'enumerate', 'zip', 'any', 'all', 'sum', 'min', 'max')
READ_METHODS = ('get', 'items', 'keys', 'values', 'copy', 'index', 'count', '__contains__', '__getitem__')


def _uses_of_shared_result(R, name: str):
    """How the package uses the result of the memoised function `name`: [(function, node, verdict, text)] with verdict
    'read' (the object is only looked at / copied) or a description of a use that changes or keeps the shared object."""
    out = []
    for gi in R.repo.all_functions():
        par = {}
        for p_ in ast.walk(gi.node):
            for c_ in ast.iter_child_nodes(p_):
                par[id(c_)] = p_
        muts = None
        for x in ast.walk(gi.node):
            if not (isinstance(x, ast.Call) and ((isinstance(x.func, ast.Attribute) and x.func.attr == name) or (isinstance(x.func, ast.Name) and x.func.id == name))):
                continue
            if gi.node.name == name:
                continue
            up = par.get(id(x))
            verdict = None
            if isinstance(up, ast.Dict) and any(k is None and v is x for k, v in zip(up.keys, up.values)):
                verdict = 'read'    # {**shared, ...}
            elif isinstance(up, ast.keyword) and up.arg is None:
                verdict = 'read'    # f(**shared)
            elif isinstance(up, ast.Starred):
                verdict = 'read'
            elif isinstance(up, ast.Call) and x in up.args and (dotted(up.func) or '') in READERS:
                verdict = 'read'
            elif isinstance(up, ast.Subscript) and up.value is x and isinstance(up.ctx, ast.Load):
                verdict = 'read'
            elif isinstance(up, ast.Attribute) and up.value is x and up.attr in READ_METHODS:
                verdict = 'read'
            elif isinstance(up, (ast.For, ast.comprehension)) and up.iter is x:
                verdict = 'read'
            elif isinstance(up, ast.Compare) and x in up.comparators and all(isinstance(o, (ast.In, ast.NotIn)) for o in up.ops):
                verdict = 'read'
            elif isinstance(up, ast.Assign) and len(up.targets) == 1 and isinstance(up.targets[0], ast.Name):
                nm = up.targets[0].id
                bad = None
                for y in ast.walk(gi.node):
                    if isinstance(y, (ast.Subscript, ast.Attribute)) and isinstance(y.ctx, (ast.Store, ast.Del)) and isinstance(y.value, ast.Name) and y.value.id == nm:
                        bad = f'`{text(par.get(id(y), y))[:50]}` stores into it'
                    if isinstance(y, ast.Call) and isinstance(y.func, ast.Attribute) and isinstance(y.func.value, ast.Name) and y.func.value.id == nm and y.func.attr in MUTATORS:
                        bad = f'`{text(y)[:50]}` changes it in place'
                    if isinstance(y, ast.AugAssign) and isinstance(y.target, ast.Name) and y.target.id == nm:
                        bad = f'`{text(y)[:50]}` changes it in place'
                    if isinstance(y, ast.Return) and isinstance(y.value, ast.Name) and y.value.id == nm:
                        bad = f'`{text(y)[:50]}` hands it on to the caller'
                    if isinstance(y, ast.Assign) and isinstance(y.value, ast.Name) and y.value.id == nm and any(isinstance(t, (ast.Attribute, ast.Subscript)) for t in y.targets):
                        bad = f'`{text(y)[:50]}` keeps it'
                verdict = 'read' if bad is None else f'`{text(up)[:50]}` then {bad}'
            else:
                verdict = f'`{text(up)[:60] if up is not None else text(x)}` uses the shared object in a way that is not a plain read'
            out.append((gi, x, verdict))
    return out


def r5b_no_memoised_mutables(R, used_by: Optional[Tuple[str, ...]] = None) -> None:
    """A memoised function hands the *same* object to every caller: a mutable result must only ever be read.
    `used_by`: only the memoised functions called from functions of these names (for the properties of one operation)."""
    n = 0
    for fi in R.repo.all_functions():
        decs = [text(d) for d in fi.node.decorator_list]
        if not any(d.split('(')[0].split('.')[-1] in ('lru_cache', 'cache', 'cached_property') for d in decs):
            continue
        if used_by is not None and not any(g.node.name in used_by for (g, _x, _v) in _uses_of_shared_result(R, fi.name)):
            continue
        n += 1
        for r in ast.walk(fi.node):
            if isinstance(r, ast.Return) and r.value is not None:
                v = r.value
                mutable = isinstance(v, (ast.Dict, ast.List, ast.Set, ast.DictComp, ast.ListComp, ast.SetComp)) or is_call(v, 'dict', 'list', 'set')
                if isinstance(v, ast.Name):
                    for a in ast.walk(fi.node):
                        if isinstance(a, ast.Assign) and any(isinstance(t, ast.Name) and t.id == v.id for t in a.targets) and \
                                (isinstance(a.value, (ast.Dict, ast.List, ast.Set, ast.DictComp, ast.ListComp, ast.SetComp)) or is_call(a.value, 'dict', 'list', 'set', 'copy.deepcopy')):
                            mutable = True
                if not mutable:
                    R.check(True, fi.qualname, 'memoised-immutable:' + text(v)[:40], 'memoised functions return immutable values', '', where=fi.where)
                    continue
                uses = _uses_of_shared_result(R, fi.name)
                public = not fi.name.startswith('_')
                badu = [(g, x, vd) for (g, x, vd) in uses if vd != 'read']
                if badu:
                    g, x, vd = badu[0]
                    R.violation(fi.qualname, 'memoised-mutable-changed:' + g.qualname.split('.')[-1],
                                f'`{fi.name}` is memoised ({", ".join(decs)}) and returns the mutable object `{text(v)[:40]}`: every caller (every instance) receives the same object, and '
                                f'{g.qualname.split(".")[-1]}() does not just read it: {vd} - the change is seen by every later call', where=f'{g.module.relpath}:{x.lineno}')
                elif public or not uses:
                    R.violation(fi.qualname, 'memoised-mutable:' + text(v)[:40],
                                f'`{fi.name}` is memoised ({", ".join(decs)}) and returns the mutable object `{text(v)[:40]}`: every caller (every instance) receives the same object',
                                where=fi.where)
                else:
                    R.check(True, fi.qualname, 'memoised-mutable-only-read:' + text(v)[:40],
                            f'the shared result of the memoised helper is only read or copied at its {len(uses)} call site(s)', '', where=fi.where)
    R.ok('fsic/*', f'{n} memoised function(s) in the package; no shared mutable result is changed or handed out')


def r5_globals_never_written(R) -> None:
    consts = all_mutable_const_names(R)
    total = 0
    for modname, mod in R.repo.modules.items():
        mutable_globals: Set[str] = set()
        for stmt in mod.tree.body:
            if isinstance(stmt, ast.Assign) and len(stmt.targets) == 1 and isinstance(stmt.targets[0], ast.Name):
                if isinstance(stmt.value, (ast.List, ast.Dict, ast.Set)) or is_call(stmt.value, 'list', 'dict', 'set'):
                    mutable_globals.add(stmt.targets[0].id)
            if isinstance(stmt, ast.ImportFrom):
                for al in stmt.names:
                    if al.name == 'builtins' and (stmt.module or '').endswith('functions'):
                        mutable_globals.add(al.asname or al.name)
        for q, fi in R.repo.functions.items():
            if fi.module.name != modname or fi.parent is not None:
                continue
            total += 1
            local: Set[str] = {a.arg for a in fi.node.args.posonlyargs + fi.node.args.args + fi.node.args.kwonlyargs}
            for n in ast.walk(fi.node):
                if isinstance(n, ast.Name) and isinstance(n.ctx, ast.Store):
                    local.add(n.id)
            for n in ast.walk(fi.node):
                tgts: List[ast.AST] = []
                if isinstance(n, ast.Assign):
                    tgts = list(n.targets)
                elif isinstance(n, (ast.AugAssign,)):
                    tgts = [n.target]
                elif isinstance(n, ast.Delete):
                    tgts = list(n.targets)
                for t in tgts:
                    for x in ast.walk(t):
                        if isinstance(x, (ast.Subscript, ast.Attribute)) and isinstance(x.ctx, (ast.Store, ast.Del)):
                            base = x.value
                            r = root_name(base)
                            if isinstance(base, ast.Name) and base.id in mutable_globals and base.id not in local:
                                R.violation(q, f'global-write:{text(n)[:60]}', f'`{text(n)[:70]}` writes the module-level object `{base.id}`',
                                            where=f'{fi.module.relpath}:{n.lineno}')
                            if isinstance(base, ast.Attribute) and isinstance(base.value, ast.Name) and base.value.id in ('self', 'cls') and base.attr in consts:
                                R.violation(q, f'classconst-write:{text(n)[:60]}', f'`{text(n)[:70]}` writes the class-level object `{base.attr}`',
                                            where=f'{fi.module.relpath}:{n.lineno}')
                if isinstance(n, ast.Call) and isinstance(n.func, ast.Attribute) and n.func.attr in MUTATORS:
                    base = n.func.value
                    if isinstance(base, ast.Name) and base.id in mutable_globals and base.id not in local:
                        R.violation(q, f'global-mutate:{text(n)[:60]}', f'`{text(n)[:70]}` mutates the module-level object `{base.id}`',
                                    where=f'{fi.module.relpath}:{n.lineno}')
                    if isinstance(base, ast.Attribute) and isinstance(base.value, ast.Name) and base.value.id in ('self', 'cls') and base.attr in consts:
                        R.violation(q, f'classconst-mutate:{text(n)[:60]}', f'`{text(n)[:70]}` mutates the class-level object `{base.attr}`',
                                    where=f'{fi.module.relpath}:{n.lineno}')
    R.ok('fsic/*', f'no write to a module-level or class-level mutable object in {total} functions')


def run(R) -> None:
    R.explanation = (
        'C11: every class that defines copy() binds __copy__/__deepcopy__ to it in the same body; each copy() builds a new object of '
        'self.__class__ and deep-copies every __dict__ entry (excluded keys must be passed to the constructor, deep-copied); every read '
        'of a class-level mutable attribute through self/cls (table computed from the class bodies) is followed through direct uses and '
        'local aliases (per reaching definition): it must be copied before it is stored, passed to a constructor/registrar or returned; '
        'no mutable default arguments (with a built-in positive control); module-level and class-level mutable objects are never the '
        'receiver of a write. Does not decide observational equality of copies, nor sharing introduced by the caller.'
    )
    R.rule('C11.R1', lambda: r1_copy_routes(R))
    R.rule('C11.R2', lambda: r2_copy_completeness(R))
    R.rule('C11.R3', lambda: r3_class_constants(R))
    R.rule('C11.R4', lambda: r4_mutable_defaults(R))
    R.rule('C11.R5', lambda: (r5_globals_never_written(R), r5b_no_memoised_mutables(R)))
    # sibling instances built from the same data share nothing: a series never adopts the caller's array (C09.R1b)
    from rules import c09
    R.rule('C11.R6', lambda: c09.r1b_fresh_arrays(R))


def run_thorough(R) -> None:
    from rules.common import thorough_compositions
    thorough_compositions(R, 'C11.T1', ['copy', '__copy__', '__deepcopy__', '__init__'])
