"""C04 - solving a period touches only that period; reads never wrap round.

R1 index discipline (Python solvers + Fortran template), R2 up-front rejections
are effect-free, R3 lags/leads feasibility guard (Python and Fortran twins),
R4 cross-references (default range = C03.R7, read offsets = C01.R1).
"""

from __future__ import annotations

import ast
from fractions import Fraction
from typing import List, Optional

from fsa.cfg import CFG, raised_class
from fsa.consts import folder
from fsa.effects import effect_nodes
from fsa.flow import LocalFlow, dominators, guards
from fsa.ftn import parse_template
from fsa.match import Affine, Unknown, affine, cmp_of, dict_slot, disj_atoms, is_underscore_key, dotted
from fsa.source import AnchorMissing, Unsupported, iter_own_nodes, stmt_key, text
from rules.solver_common import (
    FnView,
    SolverShape,
    offset_source_index,
    effects_of,
    expr,
    fsic_hierarchy,
    guard_atoms,
    is_normalised_position,
    series_stores,
)

Q = 'fsic.core.models.BaseModel.solve_t'


def _series_loads(fnode: ast.AST):
    """(subscript node, series key text, index expr) for element loads of a
    series' backing array anywhere in the function (nested defs included)."""
    out = []
    for n in ast.walk(fnode):
        if isinstance(n, ast.Subscript) and isinstance(n.ctx, ast.Load):
            ds = dict_slot(n.value)
            if ds is not None and is_underscore_key(ds[1]) is not None:
                out.append((n, text(n.value), n.slice))
            elif isinstance(n.value, ast.Attribute) and isinstance(n.value.value, ast.Name) \
                    and n.value.attr in ('status', 'iterations') and n.value.value.id in ('self', 'submodel'):
                out.append((n, text(n.value), n.slice))
            elif isinstance(n.value, ast.Subscript) and isinstance(n.value.value, ast.Name) \
                    and n.value.value.id in ('submodel',) and isinstance(n.slice, ast.Name):
                out.append((n, text(n.value), n.slice))
    return out


def r1_index_discipline(R) -> None:
    sites = 0
    for q, idx_name in (
        ('fsic.core.models.BaseModel.solve_t', 't'),
        ('fsic.core.linkers.BaseLinker.solve_t', 't'),
        ('fsic.core.linkers.BaseLinker.evaluate_t', 't'),
        ('fsic.fortran.FortranEngine.solve_t', 't'),
        ('fsic.fortran.FortranEngine.solve', 't'),
    ):
        fi = R.repo.func(q)
        cfg = CFG(fi.node, fsic_hierarchy(R.repo))
        R.saw_function(fi, cfg)
        # status and iteration count of a period are recorded together: a store into one series has a twin into the
        # other, under the same conditions, for the same positions (whether one position or an array of them)
        all_st = [st for st in series_stores(cfg) if st.owner == 'self' and st.series in ('status', 'iterations')]
        from fsa.flow import guards as _guards_of
        guards = lambda st: (tuple(st.node.loops), tuple(sorted((tid, lab) for (tid, lab) in _guards_of(cfg, st.node.id))))
        for a_ in [st for st in all_st if st.series == 'status']:
            twins = [b_ for b_ in all_st if b_.series == 'iterations' and guards(b_) == guards(a_)]
            if len(twins) == 1 and text(twins[0].index) != text(a_.index):
                R.violation(q, f'status-iterations-positions:{text(a_.index)}|{text(twins[0].index)}',
                            f'`{a_.node.label()[:60]}` and `{twins[0].node.label()[:60]}` record the outcome of the same step for different positions (`{text(a_.index)}` / '
                            f'`{text(twins[0].index)}`): periods that were not attempted (or were rejected) get an iteration count or a status they should not have',
                            where=f'{fi.module.relpath}:{twins[0].node.lineno}')
            elif len(twins) == 1:
                R.check(True, q, f'status-iterations-positions:{text(a_.index)}', 'status and iterations are recorded for the same positions', '', where=f'{fi.module.relpath}:{a_.node.lineno}')
        for st in series_stores(cfg):
            if st.series.startswith('<dict:'):
                continue
            if st.owner not in ('self', 'submodel'):
                # local arrays (current_values[...] = 0.0) are not model state
                continue
            sites += 1
            if text(st.index) != idx_name and isinstance(st.index, ast.Name) and st.index.id not in fi.params():
                ok_aff = True
                try:
                    ok_aff = all(dv is not None and not any(isinstance(x, (ast.Call, ast.Subscript)) for x in ast.walk(dv))
                                 for (_s, dv) in LocalFlow(cfg, fi.params()).values_reaching(st.node.id, st.index.id))
                except Exception:
                    ok_aff = False
                if not ok_aff:
                    # a local that is not plain arithmetic on the period (an array of positions, a mask): vectorised store
                    raise Unknown(f'{q}: store `{st.node.label()[:60]}` is indexed by the computed local `{st.index.id}` (array of positions / mask): not read here')
            R.check(text(st.index) == idx_name, q, f'store-index:{stmt_key(st.node.ast)}',
                    f'store {st.owner}.{st.series}[{idx_name}] addresses the period being solved',
                    f'store `{st.node.label()}` addresses `{text(st.index)}`, not `{idx_name}`',
                    where=f'{fi.module.relpath}:{st.node.lineno}')
            if st.series.startswith('<dyn:'):
                lp = [cfg.nodes[i] for i in st.node.loops]
                it_ok = bool(lp) and lp[-1].kind == 'for' and text(lp[-1].ast.iter) in ('self.endogenous', "self.__dict__['endogenous']")
                R.check(it_ok, q, f'store-series:{stmt_key(st.node.ast)}',
                        'only series named by self.endogenous are written',
                        f'data series written outside `for name in self.endogenous`: `{st.node.label()}`',
                        where=f'{fi.module.relpath}:{st.node.lineno}')
        allowed = {affine(expr(idx_name))}
        view = FnView(R.repo, q, cfg)
        for (node, key, idx) in _series_loads(fi.node):
            sites += 1
            a = affine(idx)
            if a == affine(expr(idx_name)):
                R.ok(q, f'load {key}[{text(idx)}] addresses the period being solved', trivial=True)
                continue
            at = view.node_of(node)
            if a == affine(expr(f'{idx_name} + offset')) or (at is not None and offset_source_index(view, at.id, idx, idx_name)):
                # only as the source of the guarded offset copy
                par_ok = False
                for st in series_stores(cfg):
                    if st.value is node and text(st.index) == idx_name:
                        par_ok = True
                R.check(par_ok, q, f'load-offset:{text(node)}', 'the only read at t + offset is the source of the offset copy',
                        f'read at `{text(idx)}` outside the offset copy: `{text(node)}`', where=f'{fi.module.relpath}:{node.lineno}')
                continue
            R.violation(q, f'load-index:{text(node)}', f'series read `{text(node)}` addresses `{text(idx)}`, not the period being solved',
                        where=f'{fi.module.relpath}:{node.lineno}', mismatch=True)
    R.expect('solvers', sites, 25, 'series element stores/loads in the solver functions')
    # Fortran wrappers: the whole-matrix store self.values = <engine result>
    for q, sub in (('fsic.fortran.FortranEngine.solve_t', 'solve_t'), ('fsic.fortran.FortranEngine.solve', 'solve'),
                   ('fsic.fortran.FortranEngine._evaluate', 'evaluate')):
        fi = R.repo.func(q)
        n_vals = 0
        # the engine result: the first of the names the call of self.ENGINE.<sub>(...) is unpacked into (the matrix comes first
        # in every routine: C07.R2), whatever it is called
        first = {'solved_values'}
        for n in iter_own_nodes(fi.node):
            if isinstance(n, ast.Assign) and len(n.targets) == 1 and isinstance(n.value, ast.Call) and isinstance(n.value.func, ast.Attribute) \
                    and text(n.value.func.value) == 'self.ENGINE':
                tg = n.targets[0]
                e0 = tg.elts[0] if isinstance(tg, ast.Tuple) and tg.elts else tg
                if isinstance(e0, ast.Name):
                    first = {e0.id}
        for n in iter_own_nodes(fi.node):
            if isinstance(n, ast.Assign) and len(n.targets) == 1 and text(n.targets[0]) == 'self.values':
                n_vals += 1
                R.check(isinstance(n.value, ast.Name) and n.value.id in first, q, f'values-store:{text(n)}',
                        'the matrix stored back is the engine result', f'`{text(n)}` does not store the engine result',
                        where=f'{fi.module.relpath}:{n.lineno}')
        R.expect(q, n_vals, 1, '`self.values = solved_values` store')
    # template side
    unit = parse_template(folder(R.repo, 'fsic.fortran').get('FORTRAN_TEMPLATE'))
    n_tpl = 0
    for name, sub in unit.subs.items():
        period_vars = {'index'}
        for n in ast.walk(sub.pyfunc):
            if isinstance(n, ast.Assign) and len(n.targets) == 1:
                t = n.targets[0]
                if isinstance(t, ast.Name) and t.id == 'solved_values':
                    n_tpl += 1
                    R.check(text(n.value) == 'initial_values', f'FORTRAN_TEMPLATE.{name}', f'whole-copy:{text(n)}',
                            'whole-array assignment to solved_values is the initial copy',
                            f'whole-array assignment `{text(n)}` is not the initial copy of initial_values', where=f'template line {n.lineno}')
                elif isinstance(t, ast.Subscript) and text(t.value) == 'solved_values':
                    n_tpl += 1
                    sl = t.slice
                    second = sl.elts[1] if isinstance(sl, ast.Tuple) and len(sl.elts) == 2 else None
                    R.check(second is not None and text(second) in period_vars, f'FORTRAN_TEMPLATE.{name}', f'tpl-store:{text(n)}',
                            'element assignment to solved_values addresses column `index`',
                            f'`{text(n)}` writes a column other than the period being solved', where=f'template line {n.lineno}')
                    first = sl.elts[0] if isinstance(sl, ast.Tuple) else None
                    R.check(first is not None and text(first).split('(')[0] == 'endogenous', f'FORTRAN_TEMPLATE.{name}', f'tpl-store-rows:{text(n)}',
                            'only endogenous rows are written outside the equations', f'`{text(n)}` writes non-endogenous rows',
                            where=f'template line {n.lineno}')
        # calls pass `index` (solve_t -> evaluate) / indexes(i) (solve -> solve_t) as the period
        for n in ast.walk(sub.pyfunc):
            if isinstance(n, ast.Call) and isinstance(n.func, ast.Name) and n.func.id in unit.subs:
                callee = unit.subs[n.func.id]
                pos = callee.args.index('t')
                arg = text(n.args[pos])
                n_tpl += 1
                R.check(arg in ('index', 'indexes(i)'), f'FORTRAN_TEMPLATE.{name}', f'tpl-call-period:{n.func.id}:{arg}',
                        f'call {n.func.id}() is given the period being solved', f'call {n.func.id}() is given `{arg}` as period',
                        where=f'template line {n.lineno}')
    R.expect('FORTRAN_TEMPLATE', n_tpl, 7, 'solved_values assignments and internal calls in the template')


def _upfront_raises(sh_cfg, start_ids, raises):
    reach = set()
    for s in start_ids:
        reach |= sh_cfg.reachable_from(s)
    return [r for r in raises if r.id not in reach]


def r2_rejection_effect_free(R) -> None:
    for q, start_call in (
        ('fsic.core.models.BaseModel.solve_t', ('self', 'solve_t_before')),
        ('fsic.fortran.FortranEngine.solve_t', ('self.ENGINE', 'solve_t')),
    ):
        fi = R.repo.func(q)
        cfg = CFG(fi.node, fsic_hierarchy(R.repo))
        R.saw_function(fi, cfg)
        eff = effect_nodes(cfg, effects_of(R.repo))
        starts = []
        for n in cfg.nodes:
            if n.ast is None or n.kind == 'except':
                continue
            from fsa.flow import node_expr_roots
            for root in node_expr_roots(n):
                if isinstance(root, (ast.FunctionDef, ast.ClassDef)):
                    continue
                for c in ast.walk(root):
                    if isinstance(c, ast.Call) and isinstance(c.func, ast.Attribute) and c.func.attr == start_call[1] \
                            and text(c.func.value) == start_call[0]:
                        starts.append(n.id)
        if not R.expect(q, len(starts), 1, f'{start_call[0]}.{start_call[1]}() call (start of the work)'):
            continue
        # local helpers that both change the model and raise: a call of one is a rejection that is not effect-free
        from fsa.effects import direct_writes, local_aliases_of
        for sub in ast.walk(fi.node):
            if isinstance(sub, ast.FunctionDef) and sub is not fi.node and any(isinstance(x, ast.Raise) for x in ast.walk(sub)) \
                    and direct_writes(sub, local_aliases_of(fi.node, 'self')):
                reach = set()
                for s_ in starts:
                    reach |= cfg.reachable_from(s_)
                for n in cfg.nodes:
                    if n.ast is not None and n.kind == 'stmt' and n.id not in reach and any(isinstance(c, ast.Call) and isinstance(c.func, ast.Name) and c.func.id == sub.name
                                                                                              for c in ast.walk(n.ast)) and not isinstance(n.ast, ast.FunctionDef):
                        R.violation(q, f'rejecting-helper-writes:{sub.name}', f'the up-front rejection at L{n.lineno} goes through `{sub.name}()`, which writes the model '
                                    f'(status/iterations) before raising: a call rejected up front would change the model', where=f'{fi.module.relpath}:{n.lineno}')
        raises = [n for n in cfg.nodes if n.kind == 'stmt' and isinstance(n.ast, ast.Raise)]
        up = _upfront_raises(cfg, starts, raises)
        R.expect(q, len(up), 4, 'up-front rejections (ValueError, IndexErrors, SolutionError)')
        # a period that cannot accommodate the lags / leads is one of them: rejected before anything is copied or handed to the
        # engine (in the Fortran wrapper the engine reports it as well, codes 11-14, but only after the offset copy has been made)
        def _pos(nid_, nm_, cfg=cfg, fi=fi):
            if nm_ == 't':
                return False
            defs_ = [x for x in ast.walk(fi.node) if isinstance(x, (ast.Assign, ast.AugAssign)) and any(isinstance(t_, ast.Name) and t_.id == nm_
                     for t_ in (x.targets if isinstance(x, ast.Assign) else [x.target]))]
            return bool(defs_) and all((isinstance(x, ast.Assign) and text(x.value) == 't') or
                                       (isinstance(x, ast.AugAssign) and isinstance(x.op, ast.Add) and text(x.value) in ('len(self.span)', "len(self.__dict__['span'])"))
                                       for x in defs_) and any(isinstance(x, ast.AugAssign) for x in defs_)
        feas = _feasibility(cfg, q, None, R, q, 'self.lags', ['len(self.span) - 1 - self.leads', "len(self.__dict__['span']) - 1 - self.leads"], _pos, None)
        from fsa.flow import guards as _gf
        for which in ('lags', 'leads'):
            tests_ = [n_ for (w_, n_) in feas if w_ == which]
            early = [r_ for r_ in up if raised_class(r_.ast) == 'IndexError' and any((n_.id, 'T') in _gf(cfg, r_.id) for n_ in tests_)]
            R.check(bool(early), q, f'feasibility-rejected-up-front:{which}',
                    f'a period that cannot accommodate the {which} is rejected (IndexError) before the work on the period starts',
                    f'no up-front IndexError for a period that cannot accommodate the model\'s {which}: the call is rejected only after the offset copy has been made '
                    f'(and, in the Fortran wrapper, after the values have been handed to the engine) - a rejected call must leave everything unchanged',
                    where=fi.where)
        # the rejection of contradictory iteration limits is one of them: it must not come after the work has started
        from fsa.flow import guards as _g
        late = []
        for r in raises:
            if raised_class(r.ast) != 'ValueError' or r in up:
                continue
            for (tid, _lab) in _g(cfg, r.id):
                ta = cfg.nodes[tid].ast
                if ta is not None and any(b_ == r.id for (b_, _l) in cfg.nodes[tid].succ) and any(isinstance(c_, ast.Compare) and {'min_iter', 'max_iter'} <= {x.id for x in ast.walk(c_) if isinstance(x, ast.Name)} for c_ in ast.walk(ta)):
                    late.append(r)
                    break
        for r in late:
            fwd = cfg.reachable_from(cfg.entry)
            before = [e for e in eff if e in fwd and r.id in cfg.reachable_from(e)]
            started = [s_ for s_ in starts if r.id in cfg.reachable_from(s_)]
            first = cfg.nodes[(before or started)[0]] if (before or started) else None
            R.violation(q, 'limits-rejected-late',
                        f'`min_iter > max_iter` is rejected (ValueError, L{r.lineno}) only after the work on the period has started'
                        + (f': `{first.label()[:60]}` has already run (the offset copy has overwritten period t, the pre-solution hook has been called)' if first is not None else '')
                        + ' - a rejected call must leave everything unchanged', where=f'{fi.module.relpath}:{r.lineno}')
        for r in up:
            fwd = cfg.reachable_from(cfg.entry)
            on_path = [e for e in eff if e in fwd and r.id in cfg.reachable_from(e)]
            cls = raised_class(r.ast)
            if not on_path:
                R.ok(q, f'up-front {cls} changes nothing before it is raised', detail=f'L{r.lineno}')
                continue
            for e in on_path:
                en = cfg.nodes[e]
                from rules import memo as _memo
                lab_ = _memo.owned(R.repo, en.ast) if en.ast is not None else None
                if lab_ is not None:
                    R.ok(q, f'`{en.label()[:50]}` fills the cache `{lab_}` (no model value): whether what it keeps can go stale is decided by rule C04.M')
                    continue
                p = cfg.some_path(e, r.id)
                what_ = stmt_key(en.ast)
                a_ = en.ast
                if isinstance(a_, ast.Assign) and len(a_.targets) == 1 and isinstance(a_.targets[0], ast.Subscript) and isinstance(a_.value, ast.Subscript) \
                        and text(a_.targets[0].value) == text(a_.value.value) and text(a_.targets[0].slice) == 't':
                    # series[t] = series[<source period>], however the series is named and the source position is worked out
                    # (that it is t + offset is the business of C04.R1): the copy made for `offset`
                    what_ = 'offset-copy'
                R.violation(q, f'effect-before-reject:{cls}<-{what_}',
                            f'the up-front rejection `{cls}` at L{r.lineno} can be raised after `{en.label()}` has already changed the model',
                            where=f'{fi.module.relpath}:{en.lineno}', path=cfg.describe_path(p) if p else None)


def _feasibility(cfg, fi_name, where_fn, R, q, lags_atom, last_expr_srcs, pos_ok, raise_pred, base_shift=0, read=None):
    """Find a test whose disjuncts are {P < lags, P > last - leads} (integer
    canonical form; P = normalised 0-based position + base_shift).  `read(nid, atom, keep)`: the atom with locals
    other than the position read through."""
    found = []
    for n in cfg.nodes:
        if n.kind != 'test':
            continue
        for atom in disj_atoms(n.ast):
            if read is not None:
                keep = tuple(x.id for x in ast.walk(atom) if isinstance(x, ast.Name) and pos_ok(n.id, x.id))
                try:
                    atom = read(n.id, atom, keep)
                except Unsupported:
                    pass
            c = cmp_of(atom)
            if c is None:
                continue
            for nm in [k for k in c.expr.terms if k.isidentifier()]:
                if not pos_ok(n.id, nm):
                    continue
                subst = {nm: Affine(Fraction(base_shift), {'P': Fraction(1)})}
                cc = cmp_of(atom, subst).as_int()
                if cc == cmp_of(expr(f'P < {lags_atom}')).as_int():
                    found.append(('lags', n))
                for le in last_expr_srcs:
                    if cc == cmp_of(expr(f'P > {le}')).as_int():
                        found.append(('leads', n))
    return found


def r3_feasibility_guard(R) -> None:
    # Python
    sh = SolverShape(R.repo, Q)
    R.saw_function(sh.fi, sh.cfg)
    found = _feasibility(
        sh.cfg, sh.q, sh.where, R, sh.q, 'self.lags',
        ['len(self.span) - 1 - self.leads', "len(self.__dict__['span']) - 1 - self.leads"],
        lambda nid, nm: is_normalised_position(sh, nid, nm), None, read=lambda nid, atom, keep: sh.value_at(nid, atom, keep=keep),
    )
    for which in ('lags', 'leads'):
        tn = [n for (w, n) in found if w == which]
        if not tn:
            R.check(False, sh.q, f'feasibility-missing:{which}', '',
                    f'no rejection of a period that cannot accommodate the model\'s {which} '
                    f'(expected a comparison of the normalised position with '
                    f'{"self.lags" if which == "lags" else "len(self.span) - 1 - self.leads"}): reads would wrap round the span',
                    where=sh.where(sh.loop))
            continue
        n = tn[0]
        rs = [r for r in sh.raises('IndexError') if (n.id, 'T') in sh.guards_of(r.id)]
        R.check(bool(rs), sh.q, f'feasibility-raises:{which}', f'infeasible period ({which}) raises IndexError',
                f'the {which} feasibility test does not raise IndexError', where=sh.where(n))
        R.check(n.id in sh.dom[sh.n_eval.id] and n.id in sh.dom[sh.loop.id], sh.q, f'feasibility-dominates:{which}',
                f'the {which} feasibility test precedes the first evaluation on every path',
                f'the evaluation can start without the {which} feasibility test', where=sh.where(n))
    # Fortran twin
    unit = parse_template(folder(R.repo, 'fsic.fortran').get('FORTRAN_TEMPLATE'))
    for subname, target_pred, desc in (
        ('evaluate', lambda n: isinstance(n.ast, ast.Expr) and text(n.ast.value) == '__PLACEHOLDER_equations__', 'the equations'),
        ('solve_t', lambda n: n.kind == 'for' and text(n.ast.target) == 'iteration', 'the pass loop'),
    ):
        if subname not in unit.subs:
            raise AnchorMissing(f'FORTRAN_TEMPLATE: subroutine {subname} not found')
        sub = unit.subs[subname]
        cfg = CFG(sub.pyfunc)
        dom = dominators(cfg)
        targets = [n for n in cfg.nodes if n.ast is not None and target_pred(n)]
        if not R.expect(f'FORTRAN_TEMPLATE.{subname}', len(targets), 1, desc):
            continue
        tgt = targets[0]

        def pos_ok(nid, nm, cfg=cfg):
            # `index` = t, plus ncols when < 1 (1-based normalisation)
            return nm == 'index'

        found = _feasibility(cfg, subname, None, R, subname, 'lags', ['ncols - 1 - leads'], pos_ok, None, base_shift=1)
        g = guards(cfg, tgt.id)
        for which in ('lags', 'leads'):
            tn = [n for (w, n) in found if w == which]
            ok = bool(tn) and (tn[0].id, 'F') in g
            # the true branch must return with an error code
            if ok:
                tb = [b for (b, lab) in tn[0].succ if lab == 'T']
                ok = all(not cfg.reaches(b, tgt.id) for b in tb)
            R.check(ok, f'FORTRAN_TEMPLATE.{subname}', f'ftn-feasibility:{which}',
                    f'Fortran {subname}: the {which} feasibility guard precedes {desc}',
                    f'Fortran {subname}: no `{which}` feasibility guard dominates {desc}', where=f'template line {tgt.lineno}')


def run(R) -> None:
    R.explanation = (
        'C04: every element store/load of a series in the five solver functions is compared (affine form) with the period '
        'being solved; data-series stores only under `for name in self.endogenous`; Fortran template read statically: every '
        'assignment to solved_values is the initial copy or addresses column `index`, internal calls pass `index`; up-front '
        'rejections (raises not reachable from the start of the work) have no effect node on any entry->raise path; the '
        'lags/leads feasibility guard exists, raises IndexError and dominates the first evaluation, in Python and in both '
        'Fortran routines (1-based shift normalised). Does not decide what verbatim code or arbitrary scripts read.'
    )
    R.rule('C04.R1', lambda: r1_index_discipline(R))
    R.rule('C04.R2', lambda: r2_rejection_effect_free(R))
    R.rule('C04.R3', lambda: r3_feasibility_guard(R))
    R.rule('C04.R4', lambda: r4_crossrefs(R))
    # "solving never changes exogenous variables, parameters or errors" needs every series to own its array:
    # two series sharing storage would be written together (C09.R1b owns the detail)
    from rules import c09
    R.rule('C04.R5', lambda: c09.r1b_fresh_arrays(R))


def r4_crossrefs(R) -> None:
    """Default range (C03.R7), lag/lead lengths (C03.R5) and rendered read
    offsets (C01.R1): the rules are owned by C03/C01 and re-evaluated here."""
    try:
        from rules import c03
        c03.r7_default_range(R)
        # LAGS/LEADS are taken over every indexed symbol (variables, parameters, errors): that is what
        # makes every read in the default range fall inside the span
        c03.r5_definition(R)
    except ImportError:
        R.inconclusive('C03.R7', 'rule module c03 not available')
    try:
        from rules import c01
        c01.r1_term_rendering(R)
    except ImportError:
        R.inconclusive('C01.R1', 'rule module c01 not available')
