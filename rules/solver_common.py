"""Shared analysis of the per-period solvers (`BaseModel.solve_t`,
`BaseLinker.solve_t`): one CFG, reused by C02, C04, C06 and C08."""

from __future__ import annotations

import ast
from dataclasses import dataclass
from fractions import Fraction
from typing import Dict, List, Optional, Sequence, Set, Tuple

from fsa.cfg import CFG, ExcHierarchy, Node, raised_class
from fsa.effects import Effects, effect_nodes
from fsa.flow import LocalFlow, PARAM, dominators, guards, must_pass, postdominators, node_expr_roots
from fsa.match import (
    Wrong,
    Affine,
    Cmp,
    Unknown,
    affine,
    cmp_of,
    conj_atoms,
    convergence_test,
    dict_slot,
    disj_atoms,
    dotted,
    enum_value_ref,
    is_const,
    is_self_call,
    is_underscore_key,
    kwarg,
    has_star_kwargs,
    nonfinite_test,
    str_eq_test,
    subscript_store_targets,
)
from fsa.source import AnchorMissing, FunctionInfo, Repo, Unsupported, stmt_key, text

_EFFECTS_CACHE: Dict[int, Effects] = {}



class FalsyLimit(Exception):
    pass


def minmax_conjunct(t: ast.AST) -> Optional[ast.AST]:
    """The `min_iter > max_iter` comparison when the test `t` is that comparison, alone or guarded by `max_iter is not None`
    (an open-ended limit has nothing to compare).  Raises FalsyLimit when the guard is the truth value of the limit
    instead (`max_iter and min_iter > max_iter`): 0 is a legal limit and would skip the check."""
    want = cmp_of(expr('min_iter > max_iter')).as_int()
    atoms = list(t.values) if isinstance(t, ast.BoolOp) and isinstance(t.op, ast.And) else [t]
    hit = [a for a in atoms if cmp_of(a) is not None and cmp_of(a).as_int() == want]
    if len(hit) != 1:
        return None
    for a in atoms:
        if a is hit[0]:
            continue
        ta = text(a)
        if ta in ('max_iter is not None', 'min_iter is not None', 'None is not max_iter'):
            continue
        if isinstance(a, ast.Name) and a.id in ('max_iter', 'min_iter'):
            raise FalsyLimit(f'`{text(t)}` compares the limits only when `{a.id}` is truthy: {a.id}=0 is a legal setting (run no pass) and skips the check, so '
                             f'min_iter=1, max_iter=0 is not rejected')
        return None
    return hit[0]


def _demorgan_quantifiers(e: ast.AST) -> ast.AST:
    """`not any(not P for ...)` is `all(P for ...)`; `not all(not P for ...)` is `any(P for ...)`."""
    import copy as _copy

    class T(ast.NodeTransformer):
        def visit_UnaryOp(self, node):
            self.generic_visit(node)
            if isinstance(node.op, ast.Not) and isinstance(node.operand, ast.Call) and isinstance(node.operand.func, ast.Name) and node.operand.func.id in ('any', 'all') \
                    and len(node.operand.args) == 1 and isinstance(node.operand.args[0], (ast.GeneratorExp, ast.ListComp)):
                g = node.operand.args[0]
                if isinstance(g.elt, ast.UnaryOp) and isinstance(g.elt.op, ast.Not):
                    other = 'all' if node.operand.func.id == 'any' else 'any'
                    return ast.Call(func=ast.Name(id=other, ctx=ast.Load()), args=[type(g)(elt=g.elt.operand, generators=g.generators)], keywords=[])
            return node

    return ast.fix_missing_locations(T().visit(_copy.deepcopy(e)))


def is_check_read(sh, v) -> bool:
    """Is the expression `v` a read of the check variables' current values?  By role: the call of a helper (nested in the
    solver, module-level, or a method) whose body goes over `<model>.check`, or such an expression written out."""
    if v is None:
        return False
    if not isinstance(v, ast.Call):
        return False
    name = dotted(v.func) or ''
    if name == 'get_check_values':
        return True
    cands = []
    fnode = sh.fi.node
    short = name.split('.')[-1]
    for st in fnode.body:
        if isinstance(st, ast.FunctionDef) and st.name == name:
            cands.append(st)
    for st in sh.fi.module.tree.body:
        if isinstance(st, ast.FunctionDef) and st.name == name:
            cands.append(st)
    if name.startswith('self.') and name.count('.') == 1 and getattr(sh.fi, 'cls', None) is not None:
        for st in sh.fi.cls.node.body:
            if isinstance(st, ast.FunctionDef) and st.name == short:
                cands.append(st)
    for d in cands:
        if any(isinstance(x, ast.Attribute) and x.attr == 'check' for x in ast.walk(d)) and any(isinstance(x, ast.Return) and x.value is not None for x in ast.walk(d)):
            return True
    if not cands and name in ('np.array', 'numpy.array', 'np.asarray') and any(isinstance(x, ast.Attribute) and x.attr == 'check' for x in ast.walk(v)):
        return True
    return False

def effects_of(repo: Repo) -> Effects:
    e = _EFFECTS_CACHE.get(id(repo))
    if e is None:
        e = Effects(repo)
        _EFFECTS_CACHE[id(repo)] = e
    return e


def fsic_hierarchy(repo: Repo) -> ExcHierarchy:
    extra: Dict[str, str] = {}
    mod = repo.module('fsic.exceptions')
    for stmt in mod.tree.body:
        if isinstance(stmt, ast.ClassDef) and stmt.bases:
            extra[stmt.name] = text(stmt.bases[0]).split('.')[-1]
    return ExcHierarchy(extra)


def expr(src: str) -> ast.AST:
    return ast.parse(src, mode='eval').body


@dataclass
class SeriesStore:
    node: Node
    owner: str  # 'self', 'submodel', ...
    series: str  # 'status', 'iterations' or '<dyn:name-expr>'
    index: ast.AST
    value: Optional[ast.AST]
    aug: bool


def series_stores(cfg: CFG, lf: Optional[LocalFlow] = None) -> List[SeriesStore]:
    out: List[SeriesStore] = []
    for n in cfg.nodes:
        a = n.ast
        if n.kind != 'stmt' or not isinstance(a, (ast.Assign, ast.AugAssign)):
            continue
        for sub in subscript_store_targets(a):
            base = sub.value
            if lf is not None and isinstance(base, ast.Name) and base.id in lf.locals:
                # `values = self.__dict__['_' + name]; values[t] = ...`: the store goes to what the local names
                vals = lf.values_reaching(n.id, base.id)
                if len(vals) == 1 and vals[0][0] != PARAM and vals[0][1] is not None and isinstance(vals[0][1], (ast.Subscript, ast.Attribute)):
                    base = vals[0][1]
            value = a.value
            aug = isinstance(a, ast.AugAssign)
            # X.status[i] / X.iterations[i] / X.<series>[i]
            if isinstance(base, ast.Attribute) and isinstance(base.value, ast.Name):
                out.append(SeriesStore(n, base.value.id, base.attr, sub.slice, value, aug))
                continue
            # X.__dict__['_' + name][i]
            ds = dict_slot(base)
            if ds is not None:
                owner, key = ds
                nm = is_underscore_key(key)
                if nm is not None:
                    out.append(SeriesStore(n, owner, f'<dyn:{text(nm)}>', sub.slice, value, aug))
                    continue
                out.append(SeriesStore(n, owner, f'<dict:{text(key)}>', sub.slice, value, aug))
                continue
            # X[name][i]  (container item access)
            if isinstance(base, ast.Subscript) and isinstance(base.value, ast.Name):
                out.append(SeriesStore(n, base.value.id, f'<item:{text(base.slice)}>', sub.slice, value, aug))
    return out


class SolverShape:
    """Facts about one `solve_t`-like function."""

    def __init__(self, repo: Repo, qualname: str, eval_call: str = '_evaluate') -> None:
        self.repo = repo
        self.fi: FunctionInfo = repo.func(qualname)
        self.q = qualname
        self.cfg = CFG(self.fi.node, fsic_hierarchy(repo))
        self.lf = LocalFlow(self.cfg, self.fi.params())
        self.dom = dominators(self.cfg)
        self.eff = effect_nodes(self.cfg, effects_of(repo))
        self.eval_call = eval_call
        self._guards: Dict[int, List[Tuple[int, str]]] = {}
        self.stores = series_stores(self.cfg, self.lf)
        # --- the evaluation call and its loop
        ev = self.calls_self(eval_call)
        if len(ev) != 1:
            raise Unsupported(f'{qualname}: expected exactly one call of self.{eval_call}(), found {len(ev)}')
        self.n_eval = ev[0]
        if not self.n_eval.loops:
            raise Unsupported(f'{qualname}: self.{eval_call}() is not inside a loop')
        self.loop = self.cfg.nodes[self.n_eval.loops[-1]]
        if self.loop.kind != 'for' or not isinstance(self.loop.ast.target, ast.Name):
            raise Unsupported(f'{qualname}: pass loop is not a `for <name> in ...` loop')
        self.counter = self.loop.ast.target.id
        self.conv_label = 'T'  # label of the edge of the convergence test taken when the pass has converged

    @property
    def flags(self):
        """Path-sensitive valuation of the function's flag locals (fsa/pathsens.py)."""
        if getattr(self, '_flags', None) is None:
            from fsa.pathsens import Flags
            self._flags = Flags(self.cfg, self.fi.params())
        return self._flags

    @property
    def sym(self):
        """Gated symbolic values of the function's locals (fsa/gated.py)."""
        if getattr(self, '_sym', None) is None:
            from fsa.gated import SymExec
            self._sym = SymExec(self.fi.node)
            self._stmt_of_test = {}
            for s_ in ast.walk(self.fi.node):
                if isinstance(s_, (ast.If, ast.While)):
                    self._stmt_of_test[id(s_.test)] = s_
        return self._sym

    def value_at(self, nid: int, e: ast.AST, keep=()) -> ast.AST:
        """`e` as read at CFG node `nid`, locals replaced by their gated values (names in `keep` left alone)."""
        from fsa.gated import canon
        se = self.sym
        n = self.cfg.nodes[nid]
        st = n.ast
        if n.kind in ('test',):
            st = self._stmt_of_test.get(id(n.ast))
        if st is None or id(st) not in se.before:
            raise Unsupported(f'{self.q}: node L{n.lineno} not visited by the symbolic evaluator')
        env = {k: v for k, v in se.before[id(st)].items() if k not in keep}
        out = canon(se.subst(e, env))
        if keep:
            # values computed earlier from a kept name carry its expansion: fold those back to the name
            dumps = {}
            for k in keep:
                if k in se.before[id(st)]:
                    dumps[ast.dump(canon(se.before[id(st)][k]))] = k

            class Fold(ast.NodeTransformer):
                def generic_visit(self, node):
                    if isinstance(node, ast.expr) and ast.dump(node) in dumps:
                        return ast.Name(id=dumps[ast.dump(node)], ctx=ast.Load())
                    return super().generic_visit(node)

            out = ast.fix_missing_locations(Fold().visit(out))
        return out

    @property
    def mode_flags(self):
        """Flag analysis with the policy parameters split by value: errors in {raise, skip, ignore, replace, <other>},
        failures in {raise, ignore, <other>}."""
        if getattr(self, '_mode_flags', None) is None:
            from fsa.pathsens import Flags, OTHER
            self._mode_flags = Flags(self.cfg, self.fi.params(), domains={'errors': ['raise', 'skip', 'ignore', 'replace', OTHER],
                                                                            'failures': ['raise', 'ignore', OTHER]})
        return self._mode_flags

    def status_member(self, tok) -> Optional[str]:
        """SolutionStatus member named by an abstract value: `SolutionStatus.X.value`, or a string literal equal
        to a member's value."""
        if tok[0] == 'e' and tok[1] == 'SolutionStatus' and tok[3] == 'value':
            return tok[2]
        if tok[0] == 'c' and isinstance(tok[2], str):
            from fsa.consts import fold_enum
            try:
                members = fold_enum(self.repo, 'fsic.core.interfaces', 'SolutionStatus')
            except Exception:
                return None
            hits = [k for k, v in members.items() if v == tok[2]]
            return hits[0] if len(hits) == 1 else None
        return None

    def expand(self, nid: int, e: ast.AST, depth: int = 4, stop=()) -> ast.AST:
        from fsa.match import substitute
        if depth <= 0:
            return e
        mapping = {}
        for x in ast.walk(e):
            if isinstance(x, ast.Name) and isinstance(x.ctx, ast.Load) and x.id in self.lf.locals and x.id not in stop and x.id not in mapping:
                vals = self.lf.values_reaching(nid, x.id)
                if len(vals) == 1 and vals[0][0] != PARAM and vals[0][1] is not None:
                    site, v = vals[0]
                    pure_calls = all(((dotted(y.func) or '').startswith(('np.', 'numpy.')) or dotted(y.func) in ('len', 'abs', 'int', 'float', 'bool', 'min', 'max'))
                                     and dotted(y.func) not in ('np.array', 'np.copy', 'numpy.array')
                                     for y in ast.walk(v) if isinstance(y, ast.Call))
                    if pure_calls and not any(isinstance(y, (ast.Yield, ast.Await, ast.NamedExpr, ast.Lambda, ast.ListComp, ast.DictComp, ast.SetComp, ast.GeneratorExp)) for y in ast.walk(v)):
                        # read through only while the names the definition mentions still mean the same here
                        stable = all(self.lf.defs_reaching(site, y.id) == self.lf.defs_reaching(nid, y.id)
                                     for y in ast.walk(v) if isinstance(y, ast.Name) and isinstance(y.ctx, ast.Load) and y.id in self.lf.locals and y.id != x.id)
                        if stable:
                            inner = self.expand(site, v, depth - 1, stop)
                            if not any(isinstance(y, ast.Name) and y.id == x.id for y in ast.walk(inner)):
                                mapping[x.id] = inner
        return substitute(e, mapping) if mapping else e

    # -- generic finders -----------------------------------------------------
    def guards_of(self, nid: int) -> List[Tuple[int, str]]:
        if nid not in self._guards:
            self._guards[nid] = guards(self.cfg, nid)
        return self._guards[nid]

    def calls_self(self, method: str) -> List[Node]:
        out = []
        for n in self.cfg.nodes:
            for root in node_expr_roots(n):
                if isinstance(root, (ast.FunctionDef, ast.ClassDef)):
                    continue
                for c in ast.walk(root):
                    if is_self_call(c, method):
                        out.append(n)
                        break
                else:
                    continue
                break
        return out

    def call_expr(self, n: Node, method: str) -> ast.Call:
        for root in node_expr_roots(n):
            for c in ast.walk(root):
                if is_self_call(c, method):
                    return c
        raise Unsupported('call vanished')

    def raises(self, cls: Optional[str] = None) -> List[Node]:
        out = []
        for n in self.cfg.nodes:
            if n.kind == 'stmt' and isinstance(n.ast, ast.Raise):
                if cls is None or raised_class(n.ast) == cls:
                    out.append(n)
        return out

    def tests(self) -> List[Node]:
        return [n for n in self.cfg.nodes if n.kind == 'test']

    def in_loop(self, n: Node) -> bool:
        return self.loop.id in n.loops

    def where(self, n: Node) -> str:
        return f'{self.fi.module.relpath}:{n.lineno}'

    def path_to(self, n: Node) -> List[str]:
        p = self.cfg.some_path(self.cfg.entry, n.id)
        return self.cfg.describe_path(p) if p else []

    def on_path_between(self, a: int, b: int) -> Set[int]:
        """Nodes lying on some path a -> b."""
        fwd = self.cfg.reachable_from(a)
        if b not in fwd:
            return set()
        return {x for x in fwd if b in self.cfg.reachable_from(x)}

    # -- classified tests ----------------------------------------------------
    def find_test(self, pred) -> List[Node]:
        return [n for n in self.tests() if pred(n.ast)]

    def minmax_test(self) -> Node:
        want = cmp_of(expr('min_iter > max_iter'))
        c = [n for n in self.tests() if minmax_conjunct(n.ast) is not None]
        if len(c) != 1:
            raise AnchorMissing(f'{self.q}: `min_iter > max_iter` test: found {len(c)}')
        return c[0]

    def min_iter_gate(self) -> Tuple[Node, str]:
        """(test node, label of the edge taken when the pass is below min_iter)."""
        cands = []
        for n in self.tests():
            if not self.in_loop(n):
                continue
            c = cmp_of(n.ast)
            if c is None:
                continue
            atoms = set(c.expr.terms)
            if atoms == {self.counter, 'min_iter'}:
                cands.append((n, c))
        if not cands:
            # the comparison as one conjunct / disjunct of a compound test
            for n in self.tests():
                if not self.in_loop(n) or not isinstance(n.ast, ast.BoolOp):
                    continue
                for v in n.ast.values:
                    c = cmp_of(v)
                    if c is not None and set(c.expr.terms) == {self.counter, 'min_iter'}:
                        cands.append((n, c))
        if len(cands) != 1:
            raise AnchorMissing(f'{self.q}: min_iter gate: found {len(cands)} comparisons of the pass counter with min_iter')
        return cands[0]

    def _pure_helpers(self):
        if getattr(self, '_ph', None) is None:
            from rules.common import pure_helpers
            self._ph = pure_helpers(self.fi)
        return self._ph

    def _inline_pure_calls(self, e: ast.AST, depth: int = 3, methods: bool = False) -> ast.AST:
        from rules.common import Fn
        return Fn._inline_pure_calls(self, e, depth, methods)

    def read_helpers(self, e: ast.AST) -> ast.AST:
        """`e` with calls of one-expression helpers (nested, module-level) read as the expression they return."""
        from rules.common import Fn
        return Fn._inline_pure_calls(self, e)

    def convergence_node(self) -> Tuple[Node, Tuple[str, str, ast.AST, ast.AST, bool]]:
        cands = []
        unknown = []
        reads = {}
        for n in self.tests():
            if not self.in_loop(n):
                continue
            test_ = self.read_helpers(n.ast)
            if 'tol' not in {x.id for x in ast.walk(test_) if isinstance(x, ast.Name)} and any(isinstance(x, ast.Name) and x.id in self.lf.locals for x in ast.walk(test_)):
                # a flag computed just before (a helper read in place): read the locals through, comprehensions included
                import copy as _copy
                from fsa.summ import _subst
                cur_ = test_
                for _ in range(3):
                    mp = {}
                    for x in ast.walk(cur_):
                        if isinstance(x, ast.Name) and isinstance(x.ctx, ast.Load) and x.id in self.lf.locals and x.id not in mp and x.id.endswith(('__test', '__result')):
                            vals = self.lf.values_reaching(n.id, x.id)
                            if len(vals) == 1 and vals[0][0] != PARAM and vals[0][1] is not None:
                                mp[x.id] = vals[0][1]
                    if not mp:
                        break
                    cur_ = self.read_helpers(_subst(cur_, mp))
                test_ = cur_
            if 'tol' not in {x.id for x in ast.walk(test_) if isinstance(x, ast.Name)}:
                continue
            try:
                test_ = _demorgan_quantifiers(test_)
                reads[n.id] = test_
                r = convergence_test(test_)
                lab = 'T'
                if r[0] != 'all':
                    # `if not converged: continue`: the test states the negation; read the predicate it negates
                    try:
                        r2 = convergence_test(ast.UnaryOp(op=ast.Not(), operand=test_))
                        if r2[0] == 'all':
                            r, lab = r2, 'F'
                    except (Wrong, Unknown):
                        pass
                cands.append((n, r, lab))
            except Wrong as e:
                raise Wrong(f'{self.q}:L{n.lineno}: {e}')
            except Unknown as e:
                unknown.append((n, str(e)))
        if len(cands) == 1 and not unknown:
            self.conv_label = cands[0][2]
            self.conv_test_read = reads.get(cands[0][0].id)
            return cands[0][0], cands[0][1]
        if unknown:
            raise Unknown(f'{self.q}: convergence test not in the idiom table at L{unknown[0][0].lineno}: {unknown[0][1]}')
        raise AnchorMissing(f'{self.q}: convergence test: found {len(cands)} candidates')

    def status_defs(self) -> List[Tuple[Node, Optional[str]]]:
        """Definitions of the local `status` with the enum member assigned (or
        None if not an enum reference)."""
        out = []
        for n in self.cfg.nodes:
            a = n.ast
            if n.kind == 'stmt' and isinstance(a, ast.Assign) and len(a.targets) == 1:
                t = a.targets[0]
                if isinstance(t, ast.Name) and t.id == 'status':
                    out.append((n, enum_value_ref(a.value)))
        return out

    def final_store(self, series: str, owner: str = 'self') -> Node:
        """The unique store `owner.series[t] = ...` after the pass loop."""
        c = [s for s in self.stores if s.owner == owner and s.series == series and not self.in_loop(s.node)
             and self.loop.id in self.dom[s.node.id]]
        if len(c) != 1:
            raise AnchorMissing(f'{self.q}: final store {owner}.{series}[t]: found {len(c)}')
        return c[0].node

    def loop_exit_targets(self) -> List[Tuple[int, str]]:
        """(node, label) of the first nodes outside the loop reached by a normal
        loop exit: `break` edges and the `exhausted` edge."""
        out = []
        for n in self.cfg.nodes:
            for (b, lab) in n.succ:
                if lab == 'break' and self.in_loop(n) and not self.in_loop(self.cfg.nodes[b]) and b != self.loop.id:
                    out.append((b, 'break'))
        for (b, lab) in self.loop.succ:
            if lab == 'exhausted':
                out.append((b, 'exhausted'))
        return out


def mode_chain(shape: SolverShape, nid: int, var: str) -> Optional[str]:
    """The string constant `var` is known to equal at node `nid`, from the
    guards (`var == 'lit'` on a T edge), else None."""
    for (tid, lab) in shape.guards_of(nid):
        tn = shape.cfg.nodes[tid]
        if tn.kind != 'test':
            continue
        for atom in conj_atoms(tn.ast):
            se = str_eq_test(atom)
            if se and se[0] == var:
                if (se[2] and lab == 'T'):
                    return se[1]
    return None


def guard_atoms(shape: SolverShape, nid: int) -> List[Tuple[ast.AST, bool, Node]]:
    """Flattened guard conditions of a node: (atom, truth, test node).  A T edge
    of `a and b` yields a, b true; an F edge of `a or b` yields a, b false."""
    out = []
    for (tid, lab) in shape.guards_of(nid):
        tn = shape.cfg.nodes[tid]
        if tn.kind != 'test':
            continue
        if lab in ('T', 'F'):
            from fsa.match import nnf_atoms
            for (a, truth) in nnf_atoms(tn.ast, lab == 'T'):
                out.append((a, truth, tn))
    return out


def is_normalised_position(shape: SolverShape, nid: int, name: str, src: str = 't') -> bool:
    """Does `name` at node `nid` hold `src + len(self.span) if src < 0 else src`?  Decided on the gated value of the
    local, so a copy followed by a conditional `+=`, a conditional expression, or the length taken through another
    local are all the same."""
    if name == src or name not in shape.lf.locals:
        return False
    try:
        v = shape.value_at(nid, ast.Name(id=name, ctx=ast.Load()))
    except Unsupported:
        return False
    if not isinstance(v, ast.IfExp):
        return False
    c = cmp_of(v.test)
    want = Cmp('<', Affine(Fraction(0), {src: Fraction(1)}))
    body, other = v.body, v.orelse
    if c is not None and c.as_int() == want.negate().as_int():
        body, other = other, body
    elif c is None or c.as_int() != want.as_int():
        return False
    try:
        a_t, a_f = affine(body), affine(other)
    except Exception:
        return False
    if a_t is None or a_f is None:
        return False
    len_span = ('len(self.span)', "len(self.__dict__['span'])")
    return a_f == affine(expr(src)) and any(a_t == affine(expr(f'{src} + {ls}')) for ls in len_span)


class FnView:
    """Flow graph, reaching definitions and gated values of any function (what `is_normalised_position` and
    `offset_source_index` need), without the pass-loop anchors of SolverShape."""

    def __init__(self, repo: Repo, qualname: str, cfg: Optional[CFG] = None) -> None:
        self.repo = repo
        self.fi = repo.func(qualname)
        self.q = qualname
        self.cfg = cfg if cfg is not None else CFG(self.fi.node, fsic_hierarchy(repo))
        self.lf = LocalFlow(self.cfg, self.fi.params())

    sym = SolverShape.sym
    value_at = SolverShape.value_at

    def node_of(self, x: ast.AST):
        for n in self.cfg.nodes:
            if n.ast is not None and n.kind in ('stmt', 'test', 'for') and any(y is x for y in ast.walk(n.ast)):
                return n
        return None


def offset_source_index(view, nid: int, idx: ast.AST, src: str = 't') -> bool:
    """Does `idx`, read at node `nid`, address the period `offset` away from the one being solved?  `t + offset`, or
    `P + offset` with P the normalised (non-negative) position of `t`: inside the span - which the two range checks
    in front of the copy establish (C02.R2) - both name the same element."""
    try:
        a = affine(idx)
    except Exception:
        a = None
    if a is not None and a == affine(expr(f'{src} + offset')):
        return True
    all_pos = [k for k in sorted(view.lf.locals) if is_normalised_position(view, nid, k, src)]
    if not all_pos:
        return False
    try:
        e = view.value_at(nid, idx, keep=tuple(all_pos))
        a = affine(e)
    except Exception:
        return False
    return a is not None and any(a == affine(expr(f'{k} + offset')) for k in all_pos)


# ---------------------------------------------------------------------------
# convergence predicate (C02.R5 / C08.R3)
# ---------------------------------------------------------------------------

def _copy_src(v: ast.AST) -> Optional[str]:
    if isinstance(v, ast.Call):
        f = v.func
        if isinstance(f, ast.Attribute) and f.attr == 'copy' and isinstance(f.value, ast.Name) and not v.args:
            return f.value.id
        if dotted(f) in ('copy.deepcopy', 'copy.copy', 'np.array', 'np.copy', 'numpy.array', 'dict', 'list') \
                and len(v.args) >= 1 and isinstance(v.args[0], ast.Name):
            return v.args[0].id
    return None


def saved_src(sh, nid: int, v: ast.AST) -> Optional[str]:
    """The name whose value the assignment `<x> = v` at node `nid` saves: a copy (`y.copy()`, `copy.deepcopy(y)`, ...) - or
    just `y` itself when that is as good as a copy: `y` is afterwards only ever *rebound* (to a fresh read of the check
    values), and neither name is changed in place before that rebinding on any path from here."""
    c = _copy_src(v)
    if c is not None:
        return c
    if not isinstance(v, ast.Name):
        return None
    src = v.id
    node = sh.cfg.nodes[nid]
    a = node.ast
    if not (isinstance(a, ast.Assign) and len(a.targets) == 1 and isinstance(a.targets[0], ast.Name)):
        return None
    alias = a.targets[0].id
    rebinds = [m.id for m in sh.cfg.nodes if m.kind == 'stmt' and isinstance(m.ast, ast.Assign) and len(m.ast.targets) == 1 and isinstance(m.ast.targets[0], ast.Name)
               and m.ast.targets[0].id == src and m.id != nid]
    if not rebinds or not all(is_check_read(sh, sh.cfg.nodes[r].ast.value) for r in rebinds if sh.in_loop(sh.cfg.nodes[r])):
        return None
    reach = sh.cfg.reachable_from(nid, avoid=rebinds)
    for m in sh.cfg.nodes:
        if m.id not in reach or m.ast is None or m.id == nid:
            continue
        for x in ast.walk(m.ast):
            if isinstance(x, (ast.Subscript, ast.Attribute)) and isinstance(x.ctx, (ast.Store, ast.Del)) and isinstance(x.value, ast.Name) and x.value.id in (src, alias):
                return None
            if isinstance(x, ast.AugAssign) and isinstance(x.target, ast.Name) and x.target.id in (src, alias):
                return None
            if isinstance(x, ast.Call) and isinstance(x.func, ast.Attribute) and isinstance(x.func.value, ast.Name) and x.func.value.id in (src, alias) \
                    and x.func.attr in ('update', 'clear', 'pop', 'fill', 'sort', 'put', 'setdefault', 'append', 'extend', 'itemset', 'resize'):
                return None
    return src


def _base_name(x: ast.AST) -> Optional[str]:
    if isinstance(x, ast.Name):
        return x.id
    if isinstance(x, ast.Subscript) and isinstance(x.value, ast.Name):
        return x.value.id
    return None


def is_call_name(x: ast.AST, name: str) -> bool:
    return isinstance(x, ast.Call) and isinstance(x.func, ast.Name) and x.func.id == name


def names_bound_of(n) -> List[str]:
    from fsa.flow import names_bound
    return names_bound(n)


def comp_element(elt: ast.AST, generators) -> ast.AST:
    """The element expression of a comprehension with loop targets that merely name an element of the iterated
    container replaced by a subscript of that container: `v - p[k] for k, v in c.items()` reads `c[k] - p[k]`;
    `a - b for a, b in zip(x, y)` reads `x[_] - y[_]`."""
    from fsa.match import substitute
    mapping = {}
    for g in generators:
        it, tg = g.iter, g.target
        if isinstance(it, ast.Call) and isinstance(it.func, ast.Attribute) and not it.args and isinstance(it.func.value, ast.Name):
            base = it.func.value
            if it.func.attr == 'items' and isinstance(tg, ast.Tuple) and len(tg.elts) == 2 and all(isinstance(e, ast.Name) for e in tg.elts):
                mapping[tg.elts[1].id] = ast.Subscript(value=ast.Name(id=base.id, ctx=ast.Load()), slice=ast.Name(id=tg.elts[0].id, ctx=ast.Load()), ctx=ast.Load())
            elif it.func.attr == 'values' and isinstance(tg, ast.Name):
                mapping[tg.id] = ast.Subscript(value=ast.Name(id=base.id, ctx=ast.Load()), slice=ast.Name(id='_', ctx=ast.Load()), ctx=ast.Load())
        elif isinstance(it, ast.Call) and dotted(it.func) == 'zip' and isinstance(tg, ast.Tuple) and len(tg.elts) == len(it.args):
            for e, a in zip(tg.elts, it.args):
                if isinstance(a, ast.Call) and isinstance(a.func, ast.Attribute) and a.func.attr == 'values' and not a.args:
                    a = a.func.value
                if isinstance(e, ast.Name) and isinstance(a, ast.Name):
                    mapping[e.id] = ast.Subscript(value=ast.Name(id=a.id, ctx=ast.Load()), slice=ast.Name(id='_', ctx=ast.Load()), ctx=ast.Load())
    return substitute(elt, mapping) if mapping else elt


def _cached_kind(v: ast.AST) -> str:
    """What a local filled before the pass loop holds: 'arrays' (results of series lookups - `obj[name]`,
    `obj.__dict__['_' + name]`, getattr(obj, name)), 'objects' (the models themselves: values of the submodel mapping), or
    'unknown'."""
    elts = []
    gens = []
    if isinstance(v, ast.DictComp):
        elts, gens = [v.value], v.generators
    elif isinstance(v, (ast.ListComp, ast.GeneratorExp, ast.SetComp)):
        elts, gens = [v.elt], v.generators
    elif isinstance(v, ast.Dict):
        elts = list(v.values)
    elif isinstance(v, (ast.List, ast.Tuple)):
        elts = list(v.elts)
    else:
        elts = [v]
    name_vars = set()
    obj_vars = set()
    for g in gens:
        it = g.iter
        if isinstance(it, ast.Attribute) and it.attr in ('check', 'names', 'endogenous', 'CHECK', 'NAMES', 'ENDOGENOUS'):
            name_vars |= {x.id for x in ast.walk(g.target) if isinstance(x, ast.Name)}
        if isinstance(it, ast.Call) and isinstance(it.func, ast.Attribute) and it.func.attr in ('items', 'values') and text(it.func.value) in ("self.__dict__['submodels']", 'self.submodels'):
            tg = g.target
            if it.func.attr == 'items' and isinstance(tg, ast.Tuple) and len(tg.elts) == 2 and isinstance(tg.elts[1], ast.Name):
                obj_vars.add(tg.elts[1].id)
            elif it.func.attr == 'values' and isinstance(tg, ast.Name):
                obj_vars.add(tg.id)
    kinds = set()
    for e in elts:
        lookups = [x for x in ast.walk(e) if (isinstance(x, ast.Subscript) and (dict_slot(x) is not None and is_underscore_key(dict_slot(x)[1]) is not None
                                                                                or any(isinstance(y, ast.Name) and y.id in name_vars for y in ast.walk(x.slice))))
                   or (isinstance(x, ast.Call) and dotted(x.func) == 'getattr')]
        if lookups:
            kinds.add('arrays')
        elif (isinstance(e, ast.Name) and e.id in obj_vars) or (isinstance(e, ast.Subscript) and text(e.value) in ("self.__dict__['submodels']", 'self.submodels')):
            kinds.add('objects')
        else:
            kinds.add('unknown')
    if 'arrays' in kinds:
        return 'arrays'
    return 'objects' if kinds == {'objects'} else 'unknown'


def check_convergence(R, sh: SolverShape) -> None:
    from fsa.match import abs_arg

    try:
        conv, ct_ = sh.convergence_node()
        (quant, op, operand, tol, has_abs) = ct_
    except Wrong as e:
        R.violation(sh.q, 'convergence:wrong-shape', str(e), where=sh.fi.where, mismatch=True)
        return
    key = 'convergence'
    if getattr(ct_, 'nan_permissive', False):
        # the predicate is written through a negation: fine for numbers, but a NaN movement passes it - unless NaNs
        # cannot reach the test (both the current and the previous values are tested for non-finite values first)
        guarded = False
        try:
            nf = NFView(sh)
            guarded = all(any(t.id in sh.dom[conv.id] for t in nf.tests(w)) for w in ('NF__cur', 'NF__prev'))
        except (AnchorMissing, Unsupported, Unknown):
            guarded = False
        R.check(guarded, sh.q, key + ':nan-counts-as-settled', 'a movement that is NaN never counts as converged',
                f'`{text(conv.ast)[:70]}` states the convergence test through a negation (no value moved by tol or more): NaN compares False with `>=`/`>` as well as with `<`, '
                f'so a check variable whose movement is NaN counts as settled and the period is declared solved; expected all(|movement| < tol), which is False for NaN',
                where=sh.where(conv), decided=True)
    # the check values are re-read on every pass (otherwise the saved copy goes stale)
    try:
        cur_name, _prev = value_roles(sh)
        rereads = [n for n in sh.cfg.nodes if n.kind == 'stmt' and isinstance(n.ast, ast.Assign) and len(n.ast.targets) == 1
                   and text(n.ast.targets[0]) == cur_name and sh.in_loop(n) and sh.n_eval.id in sh.dom[n.id]]
        ok = bool(rereads) and all(must_pass(sh.cfg, b, sh.loop.id, [r.id for r in rereads], skip_labels=('exc', 'raise'))
                                   for (b, lab) in sh.n_eval.succ if lab not in ('exc', 'raise'))
        R.check(ok, sh.q, key + ':reread-every-pass', 'the check values are re-read after every evaluation pass',
                f'some pass can return to the loop header without re-reading `{cur_name}` after the evaluation call: the copy saved at the next '
                f'loop head is stale, so a later comparison spans several passes', where=sh.where(sh.n_eval))
    except AnchorMissing:
        pass
    # the reader resolves each series through the object at the time of reading: arrays looked up once and kept in a
    # local go stale when a series is rebound (assigning a list to a variable installs a new array)
    for sub in ast.walk(sh.fi.node):
        if isinstance(sub, ast.FunctionDef) and sub is not sh.fi.node and any(is_call_name(x, sub.name) for n_ in sh.cfg.nodes if sh.in_loop(n_) and n_.ast is not None
                                                                                  for x in ast.walk(n_.ast)):
            own = {x.id for x in ast.walk(sub) if isinstance(x, ast.Name) and isinstance(x.ctx, ast.Store)} | {a.arg for a in sub.args.args}
            for x in ast.walk(sub):
                if isinstance(x, ast.Name) and isinstance(x.ctx, ast.Load) and x.id not in own and x.id in sh.lf.locals and x.id not in sh.fi.params():
                    defs_ = [n_ for n_ in sh.cfg.nodes if n_.kind == 'stmt' and isinstance(n_.ast, (ast.Assign, ast.AnnAssign)) and x.id in names_bound_of(n_)]
                    cached = [n_ for n_ in defs_ if not sh.in_loop(n_) and any(isinstance(y, ast.Subscript) or isinstance(y, (ast.ListComp, ast.DictComp)) for y in ast.walk(n_.ast.value))
                              and 'self' in {z.id for z in ast.walk(n_.ast.value) if isinstance(z, ast.Name)}]
                    kinds = {_cached_kind(n_.ast.value) for n_ in cached}
                    if cached and kinds == {'objects'}:
                        R.ok(sh.q, f'`{x.id}` keeps hold of model objects, not of their arrays: `{sub.name}()` still looks each series up by name on every call')
                    elif cached and 'arrays' not in kinds:
                        raise Unknown(f'{sh.q}: `{sub.name}()` reads through `{x.id}` (`{cached[0].label()[:60]}`), filled before the pass loop; whether it holds '
                                      f'arrays (stale after a rebinding) or objects is not read')
                    elif cached:
                        R.violation(sh.q, key + f':cached-arrays:{x.id}', f'`{sub.name}()` reads the check values through `{x.id}`, a local filled once before the pass loop '
                                    f'(`{cached[0].label()[:70]}`): the arrays are not looked up again, so a series rebound during the solve (e.g. `self.Y = [...]` in a hook) is '
                                    f'never seen and the test compares stale values', where=sh.where(cached[0]))
    R.check(quant == 'all', sh.q, key + ':quant', 'convergence requires every check variable (universal)',
            f'convergence test is existential: `{text(conv.ast)}`', where=sh.where(conv))
    R.check(op == '<', sh.q, key + ':strict', 'movement is compared strictly (< tol)',
            f'convergence comparison is `|diff| {op} tol`, expected strict `<`: `{text(conv.ast)}`', where=sh.where(conv))
    R.check(isinstance(tol, ast.Name) and tol.id == 'tol', sh.q, key + ':tol', 'threshold is the tol argument',
            f'threshold is `{text(tol)}`, not `tol`', where=sh.where(conv))
    # resolve the operand down to a difference expression
    site = conv.id
    cur_expr = operand
    steps = 0
    while steps < 6:
        steps += 1
        if isinstance(cur_expr, ast.Call) and isinstance(cur_expr.func, ast.Attribute) \
                and cur_expr.func.attr == 'values' and not cur_expr.args:
            cur_expr = cur_expr.func.value  # d.values()
            continue
        a = abs_arg(cur_expr)
        if a is not None:
            has_abs = True
            cur_expr = a
            continue
        if isinstance(cur_expr, ast.Name):
            vals = sh.lf.values_reaching(site, cur_expr.id)
            if len(vals) != 1 or vals[0][1] is None:
                raise Unsupported(f'{sh.q}: `{cur_expr.id}` has {len(vals)} reaching definitions at the convergence test')
            site, cur_expr = vals[0]
            continue
        if isinstance(cur_expr, ast.DictComp):
            cur_expr = comp_element(cur_expr.value, cur_expr.generators)
            continue
        if isinstance(cur_expr, (ast.ListComp, ast.GeneratorExp)):
            cur_expr = comp_element(cur_expr.elt, cur_expr.generators)
            continue
        break
    squared = False
    if isinstance(cur_expr, ast.BinOp) and isinstance(cur_expr.op, ast.Pow) and is_const(cur_expr.right, 2):
        squared = True
    if isinstance(cur_expr, ast.BinOp) and isinstance(cur_expr.op, ast.Mult) and text(cur_expr.left) == text(cur_expr.right):
        squared = True
    if squared:
        R.violation(sh.q, key + ':squared',
                    f'tolerance is applied to the *squared* movement `{text(cur_expr)}`, not to its absolute value '
                    f'(the single-model solver compares |diff| < tol)', where=sh.where(conv))
        return
    if not (isinstance(cur_expr, ast.BinOp) and isinstance(cur_expr.op, ast.Sub)):
        raise Unknown(f'{sh.q}: compared quantity `{text(cur_expr)}` is not a difference')
    if not has_abs:
        R.violation(sh.q, key + ':no-abs',
                    f'signed difference `{text(cur_expr)}` is compared with tol: no absolute value', where=sh.where(conv))
        return
    R.ok(sh.q, 'movement is measured in absolute value', detail=text(conv.ast))
    a, b = _base_name(cur_expr.left), _base_name(cur_expr.right)
    if a is None or b is None:
        raise Unknown(f'{sh.q}: difference `{text(cur_expr)}` is not `<name> - <name>`')
    if a == b:
        R.violation(sh.q, key + ':diff-self', f'difference is `{text(cur_expr)}`: compares a value with itself',
                    where=sh.where(conv))
        return

    def classify(name: str) -> str:
        roles = set()
        for (s, v) in sh.lf.values_reaching(site, name):
            if v is None:
                roles.add('other')
                continue
            node = sh.cfg.nodes[s]
            if is_check_read(sh, v):
                if sh.in_loop(node):
                    roles.add('current' if sh.n_eval.id in sh.dom[s] else 'stale')
                else:
                    roles.add('initial')
            elif saved_src(sh, s, v) is not None:
                roles.add(f'copy:{saved_src(sh, s, v)}')
            else:
                roles.add('other')
        return ','.join(sorted(roles))

    ra, rb = classify(a), classify(b)
    cur, prev = None, None
    for nm, r in ((a, ra), (b, rb)):
        if r == 'current':
            cur = nm
        elif r.startswith('copy:') and ',' not in r:
            prev = (nm, r.split(':', 1)[1])
    ok = cur is not None and prev is not None and prev[1] == cur
    if ok:
        sites = [s for (s, v) in sh.lf.values_reaching(site, prev[0])]
        ok = all(sh.in_loop(sh.cfg.nodes[s]) and s in sh.dom[sh.n_eval.id] for s in sites)
    R.check(ok, sh.q, key + ':operands',
            'difference = values re-read after this pass minus the copy saved before it',
            f'difference `{text(cur_expr)}`: operand roles are {a}:{ra or "?"}, {b}:{rb or "?"} '
            f'(expected one re-read after the evaluation call and one copy of it saved before the call)',
            where=sh.where(conv))


def value_roles(sh: SolverShape) -> Tuple[str, str]:
    """(current, previous): `current` is the name re-read from the check
    values inside the loop after the evaluation call; `previous` the name that
    receives a copy of it inside the loop before the evaluation call."""
    cur = prev = None
    for n in sh.cfg.nodes:
        a = n.ast
        if n.kind != 'stmt' or not isinstance(a, ast.Assign) or len(a.targets) != 1 or not isinstance(a.targets[0], ast.Name):
            continue
        if not sh.in_loop(n) or n.loops[-1] != sh.loop.id:
            continue
        v = a.value
        if is_check_read(sh, v) and sh.n_eval.id in sh.dom[n.id]:
            cur = a.targets[0].id
    if cur is None:
        raise AnchorMissing(f'{sh.q}: no re-read of the check values after the evaluation call')
    for n in sh.cfg.nodes:
        a = n.ast
        if n.kind != 'stmt' or not isinstance(a, ast.Assign) or len(a.targets) != 1 or not isinstance(a.targets[0], ast.Name):
            continue
        if not sh.in_loop(n):
            continue
        if saved_src(sh, n.id, a.value) == cur and n.id in sh.dom[sh.n_eval.id]:
            prev = a.targets[0].id
    if prev is None:
        raise AnchorMissing(f'{sh.q}: no copy of `{cur}` saved before the evaluation call')
    return cur, prev


class NFView:
    """What the pass loop knows about non-finite values: every way of writing `some value of X is not finite`
    (`np.any(~np.isfinite(X))`, `not np.all(np.isfinite(X))`, a local flag holding either, a conjunct of a compound
    test) is read as the atom `NF__cur` / `NF__prev`, and facts are derived by entailment (fsa.match.entails)."""

    def __init__(self, sh: SolverShape) -> None:
        self.sh = sh
        self.cur, self.prev = value_roles(sh)
        self.role = {self.cur: 'NF__cur', self.prev: 'NF__prev'}

    def norm(self, nid: int, e: ast.AST) -> ast.AST:
        import copy as _copy
        sh, role = self.sh, self.role
        x = sh.expand(nid, e, stop=(self.cur, self.prev))

        class T(ast.NodeTransformer):
            def visit(self, node):
                if isinstance(node, ast.expr):
                    r = nonfinite_test(node)
                    if r in role:
                        return ast.Name(id=role[r], ctx=ast.Load())
                    r2 = nonfinite_test(ast.UnaryOp(op=ast.Not(), operand=node)) if not (isinstance(node, ast.UnaryOp) and isinstance(node.op, ast.Not)) else None
                    if r2 in role:
                        return ast.UnaryOp(op=ast.Not(), operand=ast.Name(id=role[r2], ctx=ast.Load()))
                return super().visit(node)

        return ast.fix_missing_locations(T().visit(_copy.deepcopy(x)))

    def mentions(self, n: Node, which: str) -> bool:
        return n.ast is not None and any(isinstance(x, ast.Name) and x.id == which for x in ast.walk(self.norm(n.id, n.ast if n.kind == 'test' else getattr(n.ast, 'value', n.ast) or n.ast)))

    def tests(self, which: str) -> List[Node]:
        return [n for n in self.sh.tests() if self.sh.in_loop(n) and self.mentions(n, which)]

    def implied_by_true_edge(self, n: Node, which: str) -> bool:
        """Is `which` known true on the T edge of test `n`?"""
        from fsa.match import nnf_atoms
        return any(isinstance(a, ast.Name) and a.id == which and tr for (a, tr) in nnf_atoms(self.norm(n.id, n.ast), True))

    def facts(self, nid: int):
        from fsa.match import nnf_atoms
        out = []
        for (tid, lab) in self.sh.guards_of(nid):
            tn = self.sh.cfg.nodes[tid]
            if tn.kind == 'test' and lab in ('T', 'F'):
                for (a, tr) in nnf_atoms(self.norm(tn.id, tn.ast), lab == 'T'):
                    out.append((a, tr, tn))
        return out

    def known(self, nid: int, which: str, truth: bool) -> bool:
        from fsa.match import entails
        return entails(self.facts(nid), ast.Name(id=which, ctx=ast.Load()), truth)


def position_cmp(shape: SolverShape, nid: int, atom: ast.AST, src: str = 't'):
    """Canonical integer comparison of `atom` with locals read through and the local holding the normalised
    position replaced by the atom `P`; None if the atom is not a comparison mentioning that position."""
    all_pos = [k for k in sorted(shape.lf.locals) if is_normalised_position(shape, nid, k, src)]
    if not all_pos:
        return None
    try:
        e = shape.value_at(nid, atom, keep=tuple(all_pos))
    except Unsupported:
        e = atom
    pos_names = [k for k in all_pos if any(isinstance(x, ast.Name) and x.id == k for x in ast.walk(e))]
    if not pos_names:
        return None
    c = cmp_of(e)
    if c is None:
        return None
    subst = {pos_names[0]: Affine(Fraction(0), {'P': Fraction(1)})}
    cc = cmp_of(e, subst)
    return cc.as_int() if cc is not None else None
