"""C17 - tracing never changes a solution and records it faithfully.

R1 transparent wrappers, R2 off means off, R3 confinement of the tracer's
effects, R4 label order.
"""

from __future__ import annotations

import ast
from typing import Dict, List, Optional

from fsa.effects import direct_writes, local_aliases_of
from fsa.match import dotted, is_call, is_const, is_self_call, is_super_call, kwarg, method_call, has_star_args, has_star_kwargs
from fsa.source import Unsupported, iter_own_nodes, stmt_key, text
from rules.common import Fn

T = 'fsic.extensions.model.TracerMixin'
WRAPPERS = {
    'solve_t': {'iteration': False, 'returns': True},
    'solve_t_before': {'iteration': True, 'returns': False},
    'solve_t_after': {'iteration': True, 'returns': False},
    '_evaluate': {'iteration': True, 'returns': False},
}


def r1_transparent(R) -> None:
    for m, spec in WRAPPERS.items():
        q = f'{T}.{m}'
        f = Fn(R, q)
        calls = f.nodes_with(lambda x, m=m: is_super_call(x, m))
        if spec['returns'] and not any(r_.ast.value is not None for r_ in f.returns()):
            R.violation(q, 'wrapper-returns-nothing', f'`{m}` has no `return <value>`: whatever the base method returns (the solved flag) is dropped and every caller '
                        f'(solve(), solve_period()) receives None', where=f.fi.where, mismatch=True)
            continue
        # a candidate: any call that mentions super() (the base method reached through a helper, getattr, a bound local)
        if not R.require(q, len(calls), f'super().{m}(...)', fi=f.fi,
                         pred=lambda x, m=m: isinstance(x, ast.Call) and any(isinstance(y, ast.Call) and isinstance(y.func, ast.Name) and y.func.id == 'super' for y in ast.walk(x))):
            continue
        # exactly one base call on every path: the call sites are alternatives (none can follow another) and together they
        # cut every path from entry to exit
        ids = [n_.id for n_ in calls]
        twice = [(a_, b_) for a_ in calls for b_ in calls if a_ is not b_ and b_.id in f.cfg.reachable_from(a_.id, avoid=[]) and b_.id != a_.id and f.cfg.reaches(a_.id, b_.id)]
        R.check(not twice, q, 'one-super-call', 'the base method is called once on any path',
                f'{len(calls)} calls of super().{m}(), and one can follow another on the same path', where=f.where(calls[0]), decided=True)
        ok = f.cfg.exit not in f.cfg.reachable_from(f.cfg.entry, avoid=ids)
        R.check(ok, q, 'super-on-every-path', 'every path through the wrapper calls the base method', f'some path returns without calling super().{m}()',
                where=f.where(calls[0]), decided=True)
        for n in calls:
            c = [x for x in ast.walk(n.ast) if is_super_call(x, m)][0]
            R.count_calls()
            R.check(not n.loops, q, 'super-not-in-loop', 'exactly once', 'the base call is inside a loop', where=f.where(n))
            R.check(not n.trys and not any(isinstance(x, ast.Try) for x in ast.walk(f.fi.node)), q, 'no-try', 'exceptions of the base method propagate unchanged',
                    f'super().{m}() is wrapped in a try block', where=f.where(n))
            # identity forwarding
            ok_t = c.args and text(c.args[0]) == 't' and has_star_args(c, 'args')
            R.check(ok_t, q, 'forward-positional', 't and *args forwarded', f'`{text(c)[:70]}` does not pass t, *args', where=f.where(n))
            for o in ['trace', 'reset'] + (['iteration'] if spec['iteration'] else []):
                v = kwarg(c, o)
                R.check(isinstance(v, ast.Name) and v.id == o, q, f'forward:{o}', f'{o} forwarded unchanged',
                        f'`{o}` is {"not forwarded" if v is None else "forwarded as " + text(v)} to super().{m}()', where=f.where(n))
            R.check(has_star_kwargs(c, 'kwargs'), q, 'forward-kwargs', '**kwargs forwarded', '**kwargs not forwarded', where=f.where(n))
            extra = {k.arg for k in c.keywords if k.arg} - {'trace', 'reset', 'iteration'}
            R.check(not extra, q, f'forward-extra:{sorted(extra)}', 'no additional keyword injected', f'extra keywords {sorted(extra)} injected into the base call', where=f.where(n))
        if spec['returns']:
            # every return hands back the result of the base call made on its path
            rets = f.returns()
            all_ok = bool(rets)
            for r_ in rets:
                v_ = r_.ast.value
                ok = any(v_ is [x for x in ast.walk(n.ast) if is_super_call(x, m)][0] for n in calls)
                if not ok and isinstance(v_, ast.Name):
                    # `x = super().m(...); return x`: every definition reaching the return is a base call
                    vals = f.lf.values_reaching(r_.id, v_.id)
                    ok = bool(vals) and all(dv is not None and is_super_call(dv, m) for (_s, dv) in vals) and v_.id not in f.mutated_in_place()
                all_ok = all_ok and ok
            R.check(all_ok, q, 'returns-base', 'the base result is returned as is', f'solve_t does not `return super().{m}(...)`', where=f.fi.where)
        else:
            rets = [r for r in f.returns() if r.ast.value is not None]
            R.check(not rets, q, 'returns-none', 'hook wrappers return nothing', 'a hook wrapper returns a value', where=f.fi.where)
        # the wrapper itself writes nothing but through trace_t
        ws = direct_writes(f.fi.node, {'self'})
        R.check(not ws, q, 'wrapper-no-writes', 'the wrapper writes nothing itself', f'the wrapper writes `{ws[0][1] if ws else ""}`', where=f.fi.where)
        others = [x for x in ast.walk(f.fi.node) if is_self_call(x) and x.func.attr not in ('trace_t',)]
        R.check(not others, q, 'wrapper-only-trace_t', 'the only method the wrapper calls on self is trace_t',
                f'the wrapper also calls `{text(others[0].func) if others else ""}()`', where=f.fi.where)


def r2_off_means_off(R) -> None:
    n_calls = 0
    for m in WRAPPERS:
        q = f'{T}.{m}'
        f = Fn(R, q)
        for n in f.nodes_with(lambda x: is_self_call(x, 'trace_t')):
            n_calls += 1
            R.check(f.xholds(n.id, 'trace'), q, f'trace-guard:{stmt_key(n.ast)[:40]}', 'tracing happens only when `trace` is truthy',
                    f'`{n.label()[:50]}` is not guarded by `if trace:` (a trace would be written with tracing off)', where=f.where(n))
    R.expect(T, n_calls, 5, 'trace_t call sites in the wrappers')


def r3_confinement(R) -> None:
    # trace_t: writes only the trace series element
    q = f'{T}.trace_t'
    f = Fn(R, q)
    stores = []
    for n in f.cfg.nodes:
        a = n.ast
        if n.kind == 'stmt' and isinstance(a, (ast.Assign, ast.AugAssign)):
            tg = a.targets if isinstance(a, ast.Assign) else [a.target]
            for t in tg:
                for x in ast.walk(t):
                    if isinstance(x, (ast.Subscript, ast.Attribute)) and isinstance(x.ctx, ast.Store):
                        stores.append((n, x))
    for (n, x) in stores:
        ok = isinstance(x, ast.Subscript) and f.etext(n.id, x.value) == 'self[self.TRACE_NAME]' and f.etext(n.id, x.slice) == 't'
        R.check(ok, q, f'trace-store:{text(x)[:40]}', 'the only store is the trace element of period t',
                f'`{n.label()[:60]}` writes something other than self[self.TRACE_NAME][t]', where=f.where(n))
    calls = [x for x in ast.walk(f.fi.node) if isinstance(x, ast.Call) and isinstance(x.func, ast.Attribute) and x.func.attr in
             ('append', 'add_variable', 'add_attribute', '__setattr__', '__setitem__', 'replace_values', 'extend', 'update')]
    for c in calls:
        cn_ = [n for n in f.cfg.nodes if n.ast is not None and n.kind in ('stmt', 'test') and any(y is c for y in ast.walk(n.ast))]
        recv = f.etext(cn_[0].id, c.func.value) if cn_ else text(c.func.value)
        if c.func.attr == 'append' and isinstance(c.func.value, ast.Name) and c.func.value.id in f.lf.locals and recv != 'self[self.TRACE_NAME][t]' and cn_:
            # a local list being filled (the names, the values) is not the model
            vals_ = f.lf.values_reaching(cn_[0].id, c.func.value.id)
            if vals_ and all(dv is not None and (isinstance(dv, (ast.List, ast.ListComp)) or is_call(dv, 'list')) for (_s, dv) in vals_):
                continue
        ok = c.func.attr == 'append' and recv == 'self[self.TRACE_NAME][t]'
        R.check(ok, q, f'trace-mutator:{text(c.func)[:40]}', 'the only mutation is Trace.append on the period\'s trace',
                f'`{text(c)[:60]}` mutates something other than the trace of period t', where=f'{f.fi.module.relpath}:{c.lineno}')
    # model values are read into a fresh array
    # (what is appended: the second argument of the Trace.append call, read through locals and one-expression helpers)
    app = [c for c in calls if c.func.attr == 'append' and len(c.args) == 2]
    snap = None
    if app:
        an_ = [n for n in f.cfg.nodes if n.ast is not None and n.kind == 'stmt' and any(y is app[-1] for y in ast.walk(n.ast))]
        if an_:
            snap = f._inline_pure_calls(f.expand(an_[0].id, app[-1].args[1], comps=True), methods=True)
            res = an_
    if snap is None:
        res = f.assigns_to('results')
        snap = res[0].ast.value if len(res) == 1 else None
    ok = snap is not None and is_call(snap, 'np.array')
    R.check(ok, q, 'snapshot-fresh', 'the snapshot is a new array of the values at t', f'what is appended to the trace (`{text(snap)[:50] if snap is not None else "?"}`) is not a fresh np.array(...)', where=f.fi.where)
    if ok:
        from fsa.gated import canon as _canon
        lc = _canon(f.expand(res[0].id, snap.args[0], comps=True), fuse=True)
        gv = text(lc.generators[0].target) if isinstance(lc, ast.ListComp) else '?'
        # which names are traced is C17.R5's business: here, that each value is the traced variable's element at t
        ok2 = isinstance(lc, ast.ListComp) and len(lc.generators) == 1 and not lc.generators[0].ifs and f'self[{gv}][t]' in text(lc.elt)
        R.check(ok2, q, 'snapshot-values:' + text(lc)[:50], 'the snapshot holds the traced variables at t, in order', f'`{text(lc)[:60]}`', where=f.where(res[0]))
    # the names a new Trace keeps are its own list: not the model's `names` / the class-level TRACE_VARIABLES / the
    # caller's argument (the Trace would change when those do, and the other way round)
    from fsa.gated import canon as _canon2, leaves as _leaves2, lift_ifs as _lift2
    se_t = f.symexec(methods=True)
    for n in f.cfg.nodes:
        if n.ast is None or n.kind != 'stmt':
            continue
        for c in ast.walk(n.ast):
            if is_call(c, 'Trace') and c.args:
                try:
                    lv = _leaves2(_canon2(_lift2(_canon2(se_t.value(n.ast, c.args[0])))))
                except Exception:
                    lv = []
                for (_fc, leaf) in lv:
                    fresh = isinstance(leaf, (ast.List, ast.ListComp)) or is_call(leaf, 'list', 'sorted', 'copy.copy', 'copy.deepcopy') or (isinstance(leaf, ast.Call) and isinstance(leaf.func, ast.Attribute) and leaf.func.attr == 'copy')
                    shared = text(leaf) in ('self.names', 'self.TRACE_VARIABLES', "self.__dict__['names']") or (isinstance(leaf, ast.Name) and leaf.id in f.fi.params())
                    if shared:
                        R.violation(q, 'trace-names-shared:' + text(leaf)[:30],
                                    f'`{text(c)[:40]}` can be given `{text(leaf)}` itself, not a copy: the Trace of the period keeps the very list the model (or the caller) owns, so a later '
                                    f'change to one shows in the other (a variable added to the model appears in traces recorded before it)', where=f.where(n))
                    elif fresh:
                        R.check(True, q, 'trace-names-own:' + text(leaf)[:30], 'a new Trace keeps its own list of names', '', where=f.where(n))
    # Trace methods write only their own attributes
    for m in ('__init__', 'append'):
        tq = f'fsic.extensions.model.Trace.{m}'
        fi = R.repo.func(tq)
        R.saw_function(fi)
        bad = []
        for n in iter_own_nodes(fi.node):
            tg = []
            if isinstance(n, ast.Assign):
                tg = n.targets
            elif isinstance(n, (ast.AugAssign, ast.AnnAssign)):
                tg = [n.target]
            for t in tg:
                for x in ast.walk(t):
                    if isinstance(x, (ast.Attribute, ast.Subscript)) and isinstance(x.ctx, ast.Store):
                        if not (isinstance(x, ast.Attribute) and isinstance(x.value, ast.Name) and x.value.id == 'self'):
                            bad.append(n)
        R.check(not bad, tq, 'trace-object-confined', 'Trace writes only its own attributes', f'`{text(bad[0])[:50] if bad else ""}`', where=fi.where)
    # trace_period: resolves the label and delegates
    pq = f'{T}.trace_period'
    pf = Fn(R, pq)
    calls = [x for x in ast.walk(pf.fi.node) if is_self_call(x, 'trace_t')]
    # the position, by role: the local that holds `self._locate_period_in_span(period)` (or that call itself)
    pos_names = {'t'} | {n_.ast.targets[0].id for n_ in pf.cfg.nodes if n_.kind == 'stmt' and isinstance(n_.ast, ast.Assign) and len(n_.ast.targets) == 1
                         and isinstance(n_.ast.targets[0], ast.Name) and is_self_call(n_.ast.value, '_locate_period_in_span')}
    ok = len(calls) == 1 and len(calls[0].args) >= 2 and (text(calls[0].args[0]) in pos_names or is_self_call(calls[0].args[0], '_locate_period_in_span')) \
        and text(calls[0].args[1]) == 'label'
    R.check(ok, pq, 'trace_period-delegates', 'trace_period delegates to trace_t at the located position', 'trace_period does not call self.trace_t(t, label, ...)', where=pf.fi.where)


def r5_trace_names(R) -> None:
    """Which variables `trace=` names: a single name (str) means that one variable, a sequence means its elements.
    A str is itself a Sequence, so wherever the argument is used *as the sequence of names* it must be known not to be a
    str.  Read on the gated value of what the snapshot iterates over (helper methods read through)."""
    from fsa.gated import canon, leaves
    q = f'{T}.trace_t'
    f = Fn(R, q)
    se = f.symexec(methods=True)
    comps = []
    for n in f.cfg.nodes:
        if n.kind == 'stmt' and n.ast is not None:
            root = n.ast
            val_ = getattr(n.ast, 'value', None)
            if isinstance(val_, ast.AST):
                # one-expression helper methods (`self._values(t, names)`) are read as the expression they return
                inl = f._inline_pure_calls(val_, methods=True)
                if inl is not val_:
                    root = inl
            for x in ast.walk(root):
                if isinstance(x, (ast.ListComp, ast.GeneratorExp)):
                    # a comprehension over a local generator of the arrays reads as the comprehension over the names
                    xf = canon(f.expand(n.id, x, comps=True), fuse=True)
                    if isinstance(xf, (ast.ListComp, ast.GeneratorExp)) and any(isinstance(y, ast.Subscript) and text(y.value).startswith('self[') for y in ast.walk(xf.elt)):
                        comps.append((n, xf))
    if not comps:
        raise Unsupported(f'{q}: the snapshot comprehension over the traced names was not found')
    n, lc = comps[0]
    v = canon(se.value(n.ast, lc.generators[0].iter))
    bad = []
    single = False
    for (facts, leaf) in leaves(v):
        fx = [(text(a_), tr) for (a_, tr) in facts]
        raw = text(leaf) in ('trace', 'list(trace)', 'tuple(trace)')
        # any fact that rules a str out, however it is spelt: isinstance(trace, str) / isinstance(trace, (str, bytes)) / type(trace) is str, false
        not_str = any((not tr) and 'trace' in a_ and 'str' in a_ and (a_.startswith('isinstance(trace,') or a_.startswith('type(trace)')) for (a_, tr) in fx)
        if raw and not not_str:
            bad.append((fx, text(leaf)))
        if text(leaf) in ('[trace]', '(trace,)', 'list([trace])') and ('isinstance(trace, str)', True) in fx:
            single = True
    R.check(not bad, q, 'names-sequence-not-str', 'the argument is used as the sequence of names only when it is not a str',
            f'the traced names are `{bad[0][1] if bad else ""}` under {bad[0][0] if bad else ""}: a single name given as a str (trace=\'YD\') is iterated character by character',
            where=f.where(n), decided=True)       # the leaves were computed path by path: the argument itself reaches the loop on a path that has not ruled a str out
    R.check(single, q, 'names-single-str', 'a str names exactly that one variable', 'no `[trace]` for a str argument', where=f.where(n))


def r6_names_of_kept_trace(R) -> None:
    """With reset=False the snapshots of a period accumulate in one Trace over repeated solves.  A Trace files each snapshot under
    the names it was created with, so it may only be kept while the names being recorded are those names: the test that decides
    between keeping and re-creating it must compare the two (a second solve with trace=['C', 'Y'] after trace=['Y', 'C'] would
    otherwise file C's values under 'Y'; with lists of different length the append itself fails, an exception that only exists
    because tracing is on)."""
    q = f'{T}.trace_t'
    f = Fn(R, q)
    inits = [n for n in f.cfg.nodes if n.kind == 'stmt' and isinstance(n.ast, ast.Assign) and is_call(n.ast.value, 'Trace')
             and isinstance(n.ast.targets[0], ast.Subscript)]
    if not R.expect(q, len(inits), 1, 'creation of the Trace of period t'):
        return
    appends = f.nodes_with(lambda x: isinstance(x, ast.Call) and isinstance(x.func, ast.Attribute) and x.func.attr == 'append' and len(x.args) == 2)
    if not appends:
        raise Unsupported(f'{q}: no <trace>.append(label, values)')
    ctor = inits[0].ast.value
    names_arg = ctor.args[0] if ctor.args else None
    names_roots = {x.id for x in ast.walk(names_arg) if isinstance(x, ast.Name)} if names_arg is not None else set()
    ok = False
    shown = []
    order_lost = []
    for (tid, lab) in f.guards_of(inits[0].id):
        tn = f.cfg.nodes[tid]
        if tn.kind != 'test' or lab != 'T':
            continue
        from fsa.match import disj_atoms
        for a in disj_atoms(tn.ast):
            a2 = f.expand(tn.id, a)
            shown.append(text(a)[:50])
            if isinstance(a2, ast.UnaryOp) and isinstance(a2.op, ast.Not) and isinstance(a2.operand, ast.Compare) and len(a2.operand.ops) == 1 \
                    and isinstance(a2.operand.ops[0], ast.Eq):
                a2 = ast.Compare(left=a2.operand.left, ops=[ast.NotEq()], comparators=a2.operand.comparators)
            if isinstance(a2, ast.Compare) and len(a2.ops) == 1 and isinstance(a2.ops[0], ast.NotEq):
                sides = [a2.left, a2.comparators[0]]
                has_old = [any(isinstance(x, ast.Attribute) and x.attr == 'names' and not (isinstance(x.value, ast.Name) and x.value.id == 'self') for x in ast.walk(s_)) for s_ in sides]
                has_new = [bool({x.id for x in ast.walk(s_) if isinstance(x, ast.Name)} & names_roots) or (names_arg is not None and text(s_) in (text(names_arg),)) for s_ in sides]
                if (has_old[0] and has_new[1]) or (has_old[1] and has_new[0]):
                    # the Trace files values by position: the comparison has to be of the two sequences, in order
                    lossy = [x for s_ in sides for x in ast.walk(s_) if isinstance(x, ast.Call) and not x.keywords
                             and (text(x.func).split('.')[-1] in ('set', 'frozenset', 'sorted', 'len', 'Counter'))]
                    if lossy:
                        order_lost.append((a, lossy[0]))
                    else:
                        ok = True
    if order_lost and not ok:
        a, lx = order_lost[0]
        R.check(False, q, 'kept-trace-names-compared-without-order:' + text(lx.func)[:20], '',
                f'`{text(a)[:70]}` compares the names through `{text(lx.func)}(...)`, which forgets their order: a Trace files each value under the name at the same '
                f'position, so after trace=[\'Y\', \'C\'] a solve with trace=[\'C\', \'Y\'] keeps the old Trace and files the values of C under \'Y\'',
                decided=True, where=f.where(inits[0]))
        return
    R.check(ok, q, 'kept-trace-has-these-names', 'an existing Trace is kept only if its names are the names being recorded',
            f'the Trace of a period is re-created only under {shown or "?"}: on a second solve with other names (trace=[\'C\', \'Y\'] after trace=[\'Y\', \'C\']) the snapshots are '
            f'appended to the Trace created for the first list, so the values of C are filed under \'Y\' (and lists of different length make the append raise ValueError, '
            f'an exception the untraced call does not raise)', where=f.where(inits[0]))


def r4_label_order(R) -> None:
    want = {
        'solve_t': [("'start'", 'before')],
        'solve_t_before': [("'before'", 'before'), ('0', 'after')],
        'solve_t_after': [("'end'", 'after')],
        '_evaluate': [('iteration', 'after')],
    }
    for m, labels in want.items():
        q = f'{T}.{m}'
        f = Fn(R, q)
        base = f.nodes_with(lambda x, m=m: is_super_call(x, m))
        if not base:
            R.inconclusive(q, 'base call not found')
            continue
        got = []
        for n in f.nodes_with(lambda x: is_self_call(x, 'trace_t')):
            c = [x for x in ast.walk(n.ast) if is_self_call(x, 'trace_t')][0]
            lab = text(c.args[1]) if len(c.args) > 1 else '?'
            # relative to the base call(s) on the same path (a base call on another branch - tracing off - does not count)
            same_path = [b_ for b_ in base if f.cfg.reaches(n.id, b_.id) or f.cfg.reaches(b_.id, n.id)]
            if not same_path:
                rel = 'no-base-call-on-its-path'
            elif all(f.cfg.reaches(n.id, b_.id) and not f.cfg.reaches(b_.id, n.id) for b_ in same_path):
                rel = 'before'
            elif all(f.cfg.reaches(b_.id, n.id) and not f.cfg.reaches(n.id, b_.id) for b_ in same_path):
                rel = 'after'
            else:
                rel = 'mixed'
            got.append((lab, rel))
            R.check(c.args and text(c.args[0]) == 't', q, f'trace-period:{lab}', 'the snapshot is taken for period t', f'trace_t is given `{text(c.args[0]) if c.args else "?"}`',
                    where=f.where(n))
            for o in ('trace', 'reset'):
                v = kwarg(c, o)
                R.check(isinstance(v, ast.Name) and v.id == o, q, f'trace-forward:{lab}:{o}', f'{o} forwarded to trace_t', f'`{o}` not forwarded to trace_t', where=f.where(n))
        R.check(got == labels, q, f'labels:{got}', f'snapshots {labels} relative to the base call',
                f'snapshots relative to super().{m}() are {got}, expected {labels}', where=f.fi.where)


def run(R) -> None:
    R.explanation = (
        'C17: each of the four TracerMixin wrappers calls its base method exactly once on every path, outside any try, with t, *args, trace, '
        'reset, (iteration,) **kwargs forwarded unchanged and (solve_t) returns that value; every trace_t call is guarded by `if trace:`; '
        'trace_t/Trace write only the trace element of period t and Trace attributes, the snapshot is a fresh array; labels start/before/0/'
        'pass/end are placed before/after the base call as the property states. Does not decide snapshot contents.'
    )
    R.rule('C17.R1', lambda: r1_transparent(R))
    R.rule('C17.R2', lambda: r2_off_means_off(R))
    R.rule('C17.R3', lambda: r3_confinement(R))
    R.rule('C17.R4', lambda: r4_label_order(R))
    R.rule('C17.R5', lambda: r5_trace_names(R))
    R.rule('C17.R6', lambda: r6_names_of_kept_trace(R))


def run_thorough(R) -> None:
    from rules.common import thorough_compositions
    thorough_compositions(R, 'C17.T1', ['solve_t', 'solve_t_before', 'solve_t_after', '_evaluate'])
