"""C03 - variable classification, ordering and lag/lead lengths match the script."""

from __future__ import annotations

import ast
from typing import Dict, List, Optional

from fsa.consts import fold_enum, folder
from fsa.match import affine, dotted, is_call, is_const, method_call, kwarg
from fsa.source import AnchorMissing, Unsupported, iter_own_nodes, stmt_key, text
from rules.common import Fn, reordering_sites, tainted_names
from rules.solver_common import expr

P = 'fsic.parser'
VARLIKE = {'VARIABLE', 'EXOGENOUS', 'ENDOGENOUS'}


def r1_tagging(R) -> None:
    q = f'{P}.parse_equation_terms'
    f = Fn(R, q)
    # left, right = equation.split('=', maxsplit=1)
    split = None
    for n in f.cfg.nodes:
        a = n.ast
        if n.kind == 'stmt' and isinstance(a, ast.Assign) and isinstance(a.targets[0], ast.Tuple) and method_call(a.value, 'split'):
            split = (n, a)
    if split is None:
        R.require(q, 0, "left, right = equation.split('=', maxsplit=1)", fi=f.fi, pred=lambda x: method_call(x, 'split', 'partition'))
        return
    n, a = split
    c = a.value
    mx = kwarg(c, 'maxsplit') or (c.args[1] if len(c.args) > 1 else None)
    ok = text(c.func.value) == 'equation' and c.args and is_const(c.args[0], '=') and mx is not None and is_const(mx, 1) \
        and len(a.targets[0].elts) == 2
    R.check(ok, q, 'split:' + text(c), 'the statement is split at the first `=`', f'`{text(a)}` does not split `equation` at the first `=`', where=f.where(n))
    left, right = [text(e) for e in a.targets[0].elts] if len(a.targets[0].elts) == 2 else ('?', '?')
    want = {'lhs_terms': (left, 'ENDOGENOUS'), 'rhs_terms': (right, 'EXOGENOUS')}
    seen = 0
    for m in f.cfg.nodes:
        b = m.ast
        if m.kind == 'stmt' and isinstance(b, ast.Assign) and isinstance(b.value, ast.ListComp) and len(b.targets) == 1:
            lc = b.value
            if is_call(lc.elt, 'replace_type') and len(lc.elt.args) == 2 and is_call(lc.generators[0].iter, 'parse_terms'):
                seen += 1
                side = text(lc.generators[0].iter.args[0])
                tag = text(lc.elt.args[1]).split('.')[-1]
                tgt = text(b.targets[0])
                if tgt in want:
                    ws, wt = want[tgt]
                    R.check(side == ws and tag == wt, q, f'tag:{tgt}:{side}:{tag}',
                            f'{tgt}: terms of the {"left" if wt == "ENDOGENOUS" else "right"}-hand side are tagged {wt}',
                            f'`{text(b)[:80]}`: {tgt} takes terms of `{side}` tagged {tag}, expected `{ws}` tagged {wt}', where=f.where(m))
                else:
                    R.check((side, tag) in ((left, 'ENDOGENOUS'), (right, 'EXOGENOUS')), q, f'tag:{side}:{tag}',
                            'left-hand terms are ENDOGENOUS, right-hand terms EXOGENOUS',
                            f'terms of `{side}` are tagged {tag}', where=f.where(m))
    R.require(q, seen, 'replace_type(t, Type.X) for t in parse_terms(side) for both sides', fi=f.fi, minimum=2,
              pred=lambda x: is_call(x, 'replace_type'))
    # replace_type retags only VARIABLE
    rt = R.repo.func(q + '.<locals>.replace_type')
    ifs = [x for x in ast.walk(rt.node) if isinstance(x, ast.If)]
    ok = len(ifs) == 1 and text(ifs[0].test) in ('term.type == Type.VARIABLE', 'Type.VARIABLE == term.type') and not ifs[0].orelse
    R.check(ok, rt.qualname, 'retag-only-variable', 'only VARIABLE-typed terms are retagged (parameters/errors/functions keep their type)',
            'replace_type does not restrict retagging to Type.VARIABLE', where=rt.where)
    # return order lhs + rhs
    rets = f.returns()
    R.check(len(rets) == 1 and text(rets[0].ast.value) == 'lhs_terms + rhs_terms', q, 'return-order', 'terms are returned left-hand side first',
            'parse_equation_terms does not return `lhs_terms + rhs_terms`', where=f.fi.where)


def r2_promotion(R) -> None:
    q = f'{P}.Symbol.combine'
    f = Fn(R, q)
    types = fold_enum(R.repo, P, 'Type')
    R.check(types.get('VARIABLE', 0) < types.get('EXOGENOUS', 0) < types.get('ENDOGENOUS', 0), f'{P}.Type', 'enum-order',
            'Type order VARIABLE < EXOGENOUS < ENDOGENOUS (promotion by max)', f'Type values are {types}: promotion by max() would not prefer ENDOGENOUS')
    outside = [k for k in ('PARAMETER', 'ERROR', 'FUNCTION', 'KEYWORD', 'VERBATIM', 'INVALID') if k not in types]
    R.check(not outside and len(set(types.values())) == len(types), f'{P}.Type', 'enum-members', 'Type members are distinct', f'Type is missing {outside} or has duplicate values')
    defs = [n for n in f.assigns_to('combined_type') if is_call(n.ast.value, 'max')]
    if not R.require(q, len(defs), 'combined_type = max(self.type, other.type)', fi=f.fi, pred=lambda x: is_call(x, 'max', 'min')):
        return
    n = defs[0]
    args = sorted(text(a) for a in n.ast.value.args)
    R.check(args == ['other.type', 'self.type'], q, 'promotion-max:' + text(n.ast.value), 'promotion = max of the two types',
            f'`{text(n.ast)}` is not max(self.type, other.type)', where=f.where(n))
    # guarded: both operands in VARLIKE, else SymbolError
    rs = f.raises('SymbolError')
    if not R.require(q, len(rs), 'raise SymbolError for incompatible types', fi=f.fi, pred=lambda x: isinstance(x, ast.Raise)):
        return
    r = rs[0]
    tests = [t for (a, truth, t) in f.guard_atoms(r.id) if truth and 'not in' in text(a)]
    cond = None
    for (tid, lab) in f.guards_of(r.id):
        tn = f.cfg.nodes[tid]
        if tn.kind == 'test' and lab == 'T' and 'not in' in text(tn.ast):
            cond = tn
    if cond is None:
        raise Unsupported(f'{q}: guard of SymbolError not recognised')
    parts = cond.ast.values if isinstance(cond.ast, ast.BoolOp) and isinstance(cond.ast.op, ast.Or) else [cond.ast]
    seen: Dict[str, set] = {}
    for p_ in parts:
        if isinstance(p_, ast.Compare) and isinstance(p_.ops[0], ast.NotIn) and isinstance(p_.comparators[0], (ast.Tuple, ast.List, ast.Set)):
            seen[text(p_.left)] = {text(e).split('.')[-1] for e in p_.comparators[0].elts}
    for side in ('self.type', 'other.type'):
        R.check(seen.get(side) == VARLIKE, q, f'promotion-guard:{side}:{sorted(seen.get(side, []))}',
                f'{side} must be one of VARIABLE/EXOGENOUS/ENDOGENOUS for promotion',
                f'SymbolError guard restricts {side} to {sorted(seen.get(side, [])) or "<nothing>"}: a name used both as variable and as parameter/error would be merged',
                where=f.where(cond))
    R.check((cond.id, 'F') in f.guards_of(n.id), q, 'promotion-after-guard', 'promotion happens only after the compatibility check',
            'max() promotion can be reached without passing the SymbolError guard', where=f.where(n))
    # only when types differ
    diff = [t for (tid, lab) in f.guards_of(n.id) for t in [f.cfg.nodes[tid]] if lab == 'T' and text(t.ast) in ('self.type != other.type', 'other.type != self.type')]
    R.check(bool(diff), q, 'promotion-when-different', 'promotion applies when the two types differ', 'promotion is not guarded by `self.type != other.type`', where=f.where(n))


def r3_lag_lead_table(R) -> None:
    q = f'{P}.Symbol.combine'
    f = Fn(R, q)
    uses = {}
    for n in f.cfg.nodes:
        a = n.ast
        if n.kind == 'stmt' and isinstance(a, ast.Assign) and is_call(a.value, 'resolve_by_type_pair') and len(a.targets) == 1:
            uses[text(a.targets[0])] = (n, a.value)
    for nm, fn, attr in (('lags', 'min', 'lags'), ('leads', 'max', 'leads')):
        if nm not in uses:
            R.require(q, 0, f'{nm} = resolve_by_type_pair(self.{attr}, other.{attr}, {fn})', fi=f.fi, pred=lambda x: is_call(x, 'resolve_by_type_pair'))
            continue
        n, c = uses[nm]
        ok = len(c.args) == 3 and text(c.args[0]) == f'self.{attr}' and text(c.args[1]) == f'other.{attr}' and text(c.args[2]) == fn
        R.check(ok, q, f'combine:{nm}:{text(c)}', f'{nm} combined with {fn}() over self.{attr}, other.{attr}',
                f'`{nm} = {text(c)}`: expected resolve_by_type_pair(self.{attr}, other.{attr}, {fn})', where=f.where(n))
    g = Fn(R, q + '.<locals>.resolve_by_type_pair')
    rows: Dict[str, str] = {}
    for n in g.assigns_to('outcome'):
        key = None
        for (a, truth, tn) in g.guard_atoms(n.id):
            if truth and isinstance(a, ast.Compare) and text(a.left) == 'types':
                key = text(a.comparators[0])
        if key is not None:
            rows[key] = text(n.ast.value)
    want = {
        '(type(None), type(None))': 'None',
        '(int, int)': 'function(this, that, 0)',
        '(str, str)': '0',
        '(int, str)': 'this',
        '(str, int)': 'that',
    }
    tdef = [n for n in g.assigns_to('types')]
    R.check(len(tdef) == 1 and text(tdef[0].ast.value) == '(type(this), type(that))', g.q, 'types-def', 'rows are keyed by (type(this), type(that))',
            'types is not (type(this), type(that))', where=g.fi.where)
    for k, v in want.items():
        got = rows.get(k)
        if got is None:
            R.violation(g.q, f'row-missing:{k}', f'no row for {k} in resolve_by_type_pair', where=g.fi.where)
        else:
            okv = got == v or (k == '(int, int)' and got in ('function(this, that, 0)', 'function(0, this, that)', 'function(this, 0, that)'))
            R.check(okv, g.q, f'row:{k}:{got}', f'{k} -> {v}',
                    f'row {k} yields `{got}`, expected `{v}`' + (' (the implicit 0 keeps a lead-only variable from producing a negative lag length)' if k == '(int, int)' else ''),
                    where=g.fi.where)


def r4_double_definition(R) -> None:
    q = f'{P}.Symbol.combine.<locals>.resolve_strings'
    g = Fn(R, q)
    rs = g.raises('ParserError')
    if R.require(q, len(rs), 'raise ParserError for two different definitions', fi=g.fi, pred=lambda x: isinstance(x, ast.Raise)):
        atoms = {text(a): truth for (a, truth, _t) in g.guard_atoms(rs[0].id)}
        ps = [p for p in g.fi.params()][:2]
        a0, a1 = (ps + ['old', 'new'])[:2] if len(ps) >= 2 else ('old', 'new')
        ok = g.holds(rs[0].id, f'{a0} is not None') and g.holds(rs[0].id, f'{a1} is not None') and g.holds(rs[0].id, f'{a0} != {a1}')
        R.check(bool(ok), q, 'double-def-guard', 'two different non-None definitions raise ParserError',
                f'ParserError guard is {atoms}', where=g.where(rs[0]))
    f = R.repo.func(f'{P}.Symbol.combine')
    calls = {}
    for n in iter_own_nodes(f.node):
        if isinstance(n, ast.Assign) and is_call(n.value, 'resolve_strings'):
            calls[text(n.targets[0])] = n.value
    for nm in ('equation', 'code'):
        c = calls.get(nm)
        ok = c is not None and [text(a) for a in c.args] == [f'self.{nm}', f'other.{nm}']
        R.check(ok, f.qualname, f'resolve:{nm}', f'{nm} is resolved with the double-definition check',
                f'`{nm}` is not resolve_strings(self.{nm}, other.{nm})', where=f.where)


def _lag_lead_block(fi):
    """Normalised AST text of the name-list / lags / leads computation."""
    out = []
    for n in fi.node.body:
        t = None
        if isinstance(n, ast.Assign) and len(n.targets) == 1 and text(n.targets[0]) in ('endogenous', 'exogenous', 'parameters', 'errors', 'non_indexed_symbols'):
            t = text(n)
        if isinstance(n, ast.If) and text(n.test) in ('lags is None', 'leads is None'):
            t = text(n)
        if t:
            out.append(t)
    return out


def r5_definition(R) -> None:
    q = f'{P}.build_model_definition'
    f = Fn(R, q)
    want = {'endogenous': 'ENDOGENOUS', 'exogenous': 'EXOGENOUS', 'parameters': 'PARAMETER', 'errors': 'ERROR'}
    for nm, ty in want.items():
        ds = [n for n in f.assigns_to(nm) if isinstance(n.ast.value, ast.ListComp)]
        if not R.require(q, len(ds), f'{nm} = [s.name for s in symbols if s.type == Type.{ty}]', fi=f.fi, pred=lambda x: isinstance(x, ast.ListComp)):
            continue
        lc = ds[0].ast.value
        g = lc.generators[0]
        ok = text(lc.elt) == f'{text(g.target)}.name' and text(g.iter) == 'symbols' and len(g.ifs) == 1 \
            and text(g.ifs[0]) in (f'{text(g.target)}.type == Type.{ty}', f'Type.{ty} == {text(g.target)}.type')
        R.check(ok, q, f'name-list:{nm}:{text(lc)}', f'{nm} = names of symbols of type {ty}, in symbol order',
                f'`{nm} = {text(lc)}` does not select Type.{ty}', where=f.where(ds[0]))
    # lags / leads
    for nm, agg, floor in (('lags', 'min', 'min_lags'), ('leads', 'max', 'min_leads')):
        tests = [t for t in f.tests() if text(t.ast) == f'{nm} is None']
        if not R.require(q, len(tests), f'`if {nm} is None` block', fi=f.fi, pred=lambda x: isinstance(x, ast.Compare)):
            continue
        t = tests[0]
        defs = f.assigns_to(nm)
        inside = [d for d in defs if (t.id, 'T') in f.guards_of(d.id)]
        outside = [d for d in defs if (t.id, 'T') not in f.guards_of(d.id)]
        for d in outside:
            R.violation(q, f'{nm}-rebound-outside:{text(d.ast)}', f'`{text(d.ast)}` rebinds `{nm}` outside the `is None` branch: an explicit {nm}= would not replace the computed value',
                        where=f.where(d))
        got_abs = got_zero = got_floor = False
        for d in inside:
            v = d.ast.value
            if is_call(v, 'abs') and is_call(v.args[0], agg) and isinstance(v.args[0].args[0], ast.GeneratorExp):
                ge = v.args[0].args[0]
                if text(ge.elt) == f'{text(ge.generators[0].target)}.{nm}' and text(ge.generators[0].iter) == 'non_indexed_symbols':
                    got_abs = True
            elif is_call(v, 'abs') or is_call(v, 'min') or (is_call(v, 'max') and floor not in text(v)):
                R.violation(q, f'{nm}-aggregate:{text(v)}', f'`{nm} = {text(v)}` is not abs({agg}(s.{nm} for s in non_indexed_symbols))', where=f.where(d))
            if is_const(v, 0):
                got_zero = True
            if is_call(v, 'max') and sorted(text(a) for a in v.args) == sorted([nm, floor]):
                got_floor = True
                # the floor comes after the aggregate
                ok = all(x.id in f.dom[d.id] or True for x in inside)
        R.check(got_abs, q, f'{nm}-aggregate', f'{nm.upper()} = |{agg} {nm}| over variable-like symbols', f'no `{nm} = abs({agg}(...))` in the `is None` branch', where=f.where(t))
        R.check(got_zero, q, f'{nm}-zero', f'{nm.upper()} = 0 without variable-like symbols', f'no `{nm} = 0` fallback', where=f.where(t))
        R.check(got_floor, q, f'{nm}-floor', f'{floor} only raises the computed value', f'no `{nm} = max({nm}, {floor})` inside the `is None` branch', where=f.where(t))
    ni = [n for n in f.assigns_to('non_indexed_symbols')]
    if ni:
        lc = ni[0].ast.value
        ok = isinstance(lc, ast.ListComp) and text(lc.generators[0].iter) == 'symbols' and len(lc.generators[0].ifs) == 1
        excl = set()
        if ok:
            c = lc.generators[0].ifs[0]
            if isinstance(c, ast.Compare) and isinstance(c.ops[0], ast.NotIn):
                excl = {text(e).split('.')[-1] for e in c.comparators[0].elts}
        R.check(ok and excl == {'FUNCTION', 'KEYWORD', 'VERBATIM'}, q, f'non-indexed:{sorted(excl)}', 'lags/leads are taken over everything except functions, keywords, verbatim',
                f'non_indexed_symbols excludes {sorted(excl)}', where=f.where(ni[0]))
    # NAMES order in both templates
    fd = folder(R.repo, P)
    for tn in ('MODEL_TEMPLATE_TYPED', 'MODEL_TEMPLATE_UNTYPED'):
        tpl = fd.get(tn)
        filled = tpl.format(endogenous='[]', exogenous='[]', parameters='[]', errors='[]', lags='0', leads='0', equations='        pass')
        cls = ast.parse(filled).body[0]
        vals = {}
        for s in cls.body:
            if isinstance(s, ast.Assign):
                vals[text(s.targets[0])] = text(s.value)
            elif isinstance(s, ast.AnnAssign):
                vals[text(s.target)] = text(s.value)
        R.check(vals.get('NAMES') == 'ENDOGENOUS + EXOGENOUS + PARAMETERS + ERRORS', f'{P}.{tn}', f'names-order:{vals.get("NAMES")}',
                'NAMES = ENDOGENOUS + EXOGENOUS + PARAMETERS + ERRORS', f'{tn}: NAMES = {vals.get("NAMES")}')
        # placeholders land on the right attributes (fill each field with a marker, read the class body)
        fields = ('endogenous', 'exogenous', 'parameters', 'errors', 'lags', 'leads')
        marked = tpl.format(equations='        pass', **{k: repr('@' + k + '@') for k in fields})
        mcls = ast.parse(marked).body[0]
        mvals = {}
        for s_ in mcls.body:
            if isinstance(s_, ast.Assign):
                mvals[text(s_.targets[0])] = text(s_.value)
            elif isinstance(s_, ast.AnnAssign) and s_.value is not None:
                mvals[text(s_.target)] = text(s_.value)
        for attr, field in (('ENDOGENOUS', 'endogenous'), ('EXOGENOUS', 'exogenous'), ('PARAMETERS', 'parameters'), ('ERRORS', 'errors'), ('LAGS', 'lags'), ('LEADS', 'leads')):
            got = mvals.get(attr)
            R.check(got == repr('@' + field + '@'), f'{P}.{tn}', f'field:{attr}:{got}', f'{attr} is filled from {{{field}}}',
                    f'{tn}: {attr} is `{got}`, expected the {{{field}}} field')
    # format call passes each field from the variable of the same name
    fm = [n for n in f.cfg.nodes if n.kind == 'stmt' and isinstance(n.ast, ast.Assign) and method_call(n.ast.value, 'format') and 'model_template' in text(n.ast.value.func)]
    if R.require(q, len(fm), 'model_template.format(...)', fi=f.fi, pred=lambda x: method_call(x, 'format')):
        c = fm[0].ast.value
        for k in c.keywords:
            R.check(isinstance(k.value, ast.Name) and k.value.id == k.arg, q, f'format-field:{k.arg}={text(k.value)}', f'field {k.arg} receives `{k.arg}`',
                    f'template field `{k.arg}` receives `{text(k.value)}`', where=f.where(fm[0]))
    # Fortran twin
    ft = R.repo.func('fsic.fortran.build_fortran_definition')
    a, b = _lag_lead_block(f.fi), _lag_lead_block(ft)
    R.check(a == b and len(a) >= 7, 'fsic.fortran.build_fortran_definition', 'twin-block', 'name lists and lag/lead computation agree with build_model_definition',
            'build_fortran_definition computes name lists / lags / leads differently from build_model_definition: '
            + '; '.join(x for x in b if x not in a)[:200], where=ft.where)


def r6_first_appearance(R) -> None:
    for q in (f'{P}.parse_model', f'{P}.parse_equation'):
        f = Fn(R, q)
        merges = [n for n in f.cfg.nodes if n.kind == 'stmt' and isinstance(n.ast, ast.Assign) and isinstance(n.ast.targets[0], ast.Subscript)
                  and text(n.ast.targets[0].value) == 'symbols']
        if not R.require(q, len(merges), 'symbols[name] = symbols.get(name, symbol).combine(symbol)', fi=f.fi, pred=lambda x: method_call(x, 'combine')):
            continue
        for n in merges:
            v = n.ast.value
            key = text(n.ast.targets[0].slice)
            if method_call(v, 'combine'):
                ok = method_call(v.func.value, 'get') and text(v.func.value.func.value) == 'symbols' \
                    and [text(a) for a in v.func.value.args] == [key, text(v.args[0])]
                R.check(ok, q, 'merge:' + text(v), 'a repeated name is merged into its first entry (position of first appearance kept)',
                        f'`{text(n.ast)}` is not symbols.get({key}, s).combine(s)', where=f.where(n))
        rets = [r for r in f.returns() if r.ast.value is not None and 'symbols' in text(r.ast.value)]
        for r in rets:
            tv = text(r.ast.value)
            R.check(tv in ('list(symbols.values()) + verbatim', 'list(symbols.values())'), q, 'return:' + tv, 'symbols are returned in insertion order',
                    f'`return {tv}` does not return the symbols in insertion order', where=f.where(r))
        ds = [n for n in f.assigns_to('symbols')]
        ok = all(isinstance(d.ast.value, ast.Dict) or text(d.ast.value) in ('{}', 'dict()', 'OrderedDict()', 'collections.OrderedDict()') for d in ds if d.ast.value is not None)
        R.check(ok and ds, q, 'symbols-dict', 'symbols accumulate in an insertion-ordered dict', '`symbols` is not an (ordered) dict', where=f.fi.where)
    # every term of a statement goes through the merge (type-compatibility check): only verbatim terms and
    # function symbols may be skipped
    pe = Fn(R, f'{P}.parse_equation')
    tl = [n for n in pe.cfg.nodes if n.kind == 'for' and text(n.ast.iter) == 'terms']
    if R.require(pe.q, len(tl), 'loop over the terms', fi=pe.fi, pred=lambda x: isinstance(x, ast.For)):
        lp = tl[0]
        for n in pe.cfg.nodes:
            if lp.id in n.loops and isinstance(n.ast, ast.Continue):
                g = [(text(a), truth) for (a, truth, _t) in pe.guard_atoms(n.id)]
                ok = any(truth and ('Type.VERBATIM' in a or 'Type.FUNCTION' in a) and '==' in a for (a, truth) in g)
                R.check(ok, pe.q, 'term-skipped:' + ';'.join(a for a, _t in g)[:80], 'only verbatim terms and function symbols bypass the merge',
                        f'a term is skipped (`continue` under {g}) before `symbols.get(name, s).combine(s)`: a repeated mention escapes the type-compatibility '
                        f'check (a name used as variable and as parameter/error in one statement would be accepted)', where=pe.where(n))
    # parse_model iterates statements in order
    f = Fn(R, f'{P}.parse_model')
    loops = [n for n in f.cfg.nodes if n.kind == 'for']
    l1 = [n for n in loops if 'split_equations_iter(model)' in text(n.ast.iter)]
    R.check(bool(l1) and text(l1[0].ast.iter) in ('enumerate(split_equations_iter(model))', 'split_equations_iter(model)'), f.q, 'statement-order',
            'statements are parsed in script order', 'parse_model does not iterate split_equations_iter(model) directly', where=f.fi.where)
    l2 = [n for n in loops if 'symbols_by_equation' in text(n.ast.iter)]
    R.check(bool(l2) and text(l2[0].ast.iter) in ('itertools.chain(*symbols_by_equation)', 'itertools.chain.from_iterable(symbols_by_equation)'), f.q, 'merge-order',
            'per-statement symbol lists are merged in statement order', 'the merge loop does not iterate chain(*symbols_by_equation)', where=f.fi.where)
    for q in (f'{P}.parse_model', f'{P}.parse_equation'):
        fi = R.repo.func(q)
        bad = reordering_sites(fi.node, tainted_names(fi.node, ['model', 'terms', 'equation']))
        for c in bad:
            R.violation(q, 'reorder:' + text(c)[:60], f'`{text(c)[:70]}` reorders the symbol flow', where=f'{fi.module.relpath}:{c.lineno}')
        if not bad:
            R.ok(q, 'no reordering combinator on the symbol flow')


def r7_default_range(R) -> None:
    for q in ('fsic.core.interfaces.SolverMixin.iter_periods', 'fsic.fortran.FortranEngine.solve'):
        f = Fn(R, q)
        for nm, want in (('start', 'self.lags'), ('end', '-1 - self.leads')):
            ds = [d for d in f.assigns_to(nm) if f.holds(d.id, f'{nm} is None')]
            # conditional-expression form: start = <default> if start is None else start
            for d in f.assigns_to(nm):
                v_ = d.ast.value
                if isinstance(v_, ast.IfExp) and text(v_.test) in (f'{nm} is None',) and text(v_.orelse) == nm:
                    d_ = d
                    ds = ds + [type('N', (), {'ast': ast.Assign(targets=d.ast.targets, value=v_.body), 'id': d.id, 'lineno': d.lineno})()]
            if not R.require(q, len(ds), f'default `{nm}` under `{nm} is None`', fi=f.fi, pred=lambda x: isinstance(x, ast.Subscript) and text(x.value) == 'self.span'):
                continue
            v = ds[0].ast.value
            ok = isinstance(v, ast.Subscript) and text(v.value) in ('self.span', "self.__dict__['span']") and affine(v.slice) == affine(expr(want))
            R.check(ok, q, f'default-{nm}:{text(v)}', f'default {nm} = span[{want}]',
                    f'default {nm} is `{text(v)}`, expected `self.span[{want}]` (first period with enough lags / last with enough leads)', where=f.where(ds[0]))
        # inclusive integer range (locals holding the two located positions are read through)
        rng_nodes = [n for n in f.cfg.nodes if n.ast is not None and n.kind == 'stmt' and any(is_call(x, 'range') and len(x.args) >= 2 for x in ast.walk(n.ast))]
        cands = []
        for n in rng_nodes:
            for x in ast.walk(n.ast):
                if is_call(x, 'range') and len(x.args) >= 2:
                    ex = f.expand(n.id, x, depth=3)
                    if '_locate_period_in_span' in text(ex):
                        cands.append((n, ex))
        if R.require(q, len(cands), 'range(loc(start), loc(end) + 1)', fi=f.fi, pred=lambda x: is_call(x, 'range')):
            n, r = cands[0]
            ok = text(r.args[0]) == 'self._locate_period_in_span(start)' and affine(r.args[1]) == affine(expr('self._locate_period_in_span(end) + 1')) \
                and (len(r.args) == 2 or is_const(r.args[2], 1))
            R.check(ok, q, 'range:' + text(r), 'positions run from loc(start) to loc(end) inclusive', f'`{text(r)}` is not range(loc(start), loc(end) + 1)',
                    where=f.where(n))


def run(R) -> None:
    R.explanation = (
        'C03: tagging of the two halves of the first-`=` split; promotion table (enum order by constant folding, max() under the '
        'VARLIKE guard on both operands, SymbolError otherwise); lag/lead combination table extracted from the if/elif chain; '
        'double-definition check; name lists, |min lags| / |max leads|, floors inside the `is None` branch, template field '
        'mapping, twin agreement with build_fortran_definition; insertion-ordered merge; default range in affine form. '
        'Does not decide that term_re finds every mention.'
    )
    R.rule('C03.R1', lambda: r1_tagging(R))
    R.rule('C03.R2', lambda: r2_promotion(R))
    R.rule('C03.R3', lambda: r3_lag_lead_table(R))
    R.rule('C03.R4', lambda: r4_double_definition(R))
    R.rule('C03.R5', lambda: r5_definition(R))
    R.rule('C03.R6', lambda: r6_first_appearance(R))
    R.rule('C03.R7', lambda: r7_default_range(R))
