"""C03 - variable classification, ordering and lag/lead lengths match the script."""

from __future__ import annotations

import ast
from typing import Dict, List, Optional, Tuple

from fsa.consts import fold_enum, folder
from fsa.match import Unknown, affine, atoms_equal, dotted, is_call, is_const, method_call, kwarg, nnf_atoms
from fsa.source import AnchorMissing, Unsupported, iter_own_nodes, stmt_key, text
from rules.common import Fn, reordering_sites, tainted_names
from rules.solver_common import expr

P = 'fsic.parser'
VARLIKE = {'VARIABLE', 'EXOGENOUS', 'ENDOGENOUS'}


def r1_tagging(R) -> None:
    from fsa.match import atoms_equal
    from fsa.flow import PARAM
    q = f'{P}.parse_equation_terms'
    f = Fn(R, q)
    src = (f.fi.params() + ['equation'])[0]
    # left, right = equation.split('=', maxsplit=1)
    split = None
    for n in f.cfg.nodes:
        a = n.ast
        if n.kind == 'stmt' and isinstance(a, ast.Assign) and isinstance(a.targets[0], ast.Tuple) and method_call(a.value, 'split', 'rsplit', 'partition', 'rpartition'):
            split = (n, a)
    if split is None:
        R.require(q, 0, "left, right = equation.split('=', maxsplit=1)", fi=f.fi, pred=lambda x: method_call(x, 'split', 'partition'))
        return
    n, a = split
    c = a.value
    elts = a.targets[0].elts
    if c.func.attr == 'partition':
        ok = text(c.func.value) == src and len(c.args) == 1 and is_const(c.args[0], '=') and len(elts) == 3
        left, right = (text(elts[0]), text(elts[2])) if len(elts) == 3 else ('?', '?')
    else:
        mx = kwarg(c, 'maxsplit') or (c.args[1] if len(c.args) > 1 else None)
        ok = c.func.attr == 'split' and text(c.func.value) == src and c.args and is_const(c.args[0], '=') and mx is not None and is_const(mx, 1) and len(elts) == 2
        left, right = [text(e) for e in elts] if len(elts) == 2 else ('?', '?')
    R.check(ok, q, 'split:' + text(c), 'the statement is split at the first `=`', f'`{text(a)}` does not split `{src}` at the first `=`', where=f.where(n))
    # the returned list: left-hand terms, then right-hand terms
    rets = f.returns()
    if len(rets) != 1 or rets[0].ast.value is None:
        raise Unsupported(f'{q}: expected one return of the term list')
    rv = rets[0].ast.value
    parts: List[ast.AST] = []
    if isinstance(rv, ast.BinOp) and isinstance(rv.op, ast.Add):
        parts = [rv.left, rv.right]
    elif isinstance(rv, ast.List) and len(rv.elts) == 2 and all(isinstance(e, ast.Starred) for e in rv.elts):
        parts = [e.value for e in rv.elts]
    elif is_call(rv, 'list') and len(rv.args) == 1 and is_call(rv.args[0], 'itertools.chain', 'chain') and len(rv.args[0].args) == 2:
        parts = list(rv.args[0].args)
    if len(parts) != 2:
        raise Unsupported(f'{q}: return `{text(rv)[:60]}` is not the concatenation of two term lists')
    sides = []
    for part in parts:
        site = rets[0].id
        e = part
        if isinstance(part, ast.Name):
            vals = f.lf.values_reaching(rets[0].id, part.id)
            if len(vals) != 1 or vals[0][0] == PARAM or vals[0][1] is None:
                raise Unsupported(f'{q}: `{part.id}` has {len(vals)} definitions at the return')
            site, e = vals[0]
        x = f.expand(site, e, stop=(left, right))
        lc = x if isinstance(x, (ast.ListComp, ast.GeneratorExp)) else f.as_listcomp(site, x)
        if lc is None and is_call(x, 'list', 'tuple') and len(x.args) == 1 and isinstance(x.args[0], (ast.ListComp, ast.GeneratorExp)):
            lc = x.args[0]
        if lc is None or len(lc.generators) != 1 or lc.generators[0].ifs:
            if is_call(x, 'parse_terms'):
                R.violation(q, f'untagged:{text(part)}', f'`{text(part)} = {text(x)[:60]}`: the terms of this side are not tagged', where=f.where(f.cfg.nodes[site]), mismatch=True)
                continue
            raise Unsupported(f'{q}: `{text(part)}` = `{text(x)[:70]}` is not a comprehension over parse_terms(<side>)')
        g = lc.generators[0]
        it = f.expand(site, g.iter, stop=(left, right))
        if not (is_call(it, 'parse_terms') and len(it.args) == 1):
            raise Unsupported(f'{q}: `{text(part)}` iterates `{text(it)[:50]}`')
        side = text(it.args[0])
        tv = text(g.target)
        elt = lc.elt
        tag = None
        only_var = None
        if isinstance(elt, ast.IfExp):
            body, other, cond, flip = elt.body, elt.orelse, elt.test, False
            if text(body) == tv:
                body, other, flip = other, body, True
            if text(other) == tv and method_call(body, '_replace') and text(body.func.value) == tv and kwarg(body, 'type') is not None:
                tag = text(kwarg(body, 'type')).split('.')[-1]
                from fsa.match import nnf_atoms
                at = nnf_atoms(cond, not flip)
                only_var = len(at) == 1 and at[0][1] is True and atoms_equal(at[0][0], expr(f'{tv}.type == Type.VARIABLE'))
                cond_text = text(cond)
        elif method_call(elt, '_replace') and text(elt.func.value) == tv and kwarg(elt, 'type') is not None:
            tag = text(kwarg(elt, 'type')).split('.')[-1]
            only_var = False
            cond_text = '<unconditional>'
        elif text(elt) == tv:
            R.violation(q, f'untagged:{text(part)}', f'`{text(part)}`: the terms of `{side}` are not tagged', where=f.where(f.cfg.nodes[site]), mismatch=True)
            continue
        if tag is None:
            raise Unsupported(f'{q}: element `{text(elt)[:70]}` of `{text(part)}` is not a conditional retagging of the term')
        sides.append((text(part), side, tag, site))
        R.check(bool(only_var), q, f'retag-only-variable:{text(part)}', 'only VARIABLE-typed terms are retagged (parameters/errors/functions keep their type)',
                f'`{text(part)}`: retagging is conditional on `{cond_text}`, not on `{tv}.type == Type.VARIABLE`', where=f.where(f.cfg.nodes[site]))
    want = [(left, 'ENDOGENOUS'), (right, 'EXOGENOUS')]
    for (nm, side, tag, site), (ws, wt) in zip(sides, want):
        hand = 'left' if wt == 'ENDOGENOUS' else 'right'
        if len(sides) == 2 and (side, tag) != (ws, wt) and [(s_, t_) for (_n, s_, t_, _s) in sides] == want[::-1]:
            R.violation(q, 'return-order', 'parse_equation_terms returns the right-hand terms before the left-hand terms', where=f.where(rets[0]))
            break
        R.check((side, tag) == (ws, wt), q, f'tag:{hand}:{side}:{tag}', f'terms of the {hand}-hand side are tagged {wt}',
                f'`{nm}` takes terms of `{side}` tagged {tag}, expected `{ws}` tagged {wt}', where=f.where(f.cfg.nodes[site]))
    R.check(len(sides) == 2, q, 'both-sides', 'both sides of the statement contribute tagged terms', f'only {len(sides)} tagged side(s) found', where=f.fi.where)


def r2_promotion(R) -> None:
    q = f'{P}.Symbol.combine'
    f = Fn(R, q)
    types = fold_enum(R.repo, P, 'Type')
    R.check(types.get('VARIABLE', 0) < types.get('EXOGENOUS', 0) < types.get('ENDOGENOUS', 0), f'{P}.Type', 'enum-order',
            'Type order VARIABLE < EXOGENOUS < ENDOGENOUS (promotion by max)', f'Type values are {types}: promotion by max() would not prefer ENDOGENOUS')
    outside = [k for k in ('PARAMETER', 'ERROR', 'FUNCTION', 'KEYWORD', 'VERBATIM', 'INVALID') if k not in types]
    R.check(not outside and len(set(types.values())) == len(types), f'{P}.Type', 'enum-members', 'Type members are distinct', f'Type is missing {outside} or has duplicate values')
    # the combined type is what the returned Symbol receives as `type=`
    from fsa.match import nnf_atoms
    ret = [r for r in f.returns() if is_call(r.ast.value, 'Symbol') or method_call(r.ast.value, '_replace')]
    if not ret:
        raise Unsupported(f'{q}: no `return Symbol(...)`')
    tkw = kwarg(ret[0].ast.value, 'type')
    if not isinstance(tkw, ast.Name):
        raise Unsupported(f'{q}: the combined type `{text(tkw) if tkw is not None else "?"}` is not a local name')
    ct = tkw.id
    vds = f.vdefs(ct)
    defs = [d for d in vds if is_call(d.value, 'max', 'min')]
    if not defs:
        if any(is_call(x, 'max') for x in ast.walk(f.fi.node)):
            raise Unsupported(f'{q}: promotion by max() not bound to `{ct}` directly')
        R.require(q, 0, 'combined_type = max(self.type, other.type)', fi=f.fi, pred=lambda x: is_call(x, 'max', 'min'))
        return
    d = defs[0]
    n = d.node
    args = sorted(text(a) for a in d.value.args)
    R.check(args == ['other.type', 'self.type'] and is_call(d.value, 'max'), q, 'promotion-max:' + text(d.value), 'promotion = max of the two types',
            f'`{ct} = {text(d.value)}` is not max(self.type, other.type)', where=f.where(n))
    others = [x for x in vds if x is not d]
    R.check(all(text(x.value) in ('self.type', 'other.type') for x in others), q, 'promotion-else:' + ';'.join(text(x.value) for x in others)[:60],
            'without promotion the type is the common type', f'`{ct}` is also bound to {[text(x.value)[:30] for x in others]}', where=f.where(n))
    # guarded: both operands in VARLIKE, else SymbolError
    rs = f.raises('SymbolError')
    if not R.require(q, len(rs), 'raise SymbolError for incompatible types', fi=f.fi, pred=lambda x: isinstance(x, ast.Raise)):
        return
    facts = list(f.xguard_atoms(n.id)) + [t_ for t_ in d.facts if t_ not in f.guard_atoms(n.id)]
    allowed: Dict[str, set] = {}
    differ = False
    for (a_, tr, *_r) in facts:
        if isinstance(a_, ast.Compare) and len(a_.ops) == 1 and isinstance(a_.ops[0], ast.In) and tr and text(a_.left) in ('self.type', 'other.type'):
            # the collection tested against: a display, or a module-level name bound to one
            coll = a_.comparators[0].elts if isinstance(a_.comparators[0], (ast.Tuple, ast.List, ast.Set)) else _const_sequence(R, f, a_.comparators[0])
            if coll is not None:
                allowed[text(a_.left)] = {text(e).split('.')[-1] for e in coll}
        if isinstance(a_, ast.Compare) and len(a_.ops) == 1 and isinstance(a_.ops[0], ast.Eq) and not tr and {text(a_.left), text(a_.comparators[0])} == {'self.type', 'other.type'}:
            differ = True
    for side in ('self.type', 'other.type'):
        R.check(allowed.get(side) == VARLIKE, q, f'promotion-guard:{side}:{sorted(allowed.get(side, []))}',
                f'{side} must be one of VARIABLE/EXOGENOUS/ENDOGENOUS for promotion',
                f'promotion by max() is reached with {side} restricted to {sorted(allowed.get(side, [])) or "<nothing>"}: a name used both as variable and as parameter/error '
                f'would be merged', where=f.where(n))
    # and the complementary situation raises SymbolError
    okr = False
    for r in rs:
        ra = [(text(a_), tr) for (a_, tr, _t) in f.xguard_atoms(r.id)]
        if any('self.type' in a_ and 'other.type' in a_ and ' or ' in a_ for (a_, tr) in ra) or \
                any(tr is False and ' in (' in a_ and ('self.type' in a_ or 'other.type' in a_) for (a_, tr) in ra):
            okr = True
    R.check(okr, q, 'promotion-rejects', 'an incompatible pair raises SymbolError', 'the SymbolError is not raised for a type outside VARIABLE/EXOGENOUS/ENDOGENOUS', where=f.where(rs[0]))
    R.check(all(not f.cfg.reaches(n.id, r.id) for r in rs) and any(f.cfg.reaches(tn.id, n.id) for r in rs for (_a, _t, tn) in f.guard_atoms(r.id)), q, 'promotion-after-guard',
            'promotion happens only after the compatibility check', 'max() promotion can be reached without passing the SymbolError guard', where=f.where(n))
    R.check(differ, q, 'promotion-when-different', 'promotion applies when the two types differ', 'promotion is not guarded by `self.type != other.type`', where=f.where(n))


class _NoFold(Exception):
    pass


_TYPES = {'int': int, 'str': str, 'float': float, 'bool': bool, 'NoneType': type(None), 'object': object}


def _fold_types(e: ast.AST, env: Dict[str, object]):
    """Constant folding of a row test over the finite domain of operand types: `env` maps the two operand names to
    sample values (None, 0, ''), so `type(this)`, `isinstance(that, str)`, `this is None`, tuples, sets, subscripts with
    constant index, ==, !=, is, is not, in, not in, <= on sets, not/and/or fold to a constant.  Anything else: _NoFold."""
    if isinstance(e, ast.Constant):
        return e.value
    if isinstance(e, ast.Name):
        if e.id in env:
            return env[e.id]
        if e.id in _TYPES:
            return _TYPES[e.id]
        raise _NoFold(e.id)
    if isinstance(e, (ast.Tuple, ast.List)):
        return tuple(_fold_types(x, env) for x in e.elts)
    if isinstance(e, ast.Set):
        return frozenset(_fold_types(x, env) for x in e.elts)
    if isinstance(e, ast.Call) and isinstance(e.func, ast.Name) and not e.keywords:
        args = [_fold_types(x, env) for x in e.args]
        if e.func.id == 'type' and len(args) == 1:
            return type(args[0])
        if e.func.id == 'isinstance' and len(args) == 2:
            return isinstance(args[0], args[1])
        if e.func.id in ('set', 'frozenset') and len(args) == 1:
            return frozenset(args[0])
        if e.func.id == 'tuple' and len(args) == 1:
            return tuple(args[0])
        if e.func.id == 'all' and len(args) == 1:
            return all(args[0])
        if e.func.id == 'any' and len(args) == 1:
            return any(args[0])
        raise _NoFold(e.func.id)
    if isinstance(e, ast.Subscript) and isinstance(e.slice, ast.Constant) and isinstance(e.slice.value, int):
        return _fold_types(e.value, env)[e.slice.value]
    if isinstance(e, ast.UnaryOp) and isinstance(e.op, ast.Not):
        return not _fold_types(e.operand, env)
    if isinstance(e, ast.BoolOp):
        vals = [_fold_types(v, env) for v in e.values]
        return all(vals) if isinstance(e.op, ast.And) else any(vals)
    if isinstance(e, ast.Compare):
        left = _fold_types(e.left, env)
        for op, c in zip(e.ops, e.comparators):
            right = _fold_types(c, env)
            if isinstance(op, ast.Eq):
                r = left == right
            elif isinstance(op, ast.NotEq):
                r = left != right
            elif isinstance(op, ast.Is):
                r = left is right
            elif isinstance(op, ast.IsNot):
                r = left is not right
            elif isinstance(op, ast.In):
                r = left in right
            elif isinstance(op, ast.NotIn):
                r = left not in right
            elif isinstance(op, ast.LtE) and isinstance(left, frozenset) and isinstance(right, frozenset):
                r = left <= right
            elif isinstance(op, ast.GtE) and isinstance(left, frozenset) and isinstance(right, frozenset):
                r = left >= right
            else:
                raise _NoFold(type(op).__name__)
            if not r:
                return False
            left = right
        return True
    if isinstance(e, ast.Attribute) and isinstance(e.value, ast.Name) and e.value.id == 'types' and e.attr == 'NoneType':
        return type(None)
    raise _NoFold(type(e).__name__)


class _S:
    """A symbolic operand of known type (its sample value carries the type)."""
    def __init__(self, name, sample):
        self.name, self.sample = name, sample


def _show(v) -> str:
    if isinstance(v, _S):
        return v.name
    if isinstance(v, tuple) and v and v[0] == '<call>':
        return f'{v[1]}({", ".join(_show(a) for a in v[2])})'
    return repr(v)


def _peval(e: ast.AST, env: Dict[str, object]):
    """Partial evaluation over operands of known type: like _fold_types, but the operands stay symbolic (`_S`), so that
    selections (`[x for x in (this, that) if type(x) is int]`, `offsets[0]`, `len(offsets)`) and the final value can be
    followed.  Calls of unknown functions on symbolic arguments stay calls.  Anything else: _NoFold."""
    def conc(v):
        return v.sample if isinstance(v, _S) else v
    if isinstance(e, ast.Constant):
        return e.value
    if isinstance(e, ast.Name):
        if e.id in env:
            return env[e.id]
        if e.id in _TYPES:
            return _TYPES[e.id]
        return ('<fn>', e.id)
    if isinstance(e, (ast.Tuple, ast.List)):
        out = []
        for x in e.elts:
            if isinstance(x, ast.Starred):
                out += list(_peval(x.value, env))
            else:
                out.append(_peval(x, env))
        return tuple(out)
    if isinstance(e, (ast.ListComp, ast.GeneratorExp)) and len(e.generators) == 1 and isinstance(e.generators[0].target, ast.Name):
        g = e.generators[0]
        seq = _peval(g.iter, env)
        if not isinstance(seq, tuple):
            raise _NoFold('iterable')
        out = []
        for item in seq:
            env2 = dict(env)
            env2[g.target.id] = item
            if all(_peval(c, env2) for c in g.ifs):
                out.append(_peval(e.elt, env2))
        return tuple(out)
    if isinstance(e, ast.IfExp):
        return _peval(e.body, env) if _peval(e.test, env) else _peval(e.orelse, env)
    if isinstance(e, ast.Call) and isinstance(e.func, ast.Name) and not e.keywords:
        args = []
        for x in e.args:
            if isinstance(x, ast.Starred):
                args += list(_peval(x.value, env))
            else:
                args.append(_peval(x, env))
        fn = e.func.id
        if fn == 'type' and len(args) == 1:
            return type(conc(args[0]))
        if fn == 'isinstance' and len(args) == 2:
            return isinstance(conc(args[0]), args[1])
        if fn == 'len' and len(args) == 1 and isinstance(args[0], tuple):
            return len(args[0])
        if fn in ('set', 'frozenset') and len(args) == 1:
            return frozenset(args[0])
        if fn in ('tuple', 'list') and len(args) == 1:
            return tuple(args[0])
        if fn == 'all' and len(args) == 1:
            return all(args[0])
        if fn == 'any' and len(args) == 1:
            return any(args[0])
        target = env.get(fn)
        shown = target.name if isinstance(target, _S) else fn
        return ('<call>', shown, tuple(args))
    if isinstance(e, ast.Subscript) and isinstance(e.slice, ast.Constant) and isinstance(e.slice.value, int):
        return _peval(e.value, env)[e.slice.value]
    if isinstance(e, ast.UnaryOp) and isinstance(e.op, ast.Not):
        return not _peval(e.operand, env)
    if isinstance(e, ast.BoolOp):
        vals = [_peval(v, env) for v in e.values]
        return all(vals) if isinstance(e.op, ast.And) else any(vals)
    if isinstance(e, ast.Compare):
        left = _peval(e.left, env)
        for op, c in zip(e.ops, e.comparators):
            right = _peval(c, env)
            l_, r_ = conc(left), conc(right)
            if isinstance(l_, tuple):
                l_ = tuple(conc(x) for x in l_)
            if isinstance(r_, tuple):
                r_ = tuple(conc(x) for x in r_)
            if isinstance(op, ast.Eq):
                r = l_ == r_
            elif isinstance(op, ast.NotEq):
                r = l_ != r_
            elif isinstance(op, ast.Is):
                r = l_ is r_
            elif isinstance(op, ast.IsNot):
                r = l_ is not r_
            elif isinstance(op, ast.In):
                r = l_ in r_
            elif isinstance(op, ast.NotIn):
                r = l_ not in r_
            elif isinstance(op, (ast.Lt, ast.LtE, ast.Gt, ast.GtE)) and isinstance(l_, int) and isinstance(r_, int) and not isinstance(left, _S) and not isinstance(right, _S):
                r = {ast.Lt: l_ < r_, ast.LtE: l_ <= r_, ast.Gt: l_ > r_, ast.GtE: l_ >= r_}[type(op)]
            else:
                raise _NoFold(type(op).__name__)
            if not r:
                return False
            left = right
        return True
    if isinstance(e, ast.Attribute) and isinstance(e.value, ast.Name) and e.value.id == 'types' and e.attr == 'NoneType':
        return type(None)
    raise _NoFold(type(e).__name__)


def r3_lag_lead_table(R) -> None:
    from fsa.gated import SymExec, canon
    q = f'{P}.Symbol.combine'
    f = Fn(R, q)
    ret = [r for r in f.returns() if is_call(r.ast.value, 'Symbol') or method_call(r.ast.value, '_replace')]
    if not ret:
        raise Unsupported(f'{q}: no `return Symbol(...)`')
    se = f.symexec()
    helper = None
    for nm, fn, attr in (('lags', 'min', 'lags'), ('leads', 'max', 'leads')):
        kw = kwarg(ret[0].ast.value, nm)
        if kw is None:
            R.violation(q, f'combine:{nm}:missing', f'the combined symbol is built without `{nm}=`', where=f.where(ret[0]), mismatch=True)
            continue
        c = se.value(ret[0].ast, kw)
        if not (isinstance(c, ast.Call) and isinstance(c.func, ast.Name) and len(c.args) == 3):
            if text(c) in (f'self.{attr}', f'other.{attr}'):
                R.violation(q, f'combine:{nm}:{text(c)}', f'`{nm}` of the combined symbol is just `{text(c)}`: the other mention is ignored', where=f.where(ret[0]))
                continue
            # the helper was read in place: the table is evaluated on the value itself, per pair of operand types
            samples_ = {'type(None)': None, 'int': 0, 'str': ''}
            want_ = {('type(None)', 'type(None)'): ['None'], ('int', 'int'): [f'{fn}(this, that, 0)', f'{fn}(0, this, that)', f'{fn}(this, 0, that)', f'{fn}(that, this, 0)'],
                     ('str', 'str'): ['0'], ('int', 'str'): ['this'], ('str', 'int'): ['that']}

            class _Ops(ast.NodeTransformer):
                def visit_Attribute(self, node):
                    if text(node) == f'self.{attr}':
                        return ast.Name(id='__this', ctx=ast.Load())
                    if text(node) == f'other.{attr}':
                        return ast.Name(id='__that', ctx=ast.Load())
                    return self.generic_visit(node)
            import copy as _copy
            cv = ast.fix_missing_locations(_Ops().visit(_copy.deepcopy(canon(c))))
            for (ka, kb), vs in want_.items():
                try:
                    got = _show(_peval(cv, {'__this': _S('this', samples_[ka]), '__that': _S('that', samples_[kb])}))
                except (_NoFold, TypeError, IndexError, KeyError, ValueError) as e_:
                    raise Unsupported(f'{q}: `{nm}` of the combined symbol (`{text(c)[:60]}`) cannot be evaluated over the operand types ({type(e_).__name__}: {e_})')
                shown = f'({ka}, {kb})'
                R.check(got in vs, q, f'row:{nm}:{shown}:{got}', f'{nm}: {shown} -> {vs[0]}',
                        f'{nm}: a pair of offsets of types {shown} combines to `{got}`, expected `{vs[0]}`' + (
                            ' (an integer lag/lead met by a named-period index must be kept)' if 'str' in (ka, kb) and 'int' in (ka, kb) else ''), where=f.where(ret[0]))
            continue
        helper = helper or c.func.id
        ok = c.func.id == helper and text(c.args[0]) == f'self.{attr}' and text(c.args[1]) == f'other.{attr}' and text(c.args[2]) == fn and not c.keywords
        R.check(ok, q, f'combine:{nm}:{text(c)}', f'{nm} combined with {fn}() over self.{attr}, other.{attr}',
                f'`{nm} = {text(c)}`: expected {helper}(self.{attr}, other.{attr}, {fn})', where=f.where(ret[0]))
    if helper is None:
        return
    g = Fn(R, q + '.<locals>.' + helper)
    ps = g.fi.params()
    if len(ps) != 3:
        raise Unsupported(f'{g.q}: expected (this, that, function)')
    this, that, fun = ps
    gs = g.symexec(keep_raise=True)
    grets = g.returns()
    if len(grets) != 1 or grets[0].ast.value is None:
        raise Unsupported(f'{g.q}: expected one return')
    v = canon(gs.value(grets[0].ast, grets[0].ast.value))
    # the table is decided by folding each row test for every pair of operand types (finite domain)
    samples = {'type(None)': None, 'int': 0, 'str': ''}
    rows: Dict[tuple, str] = {}
    # a dispatch table {(type, type): lambda: result} indexed by the pair of operand types
    if isinstance(v, ast.Call) and not v.args and not v.keywords and isinstance(v.func, ast.Subscript) and isinstance(v.func.value, ast.Dict) \
            and all(k is not None and isinstance(val, ast.Lambda) and not val.args.args for k, val in zip(v.func.value.keys, v.func.value.values)):
        try:
            table = {_fold_types(k, {}): text(val.body) for k, val in zip(v.func.value.keys, v.func.value.values)}
            for ka, va in samples.items():
                for kb, vb in samples.items():
                    rows[(ka, kb)] = table.get(_fold_types(v.func.slice, {this: va, that: vb}), '<raise>')
        except (_NoFold, TypeError, IndexError, KeyError) as e_:
            raise Unsupported(f'{g.q}: dispatch table `{text(v)[:70]}` cannot be folded over the operand types ({e_})')
        v = ast.Constant(value=None)  # rows are complete
    for ka, va in ([] if rows else samples.items()):
        for kb, vb in samples.items():
            cur = v
            try:
                while isinstance(cur, ast.IfExp):
                    cur = cur.body if _fold_types(cur.test, {this: va, that: vb}) else cur.orelse
            except (_NoFold, TypeError, IndexError, KeyError) as e_:
                raise Unsupported(f'{g.q}: row test `{text(cur.test)[:70]}` cannot be folded over the operand types ({e_})')
            rows[(ka, kb)] = text(cur)
    if len(set(rows.values())) <= 1:
        raise Unsupported(f'{g.q}: the result `{text(v)[:80]}` is not a table of rows over the types of the two operands')
    want = {
        ('type(None)', 'type(None)'): ['None'],
        ('int', 'int'): [f'{fun}({this}, {that}, 0)', f'{fun}(0, {this}, {that})', f'{fun}({this}, 0, {that})', f'{fun}({that}, {this}, 0)'],
        ('str', 'str'): ['0'],
        ('int', 'str'): [this],
        ('str', 'int'): [that],
    }
    for k, vs in want.items():
        got = rows.get(k)
        shown = f'({k[0]}, {k[1]})'
        if got is None or got == '<raise>':
            R.violation(g.q, f'row-missing:{shown}', f'no row for {shown} in {helper}', where=g.fi.where, mismatch=True)
        else:
            R.check(got in vs, g.q, f'row:{shown}:{got}', f'{shown} -> {vs[0]}',
                    f'row {shown} yields `{got}`, expected `{vs[0]}`' + (' (the implicit 0 keeps a lead-only variable from producing a negative lag length)' if k == ('int', 'int') else ''),
                    where=g.fi.where, decided=True)


def r4_double_definition(R) -> None:
    q = f'{P}.Symbol.combine.<locals>.resolve_strings'
    f = R.repo.func(f'{P}.Symbol.combine')
    if R.repo.has_func(q) if hasattr(R.repo, 'has_func') else _has(R, q):
        g = Fn(R, q)
        rs = g.raises('ParserError')
        if R.require(q, len(rs), 'raise ParserError for two different definitions', fi=g.fi, pred=lambda x: isinstance(x, ast.Raise)):
            atoms = {text(a): truth for (a, truth, _t) in g.guard_atoms(rs[0].id)}
            ps = [p for p in g.fi.params()][:2]
            a0, a1 = (ps + ['old', 'new'])[:2] if len(ps) >= 2 else ('old', 'new')
            ok = g.holds(rs[0].id, f'{a0} is not None') and g.holds(rs[0].id, f'{a1} is not None') and g.holds(rs[0].id, f'{a0} != {a1}')
            R.check(bool(ok), q, 'double-def-guard', 'two different non-None definitions raise ParserError',
                    f'ParserError guard is {atoms}', where=g.where(rs[0]))
        # by role: the call whose arguments are the two mentions' `<field>` (whatever the result is called)
        calls = {}
        for n in iter_own_nodes(f.node):
            if isinstance(n, ast.Call) and is_call(n, 'resolve_strings') and len(n.args) == 2 and isinstance(n.args[0], ast.Attribute):
                calls.setdefault(n.args[0].attr, n)
        for nm in ('equation', 'code'):
            c = calls.get(nm)
            ok = c is not None and [text(a) for a in c.args] == [f'self.{nm}', f'other.{nm}']
            R.check(ok, f.qualname, f'resolve:{nm}', f'{nm} is resolved with the double-definition check',
                    f'`{nm}` is not resolve_strings(self.{nm}, other.{nm})', where=f.where)
        return
    # the resolution is written in (or read into) combine itself: decide it per field, by role - a ParserError raise reached
    # exactly when both definitions are present and differ
    c = Fn(R, f'{P}.Symbol.combine')
    rs = c.raises('ParserError')
    if not rs:
        R.inconclusive(c.q, 'double-def: no ParserError raise readable in Symbol.combine or its helpers')
        return
    for nm in ('equation', 'code'):
        a0, a1 = f'self.{nm}', f'other.{nm}'
        hit = [r_ for r_ in rs if c.holds(r_.id, f'{a0} is not None') and c.holds(r_.id, f'{a1} is not None') and
               (c.holds(r_.id, f'{a0} != {a1}') or c.holds(r_.id, f'{a1} != {a0}'))]
        R.check(bool(hit), c.q, f'resolve:{nm}', f'two different non-None `{nm}` definitions raise ParserError',
                f'no ParserError raise in combine is guarded by `{a0} is not None and {a1} is not None and {a0} != {a1}`: '
                f'a second, different {nm} for the same variable is not rejected', where=c.fi.where)


def _has(R, q: str) -> bool:
    try:
        R.repo.func(q)
        return True
    except AnchorMissing:
        return False


FIELDS = {'endogenous': 'ENDOGENOUS', 'exogenous': 'EXOGENOUS', 'parameters': 'PARAMETER', 'errors': 'ERROR'}
NON_INDEXED = {'FUNCTION', 'KEYWORD', 'VERBATIM'}


def _stmt_of(fnode: ast.AST, se, node: ast.AST) -> ast.AST:
    """Innermost statement visited by the symbolic evaluator that contains `node`."""
    best = None
    for s_ in ast.walk(fnode):
        if isinstance(s_, ast.stmt) and id(s_) in se.before and any(x is node for x in ast.walk(s_)):
            if best is None or any(x is s_ for x in ast.walk(best)):
                best = s_
    if best is None:
        raise Unsupported('statement of the template call not visited by the symbolic evaluator')
    return best


def _template_call(fi, fields) -> ast.Call:
    cands = [c for c in iter_own_nodes(fi.node) if method_call(c, 'format') and set(fields) <= {k.arg for k in c.keywords}]
    if len(cands) != 1:
        raise AnchorMissing(f'{fi.qualname}: expected one template .format(...) call with fields {sorted(fields)}, found {len(cands)}')
    return cands[0]


def _const_sequence(R, f, e: ast.AST) -> Optional[List[ast.AST]]:
    """The elements of `e` when it is a sequence fixed by the source: a tuple/list display, a module-level name bound to
    one, the enumeration `Type` itself (members in declaration order), or a comprehension that filters such a sequence by
    membership in another (`[t for t in Type if t in NAME_TYPES]`)."""
    if isinstance(e, (ast.Tuple, ast.List)):
        return list(e.elts)
    if isinstance(e, ast.Name):
        if e.id == 'Type':
            return [ast.parse(f'Type.{k}', mode='eval').body for k in fold_enum(R.repo, P, 'Type')]
        for modname in (f.fi.module.name, P):
            for s_ in R.repo.module(modname).tree.body:
                tgt = s_.targets[0] if isinstance(s_, ast.Assign) and len(s_.targets) == 1 else (s_.target if isinstance(s_, ast.AnnAssign) else None)
                if tgt is not None and text(tgt) == e.id and isinstance(getattr(s_, 'value', None), (ast.Tuple, ast.List)):
                    return list(s_.value.elts)
    return None


def read_tables(R, f, v: ast.AST) -> ast.AST:
    """`v` with look-ups in tables that the source fixes read through: `{t: V(t) for t in <fixed sequence> [if t in <fixed>]}[K]`
    is `V(K)`, its `.values()` the list of `V(t)` in the order of the sequence (so: in the order the *source* iterates -
    declaration order for an enumeration), `(a, b, c)[1]` is `b`."""
    import copy as _copy
    from fsa.summ import _subst

    def keys_of(dc: ast.DictComp) -> Optional[List[ast.AST]]:
        if len(dc.generators) != 1 or not isinstance(dc.generators[0].target, ast.Name) or text(dc.key) != dc.generators[0].target.id:
            return None
        g = dc.generators[0]
        seq = _const_sequence(R, f, g.iter)
        if seq is None:
            return None
        for c_ in g.ifs:
            if isinstance(c_, ast.Compare) and len(c_.ops) == 1 and isinstance(c_.ops[0], ast.In) and text(c_.left) == g.target.id:
                allowed = _const_sequence(R, f, c_.comparators[0])
                if allowed is None:
                    return None
                at = {text(x) for x in allowed}
                seq = [x for x in seq if text(x) in at]
            else:
                return None
        return seq

    class T(ast.NodeTransformer):
        def visit_Subscript(self, node):
            self.generic_visit(node)
            if isinstance(node.value, ast.DictComp):
                ks = keys_of(node.value)
                if ks is not None and text(node.slice) in {text(k) for k in ks}:
                    return _subst(node.value.value, {node.value.generators[0].target.id: node.slice})
            if isinstance(node.value, (ast.Tuple, ast.List)) and isinstance(node.slice, ast.Constant) and isinstance(node.slice.value, int) \
                    and 0 <= node.slice.value < len(node.value.elts):
                return node.value.elts[node.slice.value]
            # `a, b, c = (V(t) for t in <fixed sequence>)`: the i-th name gets V(<i-th element>)
            if isinstance(node.value, (ast.GeneratorExp, ast.ListComp)) and isinstance(node.slice, ast.Constant) and isinstance(node.slice.value, int) \
                    and len(node.value.generators) == 1 and isinstance(node.value.generators[0].target, ast.Name) and not node.value.generators[0].ifs:
                seq = _const_sequence(R, f, node.value.generators[0].iter)
                if seq is not None and 0 <= node.slice.value < len(seq):
                    return _subst(node.value.elt, {node.value.generators[0].target.id: seq[node.slice.value]})
            return node

        def visit_Call(self, node):
            self.generic_visit(node)
            if method_call(node, 'values') and not node.args and isinstance(node.func.value, ast.DictComp):
                ks = keys_of(node.func.value)
                if ks is not None:
                    dc = node.func.value
                    return ast.List(elts=[_subst(dc.value, {dc.generators[0].target.id: k}) for k in ks], ctx=ast.Load())
            return node

    return ast.fix_missing_locations(T().visit(_copy.deepcopy(v)))


def _check_name_list(R, q, nm, ty, v, sym_param, where) -> str:
    """`v` (canonical value) must be [s.name for s in symbols if s.type == Type.<ty>]."""
    from fsa.match import atoms_equal, nnf_atoms
    from fsa.gated import canon as _canon
    lc = _canon(v, fuse=True)
    if not (isinstance(lc, ast.ListComp) and len(lc.generators) == 1):
        raise Unsupported(f'{q}: value of `{nm}` is `{text(v)[:70]}`, not a comprehension')
    g = lc.generators[0]
    tv = text(g.target)
    conds = [(a_, tr) for c_ in g.ifs for (a_, tr) in nnf_atoms(c_, True)]
    sel = [a_ for (a_, tr) in conds if tr and isinstance(a_, ast.Compare) and len(a_.ops) == 1 and isinstance(a_.ops[0], ast.Eq)
           and f'{tv}.type' in (text(a_.left), text(a_.comparators[0]))]
    ok = text(lc.elt) == f'{tv}.name' and text(g.iter) == sym_param and len(conds) == 1 and len(sel) == 1 and atoms_equal(sel[0], expr(f'{tv}.type == Type.{ty}'))
    R.check(ok, q, f'name-list:{nm}:{text(lc)}', f'{nm} = names of symbols of type {ty}, in symbol order',
            f'`{nm}` is `{text(lc)[:90]}`: it does not select exactly the names of Type.{ty} symbols in symbol order', where=where)
    return text(lc)


def _check_lag_spec(R, q, nm, agg, floor, v, sym_param, where) -> None:
    """`v` must be  max(abs(<agg>(s.<nm> for s in NIS)) if NIS else 0, <floor>) if <nm> is None else <nm>."""
    other = 'max' if agg == 'min' else 'min'
    import copy as _copy
    # two spellings of one value are read the same: `x if nm is not None else c` as `c if nm is None else x`, and
    # `f(agg(gen, default=0))` as `f(agg(gen)) if <the iterable> else f(0)` (f = abs: 0)
    if isinstance(v, ast.IfExp) and text(v.test) == f'{nm} is not None':
        v = ast.IfExp(test=ast.parse(f'{nm} is None', mode='eval').body, body=v.orelse, orelse=v.body)

    class _Default(ast.NodeTransformer):
        def visit_Call(self, node):
            self.generic_visit(node)
            if is_call(node, 'abs') and len(node.args) == 1 and is_call(node.args[0], 'min', 'max') and len(node.args[0].args) == 1 \
                    and isinstance(node.args[0].args[0], (ast.GeneratorExp, ast.ListComp)) and len(node.args[0].keywords) == 1 \
                    and node.args[0].keywords[0].arg == 'default' and is_const(node.args[0].keywords[0].value, 0) \
                    and len(node.args[0].args[0].generators) == 1 and not node.args[0].args[0].generators[0].ifs:
                inner_ = _copy.deepcopy(node)
                inner_.args[0].keywords = []
                return ast.IfExp(test=_copy.deepcopy(node.args[0].args[0].generators[0].iter), body=inner_, orelse=ast.Constant(value=0))
            return node

    v = ast.fix_missing_locations(_Default().visit(_copy.deepcopy(v)))
    if not (isinstance(v, ast.IfExp) and text(v.test) == f'{nm} is None'):
        if text(v) == nm:
            R.violation(q, f'{nm}-aggregate', f'`{nm}` is never computed from the symbols (no `{nm} is None` branch)', where=where, mismatch=True)
            return
        if any(isinstance(x, ast.Name) and x.id in (floor,) for x in ast.walk(v)) or any(is_call(x, 'abs', 'min', 'max') for x in ast.walk(v)):
            R.violation(q, f'{nm}-rebound-outside:{text(v)[:60]}', f'`{nm}` is `{text(v)[:90]}` whatever was passed: an explicit {nm}= does not replace the computed value',
                        where=where)
            return
        raise Unsupported(f'{q}: value of `{nm}` is `{text(v)[:70]}`')
    R.check(text(v.orelse) == nm, q, f'{nm}-rebound-outside:{text(v.orelse)[:60]}', f'an explicit {nm}= is used as given',
            f'an explicit `{nm}` becomes `{text(v.orelse)[:80]}`: it does not replace the computed value unchanged', where=where)
    body = v.body
    inner = None
    if is_call(body, 'max') and len(body.args) == 2 and not body.keywords and any(text(a_) == floor for a_ in body.args):
        inner = [a_ for a_ in body.args if text(a_) != floor][0]
        R.ok(q, f'{floor} only raises the computed value')
    else:
        R.violation(q, f'{nm}-floor', f'`{nm}` computed from the symbols is `{text(body)[:80]}`: not max(<computed>, {floor})', where=where, mismatch=True)
        inner = body
    # inner: abs(agg(...)) if NIS else 0
    if isinstance(inner, ast.IfExp):
        comp, zero, nis_test = inner.body, inner.orelse, inner.test
        if isinstance(nis_test, ast.UnaryOp) and isinstance(nis_test.op, ast.Not):
            comp, zero, nis_test = zero, comp, nis_test.operand
        R.check(is_const(zero, 0), q, f'{nm}-zero', f'{nm.upper()} = 0 without variable-like symbols', f'fallback of `{nm}` is `{text(zero)}`, not 0', where=where)
    else:
        comp, nis_test = inner, None
        R.violation(q, f'{nm}-zero', f'no `{nm} = 0` fallback for a model without variable-like symbols (`{text(inner)[:60]}`)', where=where, mismatch=True)
    gen = None
    if is_call(comp, 'abs') and len(comp.args) == 1 and is_call(comp.args[0], 'min', 'max') and len(comp.args[0].args) == 1 \
            and isinstance(comp.args[0].args[0], (ast.GeneratorExp, ast.ListComp)):
        used = dotted(comp.args[0].func)
        gen = comp.args[0].args[0]
        R.check(used == agg, q, f'{nm}-aggregate:{used}', f'{nm.upper()} = |{agg} {nm}| over variable-like symbols',
                f'`{nm}` is abs({used}(...)), expected abs({agg}(...))', where=where)
    else:
        if any(is_call(x, other, agg, 'abs') for x in ast.walk(comp)) or isinstance(comp, ast.Constant):
            R.violation(q, f'{nm}-aggregate:{text(comp)[:50]}', f'`{nm}` is computed as `{text(comp)[:80]}`, not abs({agg}(s.{nm} for s in <variable-like symbols>))', where=where, mismatch=True)
            return
        raise Unsupported(f'{q}: computed `{nm}` is `{text(comp)[:70]}`')
    g = gen.generators[0]
    tv = text(g.target)
    R.check(text(gen.elt) == f'{tv}.{nm}' and len(gen.generators) == 1 and not g.ifs, q, f'{nm}-element:{text(gen.elt)}', f'the aggregate runs over s.{nm}',
            f'the aggregate runs over `{text(gen.elt)}`, not `{tv}.{nm}`', where=where)
    nis = g.iter
    if nis_test is not None:
        R.check(text(nis_test) == text(nis), q, f'{nm}-emptiness', 'the fallback applies exactly when there is no variable-like symbol',
                f'the fallback is chosen by `{text(nis_test)[:60]}`, the aggregate runs over `{text(nis)[:60]}`', where=where)
    # NIS = [s for s in symbols if s.type not in (FUNCTION, KEYWORD, VERBATIM)]
    from fsa.match import nnf_atoms

    def _parts(e_):
        # `[s for s in X if A] + [s for s in X if B]`: for an aggregate (min / max) the order does not matter, so the sum of
        # selections from one list by one-atom type tests is the selection by `s.type in (...)`
        if isinstance(e_, ast.BinOp) and isinstance(e_.op, ast.Add):
            l_, r_ = _parts(e_.left), _parts(e_.right)
            return None if l_ is None or r_ is None else l_ + r_
        if isinstance(e_, ast.ListComp) and len(e_.generators) == 1 and text(e_.elt) == text(e_.generators[0].target) and len(e_.generators[0].ifs) == 1:
            c_ = e_.generators[0].ifs[0]
            if isinstance(c_, ast.Compare) and len(c_.ops) == 1 and isinstance(c_.ops[0], ast.Eq) and text(c_.left) == f'{text(e_.generators[0].target)}.type':
                return [(text(e_.generators[0].target), text(e_.generators[0].iter), c_.comparators[0], e_)]
        return None

    ps_ = _parts(nis) if isinstance(nis, ast.BinOp) else None
    if ps_ and len({(a_, b_) for (a_, b_, _c, _d) in ps_}) == 1 and len({text(c_) for (_a, _b, c_, _d) in ps_}) == len(ps_):
        first = ps_[0][3]
        nis = ast.ListComp(elt=first.elt, generators=[ast.comprehension(target=first.generators[0].target, iter=first.generators[0].iter, is_async=0, ifs=[
            ast.Compare(left=ast.parse(f'{ps_[0][0]}.type', mode='eval').body, ops=[ast.In()], comparators=[ast.Tuple(elts=[c_ for (_a, _b, c_, _d) in ps_], ctx=ast.Load())])])])
        ast.fix_missing_locations(nis)
    if not (isinstance(nis, ast.ListComp) and len(nis.generators) == 1 and text(nis.elt) == text(nis.generators[0].target)):
        raise Unsupported(f'{q}: the symbols `{nm}` is taken over are `{text(nis)[:70]}`')
    ng = nis.generators[0]
    conds = [(a_, tr) for c_ in ng.ifs for (a_, tr) in nnf_atoms(c_, True)]
    # which Type members pass the filter: evaluate the membership atoms for each member of the enumeration
    enum_vals = fold_enum(R.repo, P, 'Type')
    members = set(enum_vals)
    tvt = f'{text(ng.target)}.type'
    included = set(members)
    for (a_, tr) in conds:
        if not (isinstance(a_, ast.Compare) and len(a_.ops) == 1 and text(a_.left) == tvt):
            raise Unsupported(f'{q}: filter of the variable-like symbols `{text(nis)[:80]}` not modelled')
        c0 = a_.comparators[0]
        if isinstance(a_.ops[0], ast.In) and isinstance(c0, (ast.Tuple, ast.List, ast.Set)):
            named = {text(e).split('.')[-1] for e in c0.elts}
        elif isinstance(a_.ops[0], ast.Eq):
            named = {text(c0).split('.')[-1]}
        elif isinstance(a_.ops[0], (ast.Lt, ast.LtE, ast.Gt, ast.GtE)) and text(c0).split('.')[-1] in enum_vals and all(isinstance(v_, int) for v_ in enum_vals.values()):
            # ordering of an IntEnum: decided on the folded member values
            import operator as _op
            fn_ = {ast.Lt: _op.lt, ast.LtE: _op.le, ast.Gt: _op.gt, ast.GtE: _op.ge}[type(a_.ops[0])]
            pivot = enum_vals[text(c0).split('.')[-1]]
            named = {k_ for k_, v_ in enum_vals.items() if fn_(v_, pivot)}
        else:
            raise Unsupported(f'{q}: filter of the variable-like symbols `{text(nis)[:80]}` not modelled')
        if not named <= members:
            raise Unsupported(f'{q}: filter names {sorted(named - members)} which are not Type members')
        included &= named if tr else (members - named)
    excl = members - included
    R.check(text(ng.iter) == sym_param and excl == NON_INDEXED, q, f'non-indexed:{nm}:{sorted(excl)}', 'lags/leads are taken over everything except functions, keywords, verbatim',
            f'`{nm}` is taken over symbols of `{text(ng.iter)}` excluding {sorted(excl)}, expected all of `{sym_param}` except {sorted(NON_INDEXED)} '
            f'(parameters and errors written with an index carry lags/leads too)', where=where,
            decided=(text(ng.iter) == sym_param))      # the members were enumerated: which types are left out is a value, not a shape


def r5_definition(R) -> None:
    from fsa.gated import SymExec, canon
    q = f'{P}.build_model_definition'
    f = Fn(R, q)
    sym_param = (f.fi.params() + ['symbols'])[0]
    se = f.symexec(deep=True)
    call = _template_call(f.fi, list(FIELDS) + ['lags', 'leads', 'equations'])
    st = _stmt_of(f.fi.node, se, call)
    where = f'{f.fi.module.relpath}:{call.lineno}'
    vals = {k.arg: canon(read_tables(R, f, f.groupby_read(canon(se.value(st, k.value))))) for k in call.keywords if k.arg}
    py_forms = {}
    for nm, ty in FIELDS.items():
        py_forms[nm] = _check_name_list(R, q, nm, ty, vals[nm], sym_param, where)
    for nm, agg, floor in (('lags', 'min', 'min_lags'), ('leads', 'max', 'min_leads')):
        _check_lag_spec(R, q, nm, agg, floor, vals[nm], sym_param, where)
        py_forms[nm] = text(vals[nm])
    # the template receiving them is one of the two model templates
    recv = canon(se.value(st, call.func.value))
    tnames = {x.id for x in ast.walk(recv) if isinstance(x, ast.Name)}
    R.check({'MODEL_TEMPLATE_TYPED', 'MODEL_TEMPLATE_UNTYPED'} & tnames and tnames <= {'MODEL_TEMPLATE_TYPED', 'MODEL_TEMPLATE_UNTYPED', 'with_type_hints'}, q,
            'template:' + text(recv)[:60], 'the fields are formatted into MODEL_TEMPLATE_TYPED / MODEL_TEMPLATE_UNTYPED',
            f'the fields are formatted into `{text(recv)[:80]}`', where=where)
    # NAMES order in both templates
    fd = folder(R.repo, P)
    for tn in ('MODEL_TEMPLATE_TYPED', 'MODEL_TEMPLATE_UNTYPED'):
        tpl = fd.get(tn)
        filled = tpl.format(endogenous='[]', exogenous='[]', parameters='[]', errors='[]', lags='0', leads='0', equations='        pass')
        cls = ast.parse(filled).body[0]
        vals = {}
        for s in cls.body:
            if isinstance(s, ast.Assign):
                vals[text(s.targets[0])] = text(s.value)
            elif isinstance(s, ast.AnnAssign):
                vals[text(s.target)] = text(s.value)
        R.check(vals.get('NAMES') == 'ENDOGENOUS + EXOGENOUS + PARAMETERS + ERRORS', f'{P}.{tn}', f'names-order:{vals.get("NAMES")}',
                'NAMES = ENDOGENOUS + EXOGENOUS + PARAMETERS + ERRORS', f'{tn}: NAMES = {vals.get("NAMES")}')
        # placeholders land on the right attributes (fill each field with a marker, read the class body)
        fields = ('endogenous', 'exogenous', 'parameters', 'errors', 'lags', 'leads')
        marked = tpl.format(equations='        pass', **{k: repr('@' + k + '@') for k in fields})
        mcls = ast.parse(marked).body[0]
        mvals = {}
        for s_ in mcls.body:
            if isinstance(s_, ast.Assign):
                mvals[text(s_.targets[0])] = text(s_.value)
            elif isinstance(s_, ast.AnnAssign) and s_.value is not None:
                mvals[text(s_.target)] = text(s_.value)
        for attr, field in (('ENDOGENOUS', 'endogenous'), ('EXOGENOUS', 'exogenous'), ('PARAMETERS', 'parameters'), ('ERRORS', 'errors'), ('LAGS', 'lags'), ('LEADS', 'leads')):
            got = mvals.get(attr)
            R.check(got == repr('@' + field + '@'), f'{P}.{tn}', f'field:{attr}:{got}', f'{attr} is filled from {{{field}}}',
                    f'{tn}: {attr} is `{got}`, expected the {{{field}}} field')
    # Fortran twin: the same name lists (in the same order) and the same lag/lead lengths
    ft = Fn(R, 'fsic.fortran.build_fortran_definition')
    fq = ft.q
    fse = ft.symexec(deep=True)
    fsym = (ft.fi.params() + ['symbols'])[0]
    fcall = _template_call(ft.fi, list(FIELDS) + ['lags', 'leads', 'equations'])
    fst = _stmt_of(ft.fi.node, fse, fcall)
    fwhere = f'{ft.fi.module.relpath}:{fcall.lineno}'
    fvals = {k.arg: read_tables(R, ft, ft.groupby_read(canon(fse.value(fst, k.value)))) for k in fcall.keywords if k.arg}
    # the same specification is checked on the Fortran side (not a textual comparison: either side may be spelled differently)
    for nm, agg, floor in (('lags', 'min', 'min_lags'), ('leads', 'max', 'min_leads')):
        _check_lag_spec(R, fq, nm, agg, floor, canon(fvals[nm]), fsym, fwhere)
    for nm, ty in FIELDS.items():
        v = fvals[nm]
        lists = [x for x in ast.walk(v) if isinstance(x, ast.ListComp) and text(x.elt).endswith('.name')]
        if not lists:
            raise Unsupported(f'{fq}: field `{nm}` = `{text(v)[:70]}` does not mention a list of symbol names')
        for x in lists[:1]:
            _check_name_list(R, fq, nm, ty, canon(x), fsym, fwhere)
    # numbering: variables are numbered endogenous, exogenous, parameters, errors (the order of NAMES)
    got = numbering_order(R, ft, fse)
    if got is not None and '?' in got:
        raise Unknown(f'{fq}: which kinds of names are numbered, in which order, was not read (read as {got})')
    if got is not None:
        want = list(FIELDS.values())
        R.check(got == want, fq, 'twin-numbering', 'Fortran variable numbers follow ENDOGENOUS + EXOGENOUS + PARAMETERS + ERRORS',
                f'variables are numbered over `{[str(g_)[:40] for g_ in got]}`', where=ft.fi.where, decided=True)


def numbering_order(R, ft, fse) -> Optional[List[str]]:
    """The Type members whose name lists are chained, in order, to number the variables of the Fortran module: read on the
    gated value of what `enumerate(...)` runs over (chain(a, b, c, d), chain.from_iterable(<table>.values()), ...)."""
    from fsa.gated import canon
    ens = [x for x in ast.walk(ft.fi.node) if is_call(x, 'enumerate') and x.args and (is_call(x.args[0], 'itertools.chain', 'chain', 'itertools.chain.from_iterable', 'chain.from_iterable'))]
    if not ens:
        return None
    ch = ens[0].args[0]
    cst = _stmt_of(ft.fi.node, fse, ch)
    if is_call(ch, 'itertools.chain', 'chain'):
        parts = [read_tables(R, ft, ft.groupby_read(canon(fse.value(cst, a_)))) for a_ in ch.args]
    else:
        seq = read_tables(R, ft, ft.groupby_read(canon(fse.value(cst, ch.args[0]))))
        if not isinstance(seq, (ast.List, ast.Tuple)):
            if any(isinstance(x, ast.Call) and isinstance(x.func, ast.Attribute) and x.func.attr == 'values' for x in ast.walk(seq)):
                # the values of a dictionary whose key order the source does not fix (filled while passing over the symbols)
                return ['<insertion order of `%s`: depends on which type appears first among the symbols>' % text(seq)[:50]]
            raise Unsupported(f'{ft.q}: the variables are numbered over `{text(seq)[:70]}`')
        parts = list(seq.elts)
    got = []
    for v_ in parts:
        v_ = canon(v_, fuse=True)
        g_ = v_.generators[0] if isinstance(v_, ast.ListComp) and len(v_.generators) == 1 else None
        sel = text(g_.ifs[0]) if g_ is not None and len(g_.ifs) == 1 else '?'
        got.append(sel.split('Type.')[-1] if 'Type.' in sel else sel)
    return got


def result_dict(f) -> Optional[str]:
    """The local dictionary whose values a parser function returns (`symbols`), by role."""
    res = set()
    for r in f.returns():
        if r.ast.value is None:
            continue
        for x in ast.walk(r.ast.value):
            if method_call(x, 'values') and isinstance(x.func.value, ast.Name):
                res.add(x.func.value.id)
    return sorted(res)[0] if len(res) == 1 else None


def classify_store(f, n, D: str) -> Tuple[str, str]:
    """A store `D[k] = v` of a parser function: ('merge' | 'insert' | 'overwrite' | 'unknown', key text)."""
    t = n.ast.targets[0]
    ke = f.etext(n.id, t.slice, stop=(D,))
    v = f.expand(n.id, n.ast.value, stop=(D,))
    present = f.holds(n.id, f'{text(t.slice)} in {D}', True) or f.xholds(n.id, f'{ke} in {D}', True, stop=(D,))
    absent = f.holds(n.id, f'{text(t.slice)} in {D}', False) or f.xholds(n.id, f'{ke} in {D}', False, stop=(D,))
    for x in ast.walk(v):
        if method_call(x, 'combine') and len(x.args) == 1:
            r = x.func.value
            if method_call(r, 'get') and text(r.func.value) == D and len(r.args) == 2 and text(r.args[0]) == ke and text(r.args[1]) == text(x.args[0]):
                return ('merge', ke)
            if isinstance(r, ast.Subscript) and text(r.value) == D and text(r.slice) == ke and present:
                return ('merge', ke)
            return ('unknown', ke)
    if any(isinstance(y, ast.Name) and y.id == D for y in ast.walk(v)):
        return ('unknown', ke)
    return ('insert' if absent else 'overwrite', ke)


def r6_first_appearance(R) -> None:
    for q in (f'{P}.parse_model', f'{P}.parse_equation'):
        f = Fn(R, q)
        D = result_dict(f)
        if D is None:
            raise Unknown(f'{q}: the dictionary whose values are returned was not found')
        merges = [n for n in f.cfg.nodes if n.kind == 'stmt' and isinstance(n.ast, ast.Assign) and isinstance(n.ast.targets[0], ast.Subscript)
                  and text(n.ast.targets[0].value) == D]
        if not R.require(q, len(merges), f'{D}[name] = {D}.get(name, symbol).combine(symbol)', fi=f.fi, pred=lambda x: method_call(x, 'combine')):
            continue
        n_merge = 0
        for n in merges:
            kind, ke = classify_store(f, n, D)
            if kind == 'merge':
                n_merge += 1
                R.ok(q, f'`{text(n.ast)[:70]}`: a repeated name is merged into its first entry (position of first appearance kept)')
            elif kind == 'insert':
                R.ok(q, f'`{text(n.ast)[:70]}`: made only when the name has no entry yet (first appearance)')
            elif kind == 'unknown' and any(method_call(x, 'combine') for x in ast.walk(n.ast.value)):
                R.violation(q, 'merge:' + text(n.ast.value), f'`{text(n.ast)}` is not {D}.get({ke}, s).combine(s): the symbol is not combined with the entry of its own name',
                            where=f.where(n), mismatch=True)
            # a plain overwrite keeps the position of first appearance (dict semantics); what it loses is C13.R5c's business
        R.expect(q, n_merge, 1, 'stores that merge a repeated name into its entry')
        # removal or reordering of entries
        for n in f.cfg.nodes:
            if n.ast is None or n.kind != 'stmt':
                continue
            for x in ast.walk(n.ast):
                if (isinstance(x, ast.Delete) and any(isinstance(t_, ast.Subscript) and text(t_.value) == D for t_ in x.targets)) or \
                        (method_call(x, 'pop', 'popitem', 'move_to_end', 'clear') and text(x.func.value) == D):
                    R.violation(q, 'entry-moved:' + text(x)[:50], f'`{text(x)[:60]}` removes or moves an entry of `{D}`: the position of first appearance is lost',
                                where=f.where(n))
        rets = [r for r in f.returns() if r.ast.value is not None and any(isinstance(x, ast.Name) and x.id == D for x in ast.walk(r.ast.value))]
        for r in rets:
            tv = text(r.ast.value)
            pieces = []
            def flat(e):
                if isinstance(e, ast.BinOp) and isinstance(e.op, ast.Add):
                    flat(e.left); flat(e.right)
                else:
                    pieces.append(e)
            flat(r.ast.value)
            over_d = []
            okp = True
            for p_ in pieces:
                if is_call(p_, 'list') and len(p_.args) == 1 and text(p_.args[0]) == f'{D}.values()':
                    over_d.append(None)
                elif isinstance(p_, ast.ListComp) and len(p_.generators) == 1 and text(p_.generators[0].iter) == f'{D}.values()' \
                        and text(p_.elt) == text(p_.generators[0].target) and len(p_.generators[0].ifs) == 1:
                    over_d.append(nnf_atoms(p_.generators[0].ifs[0], True))
                elif isinstance(p_, ast.Name) and p_.id != D:
                    continue
                else:
                    okp = False
            if not okp:
                R.violation(q, 'return:' + tv, f'`return {tv[:90]}` does not return the symbols in insertion order', where=f.where(r), mismatch=True)
                continue
            whole = [o for o in over_d if o is None]
            parts = [o for o in over_d if o is not None]
            exact = (len(whole) == 1 and not parts) or (not whole and len(parts) == 2 and len(parts[0]) == 1 and len(parts[1]) == 1
                                                     and atoms_equal(parts[0][0][0], parts[1][0][0]) and parts[0][0][1] != parts[1][0][1])
            R.check(exact, q, 'return:' + tv, 'symbols are returned in insertion order, each once',
                    f'`return {tv[:90]}` does not return each symbol of `{D}` exactly once', where=f.where(r))
        ds = [n for n in f.assigns_to(D)]
        ok = all(isinstance(d.ast.value, ast.Dict) or text(d.ast.value) in ('{}', 'dict()', 'OrderedDict()', 'collections.OrderedDict()') for d in ds if d.ast.value is not None)
        R.check(ok and ds, q, 'symbols-dict', 'symbols accumulate in an insertion-ordered dict', f'`{D}` is not an (ordered) dict', where=f.fi.where)
    # every term of a statement goes through the merge (type-compatibility check): only verbatim terms and
    # function symbols may be skipped
    pe = Fn(R, f'{P}.parse_equation')
    tl = [n for n in pe.cfg.nodes if n.kind == 'for' and text(n.ast.iter) == 'terms']
    if R.require(pe.q, len(tl), 'loop over the terms', fi=pe.fi, pred=lambda x: isinstance(x, ast.For)):
        lp = tl[0]
        for n in pe.cfg.nodes:
            if lp.id in n.loops and isinstance(n.ast, ast.Continue):
                g = [(text(a), truth) for (a, truth, _t) in pe.guard_atoms(n.id)]
                ok = any(truth and ('Type.VERBATIM' in a or 'Type.FUNCTION' in a) and '==' in a for (a, truth) in g)
                R.check(ok, pe.q, 'term-skipped:' + ';'.join(a for a, _t in g)[:80], 'only verbatim terms and function symbols bypass the merge',
                        f'a term is skipped (`continue` under {g}) before `symbols.get(name, s).combine(s)`: a repeated mention escapes the type-compatibility '
                        f'check (a name used as variable and as parameter/error in one statement would be accepted)', where=pe.where(n))
    # parse_model iterates statements in order
    f = Fn(R, f'{P}.parse_model')
    loops = [n for n in f.cfg.nodes if n.kind == 'for']
    l1 = [n for n in loops if 'split_equations_iter(model)' in text(n.ast.iter)]
    R.check(bool(l1) and text(l1[0].ast.iter) in ('enumerate(split_equations_iter(model))', 'split_equations_iter(model)'), f.q, 'statement-order',
            'statements are parsed in script order', 'parse_model does not iterate split_equations_iter(model) directly', where=f.fi.where)
    # the merge loop visits the per-statement symbol lists in statement order
    D = result_dict(f)
    per_stmt = {text(x.func.value) for n in f.cfg.nodes if n.ast is not None and n.kind == 'stmt' and l1 and l1[0].id in n.loops
                for x in ast.walk(n.ast) if method_call(x, 'append') and isinstance(x.func.value, ast.Name)}
    stores = [n for n in f.cfg.nodes if n.kind == 'stmt' and isinstance(n.ast, ast.Assign) and isinstance(n.ast.targets[0], ast.Subscript)
              and text(n.ast.targets[0].value) == D and n.loops]

    def strip_enum(e):
        return e.args[0] if is_call(e, 'enumerate') and e.args else e

    for n in stores:
        inner = f.cfg.nodes[n.loops[-1]]
        it = strip_enum(inner.ast.iter)
        src = None
        if is_call(it, 'itertools.chain', 'chain') and len(it.args) == 1 and isinstance(it.args[0], ast.Starred):
            src = text(it.args[0].value)
        elif is_call(it, 'itertools.chain.from_iterable', 'chain.from_iterable') and len(it.args) == 1:
            src = text(it.args[0])
        elif isinstance(it, ast.Name) and len(n.loops) >= 2:
            outer = f.cfg.nodes[n.loops[-2]]
            if it.id in {x.id for x in ast.walk(outer.ast.target) if isinstance(x, ast.Name)}:
                src = text(strip_enum(outer.ast.iter))
        if src is None:
            raise Unknown(f'{f.q}: the merge loop iterates `{text(inner.ast.iter)[:60]}`; not a chain over the per-statement lists this rule can read')
        R.check(src in per_stmt, f.q, 'merge-order:' + src, 'per-statement symbol lists are merged in statement order',
                f'the merge loop iterates `{src}`, which is not the list the statement loop appends to ({sorted(per_stmt)})', where=f.where(inner))
    R.expect(f.q, len(stores), 1, 'stores of the merge loop')
    for q in (f'{P}.parse_model', f'{P}.parse_equation'):
        fi = R.repo.func(q)
        bad = reordering_sites(fi.node, tainted_names(fi.node, ['model', 'terms', 'equation']))
        for c in bad:
            R.violation(q, 'reorder:' + text(c)[:60], f'`{text(c)[:70]}` reorders the symbol flow', where=f'{fi.module.relpath}:{c.lineno}')
        if not bad:
            R.ok(q, 'no reordering combinator on the symbol flow')


def r7_default_range(R) -> None:
    for q in ('fsic.core.interfaces.SolverMixin.iter_periods', 'fsic.fortran.FortranEngine.solve'):
        f = Fn(R, q)
        for nm, want in (('start', 'self.lags'), ('end', '-1 - self.leads')):
            ds = [d for d in f.assigns_to(nm) if f.holds(d.id, f'{nm} is None')]
            # conditional-expression form: start = <default> if start is None else start
            for d in f.assigns_to(nm):
                v_ = d.ast.value
                if isinstance(v_, ast.IfExp) and text(v_.test) in (f'{nm} is None',) and text(v_.orelse) == nm:
                    d_ = d
                    ds = ds + [type('N', (), {'ast': ast.Assign(targets=d.ast.targets, value=v_.body), 'id': d.id, 'lineno': d.lineno})()]
            falsy = [d for d in f.assigns_to(nm) if isinstance(d.ast.value, ast.BoolOp) and isinstance(d.ast.value.op, ast.Or)
                     and text(d.ast.value.values[0]) == nm]
            falsy += [d for d in f.assigns_to(nm) if f.holds(d.id, nm, False) and not f.holds(d.id, f'{nm} is None')]
            inline_falsy = []
            for n_ in f.cfg.nodes:
                if n_.ast is None or n_.kind != 'stmt':
                    continue
                for x in ast.walk(n_.ast):
                    if isinstance(x, ast.BoolOp) and isinstance(x.op, ast.Or) and len(x.values) == 2 and 'span' in text(x.values[1]):
                        first = x.values[0]
                        if text(first) == nm or f.etext(n_.id, first) == nm:
                            inline_falsy.append(x)
            if inline_falsy and not falsy:
                R.violation(q, f'default-on-falsy:{nm}', f'`{text(inline_falsy[0])[:60]}` applies the default to every falsy `{nm}` (the period label 0, an empty '
                            f'string), not only to None: solve({nm}=0) silently solves from the default period', where=f.fi.where)
                continue
            if not ds and falsy:
                R.violation(q, f'default-on-falsy:{nm}', f'`{text(falsy[0].ast)[:60]}` applies the default to every falsy `{nm}` (the period label 0, an empty '
                            f'string), not only to None: solve({nm}=0) silently solves from the default period', where=f.where(falsy[0]))
                continue
            if not R.require(q, len(ds), f'default `{nm}` under `{nm} is None`', fi=f.fi, pred=lambda x: isinstance(x, ast.Subscript) and text(x.value) == 'self.span'):
                continue
            v = ds[0].ast.value
            ok = isinstance(v, ast.Subscript) and text(v.value) in ('self.span', "self.__dict__['span']") and affine(v.slice) == affine(expr(want))
            R.check(ok, q, f'default-{nm}:{text(v)}', f'default {nm} = span[{want}]',
                    f'default {nm} is `{text(v)}`, expected `self.span[{want}]` (first period with enough lags / last with enough leads)', where=f.where(ds[0]))
        # inclusive integer range (locals holding the two located positions are read through)
        rng_nodes = [n for n in f.cfg.nodes if n.ast is not None and n.kind == 'stmt' and any(is_call(x, 'range') and len(x.args) >= 2 for x in ast.walk(n.ast))]
        cands = []
        for n in rng_nodes:
            for x in ast.walk(n.ast):
                if is_call(x, 'range') and len(x.args) >= 2:
                    ex = f.expand(n.id, x, depth=3)
                    if '_locate_period_in_span' in text(ex):
                        cands.append((n, ex))
        if not cands and rng_nodes:
            # the positions come through locals with several definitions (extra options, helpers read in place): read the
            # range's value with every option other than start / end left at its default
            try:
                from fsa.gated import canon, under_defaults
                se = f.symexec()
                for n in rng_nodes:
                    for x in ast.walk(n.ast):
                        if is_call(x, 'range') and len(x.args) >= 2:
                            v = canon(under_defaults(canon(se.value(n.ast, x)), f.fi.node, keep=('self', 'start', 'end')))
                            for nm in ('start', 'end'):
                                gv = text(canon(under_defaults(canon(se.value(n.ast, ast.Name(id=nm, ctx=ast.Load()))), f.fi.node, keep=('self', 'start', 'end'))))
                                if gv != nm:
                                    class _Back(ast.NodeTransformer):
                                        def generic_visit(self_, node):
                                            if isinstance(node, ast.expr) and text(node) == gv:
                                                return ast.Name(id=nm, ctx=ast.Load())
                                            return super().generic_visit(node)
                                    v = _Back().visit(v)
                            if is_call(v, 'range') and '_locate_period_in_span' in text(v):
                                cands.append((n, v))
            except (Unsupported, Unknown):
                pass
        if R.require(q, len(cands), 'range(loc(start), loc(end) + 1)', fi=f.fi, pred=lambda x: is_call(x, 'range')):
            n, r = cands[0]
            # `D if start is None else start` written in place is `start` after the default has been applied (the default
            # itself is checked above)
            import copy as _copy

            class _Dflt(ast.NodeTransformer):
                def visit_IfExp(self_, node):
                    self_.generic_visit(node)
                    for nm in ('start', 'end'):
                        if text(node.test) == f'{nm} is None' and text(node.orelse) == nm:
                            return ast.Name(id=nm, ctx=ast.Load())
                        if text(node.test) == f'{nm} is not None' and text(node.body) == nm:
                            return ast.Name(id=nm, ctx=ast.Load())
                    return node
            r = ast.fix_missing_locations(_Dflt().visit(_copy.deepcopy(r)))
            ok = text(r.args[0]) == 'self._locate_period_in_span(start)' and affine(r.args[1]) == affine(expr('self._locate_period_in_span(end) + 1')) \
                and (len(r.args) == 2 or is_const(r.args[2], 1))
            R.check(ok, q, 'range:' + text(r), 'positions run from loc(start) to loc(end) inclusive', f'`{text(r)}` is not range(loc(start), loc(end) + 1)',
                    where=f.where(n),
                    # a value only when everything in it was read: nothing but the two labels, `self` and the span length
                    decided=all(isinstance(x, (ast.Name, ast.Attribute, ast.Constant, ast.BinOp, ast.Call, ast.operator, ast.expr_context, ast.UnaryOp, ast.unaryop, ast.Subscript)) for x in ast.walk(r))
                    and {x.id for x in ast.walk(r) if isinstance(x, ast.Name)} <= {'self', 'start', 'end', 'range', 'len'})


def run(R) -> None:
    R.explanation = (
        'C03: tagging of the two halves of the first-`=` split; promotion table (enum order by constant folding, max() under the '
        'VARLIKE guard on both operands, SymbolError otherwise); lag/lead combination table extracted from the if/elif chain; '
        'double-definition check; name lists, |min lags| / |max leads|, floors inside the `is None` branch, template field '
        'mapping, twin agreement with build_fortran_definition; insertion-ordered merge; default range in affine form. '
        'Does not decide that term_re finds every mention.'
    )
    R.rule('C03.R1', lambda: r1_tagging(R))
    R.rule('C03.R2', lambda: r2_promotion(R))
    R.rule('C03.R3', lambda: r3_lag_lead_table(R))
    R.rule('C03.R4', lambda: r4_double_definition(R))
    R.rule('C03.R5', lambda: r5_definition(R))
    R.rule('C03.R6', lambda: r6_first_appearance(R))
    R.rule('C03.R7', lambda: r7_default_range(R))
