"""C01 - the generated model evaluates exactly the equations written.

R1 term rendering table (Term.__str__, Term.code), R2 replacement table and
its namespace, R3 one template / one term list, R4 index parsing, R5 tokeniser
structure (regex AST), R6 order preservation.
"""

from __future__ import annotations

import ast
import builtins
import keyword
from typing import Dict, List, Optional, Set, Tuple

import re._constants as sc  # type: ignore

from fsa import rx
from fsa.consts import fold_enum, folder
from fsa.flow import PARAM
from fsa.match import Unknown, affine, cmp_of, Cmp, dotted, is_const, is_call, method_call
from fsa.source import AnchorMissing, Unsupported, iter_own_nodes, stmt_key, text
from fsa.strshape import Part, norm, shape, shape_of_value, show
from rules.common import Fn, module_bound_names, reordering_sites, tainted_names
from rules.solver_common import expr

P = 'fsic.parser'
NAMELIKE = {'FUNCTION', 'KEYWORD', 'VERBATIM'}


def _type_set(atom: ast.AST) -> Optional[Set[str]]:
    """`self.type in (Type.A, Type.B)` / `self.type == Type.A` -> {'A','B'}"""
    if isinstance(atom, ast.Compare) and len(atom.ops) == 1 and text(atom.left) == 'self.type':
        c = atom.comparators[0]
        if isinstance(atom.ops[0], ast.In) and isinstance(c, (ast.Tuple, ast.List, ast.Set)):
            return {text(e).split('.')[-1] for e in c.elts}
        if isinstance(atom.ops[0], ast.Eq):
            return {text(c).split('.')[-1]}
    return None


def _isinstance_of(atom: ast.AST, what: str) -> Optional[str]:
    if isinstance(atom, ast.Call) and dotted(atom.func) == 'isinstance' and len(atom.args) == 2 and text(atom.args[0]) == what:
        return text(atom.args[1])
    return None


def _sign_class(atoms) -> Optional[str]:
    k = affine(expr('self.index_'))
    pos = Cmp('<', k.scale(-1))  # -k < 0
    neg = Cmp('<', k)
    zero = Cmp('==', k)
    facts = {'pos': None, 'neg': None, 'zero': None}
    for (a, truth, _tn) in atoms:
        c = cmp_of(a)
        if c is None:
            continue
        ci = c.as_int()
        for nm, ref in (('pos', pos), ('neg', neg), ('zero', zero)):
            if ci == ref:
                facts[nm] = truth
            elif ci == ref.negate().as_int():
                facts[nm] = not truth
    if facts['pos'] is True:
        return 'pos'
    if facts['zero'] is True:
        return 'zero'
    if facts['neg'] is True:
        return 'neg'
    if facts['pos'] is False and facts['zero'] is False:
        return 'neg'
    if facts['neg'] is False and facts['zero'] is False:
        return 'pos'
    if facts['pos'] is False and facts['neg'] is False:
        return 'zero'
    return None


def _rows(f: Fn, strict: bool = True, read_through: bool = False):
    """(return node, guard atoms, shape) for every (return, reaching-def combination)."""
    out = []
    for r in f.returns():
        v = r.ast.value
        if v is None:
            continue
        if read_through:
            v = f.expand(r.id, v)
            local_names = [x.id for x in ast.walk(v) if isinstance(x, ast.Name) and x.id in f.lf.locals and x.id != 'self']
            if len(set(local_names)) > 1:
                raise Unknown(f'{f.q}: return `{text(v)}` mixes several locals')
            if not local_names:
                out.append((r, f.xguard_atoms(r.id), v, {}))
                continue
            nm = local_names[0]
            for (site, dv) in f.lf.values_reaching(r.id, nm):
                if dv is None:
                    raise Unknown(f'{f.q}: `{nm}` has a non-simple definition')
                out.append((r, f.xguard_atoms(r.id) + f.xguard_atoms(site), v, {nm: f.expand(site, dv)}))
            continue
        local_names = [x.id for x in ast.walk(v) if isinstance(x, ast.Name) and x.id in f.lf.locals and x.id != 'self']
        if not local_names:
            out.append((r, f.guard_atoms(r.id), v, {}))
            continue
        if len(set(local_names)) > 1:
            if strict:
                raise Unknown(f'{f.q}: return `{text(v)}` mixes several locals')
            out.append((r, f.guard_atoms(r.id), v, {}))
            continue
        nm = local_names[0]
        for (site, dv) in f.lf.values_reaching(r.id, nm):
            if dv is None:
                raise Unknown(f'{f.q}: `{nm}` has a non-simple definition')
            out.append((r, f.guard_atoms(r.id) + f.guard_atoms(site), v, {nm: dv}))
    return out


def r1_term_rendering(R) -> None:
    f = Fn(R, f'{P}.Term.__str__')
    NAME, IDX = ('sym', 'self.name'), ('sym', 'self.index_')
    expected = {
        'namelike': [NAME],
        'int:pos': [NAME, ('lit', '[t+'), IDX, ('lit', ']')],
        'int:zero': [NAME, ('lit', '[t]')],
        'int:neg': [NAME, ('lit', '[t'), IDX, ('lit', ']')],
        'str': [NAME, ('lit', '['), IDX, ('lit', ']')],
    }
    seen: Dict[str, bool] = {}
    for (r, atoms, v, binds) in _rows(f, read_through=True):
        cls = None
        for (a, truth, _tn) in atoms:
            ts = _type_set(a)
            if ts is not None and truth:
                cls = 'namelike' if ts <= NAMELIKE else f'types:{sorted(ts)}'
                if ts != NAMELIKE:
                    R.violation(f.q, f'str-namelike-types:{sorted(ts)}', f'`{text(a)}`: the bare-name rendering applies to {sorted(ts)}, expected {sorted(NAMELIKE)}',
                                where=f.where(r), mismatch=True)
        if cls is None:
            kinds = [(_isinstance_of(a, 'self.index_'), truth) for (a, truth, _tn) in atoms]
            if ('int', True) in kinds:
                s = _sign_class(atoms)
                if s is None:
                    raise Unknown(f'{f.q}: cannot classify the sign branch of `{text(v)}`')
                cls = f'int:{s}'
            elif ('str', True) in kinds:
                cls = 'str'
        if cls is None:
            raise Unknown(f'{f.q}: cannot classify return `{text(v)}`')

        def env(name, binds=binds):
            if name in binds:
                return shape(binds[name])
            return None

        got = shape(v, env)
        want = expected.get(cls)
        seen[cls] = True
        if want is None:
            continue
        R.check(norm(got) == norm(want), f.q, f'str-row:{cls}:{show(got)}',
                f'Term.__str__ row {cls} renders {show(want)}',
                f'Term.__str__ row {cls} renders `{show(got)}`, expected `{show(want)}` (sign shown = sign written; no index = current period)',
                where=f.where(r))
    for cls in expected:
        if cls not in seen:
            R.violation(f.q, f'str-row-missing:{cls}', f'Term.__str__ has no rendering row for {cls}', where=f.fi.where, mismatch=True)
    # ---- Term.code
    g = Fn(R, f'{P}.Term.code')
    rows = _rows(g, strict=False)
    got_rows: Dict[str, bool] = {}
    for (r, atoms, v, binds) in rows:
        v = g._inline_pure_calls(v)  # a lookup moved into a one-expression helper is read through
        tsets = [(_type_set(a), truth) for (a, truth, _tn) in atoms]
        pos_sets = [ts for (ts, truth) in tsets if ts is not None and truth]
        isstr = any(_isinstance_of(a, 'self.index_') == 'str' and truth for (a, truth, _tn) in atoms)
        # what does the local `code` hold?
        code_is_str_self = True
        for nm in [x.id for x in ast.walk(v) if isinstance(x, ast.Name) and x.id in g.lf.locals and x.id != 'self']:
            for (site, dv) in g.lf.values_reaching(r.id, nm):
                if not (dv is not None and isinstance(dv, ast.Call) and dotted(dv.func) == 'str' and text(dv.args[0]) == 'self'):
                    code_is_str_self = False
        if pos_sets and pos_sets[-1] <= {'FUNCTION', 'KEYWORD'}:
            got_rows['function'] = True
            R.check(pos_sets[-1] == {'FUNCTION', 'KEYWORD'}, g.q, f'code-function-types:{sorted(pos_sets[-1])}',
                    'function replacement applies to FUNCTION and KEYWORD terms', f'function replacement applies to {sorted(pos_sets[-1])}', where=g.where(r))
            ok = False
            if method_call(v, 'get') and text(v.func.value) == 'replacement_function_names' and len(v.args) == 2 \
                    and text(v.args[0]) == text(v.args[1]) and isinstance(v.args[0], ast.Name):
                ok = True
            if isinstance(v, ast.IfExp) and isinstance(v.test, ast.Compare) and isinstance(v.test.ops[0], ast.In) \
                    and text(v.test.comparators[0]) == 'replacement_function_names' \
                    and isinstance(v.body, ast.Subscript) and text(v.body.value) == 'replacement_function_names' \
                    and text(v.body.slice) == text(v.test.left) == text(v.orelse):
                ok = True
            substring = any(
                isinstance(x, ast.Call) and (
                    (isinstance(x.func, ast.Attribute) and x.func.attr in ('replace', 'startswith', 'endswith', 'sub', 'subn', 'translate', 'find'))
                ) for x in ast.walk(g.fi.node)
                if isinstance(x, ast.Call) and 'replacement_function_names' in text(g.fi.node) and _mentions_table_loop(g.fi.node)
            )
            partial_key = None
            if not ok and method_call(v, 'get') and text(v.func.value) == 'replacement_function_names' and len(v.args) >= 1:
                k = v.args[0]
                whole = False
                if isinstance(k, ast.Name):
                    kd = g.lf.values_reaching(r.id, k.id)
                    whole = bool(kd) and all(dv is not None and isinstance(dv, ast.Call) and dotted(dv.func) == 'str' and text(dv.args[0]) == 'self' for (_s, dv) in kd)
                if not whole:
                    partial_key = text(k)
            if partial_key is not None:
                R.violation(g.q, 'code-function-partial-key:' + partial_key[:40],
                            f'the replacement table is looked up with `{partial_key}`, not with the whole function name: a namespaced or longer name whose '
                            f'part matches a key (np.max, my.log) would be replaced by a different function while the normalised equation keeps the name written',
                            where=g.where(r))
            elif not ok:
                if _mentions_table_loop(g.fi.node) or any(isinstance(x, ast.Call) and isinstance(x.func, ast.Attribute)
                                                         and x.func.attr in ('replace', 'sub') for x in ast.walk(v)):
                    R.violation(g.q, 'code-function-substring', 'function names are replaced by a substring operation, not an exact-key lookup '
                                '(a function whose name contains another, e.g. `logistic`, would be rewritten)', where=g.where(r))
                else:
                    raise Unknown(f'{g.q}: function replacement `{text(v)}` not in the idiom table')
            else:
                R.check(code_is_str_self, g.q, 'code-function-key', 'the lookup key is the whole function name',
                        'the lookup key is not `str(self)`', where=g.where(r))
        elif pos_sets and pos_sets[-1] == {'VERBATIM'}:
            got_rows['verbatim'] = True
            ok = method_call(v, 'strip') and len(v.args) == 1 and is_const(v.args[0], '`') and code_is_str_self
            R.check(ok, g.q, 'code-verbatim:' + text(v), 'verbatim fragments lose only their enclosing backticks',
                    f'verbatim code is `{text(v)}`, expected `code.strip("`")`', where=g.where(r))
        elif isstr:
            got_rows['str-index'] = True
            want = [('lit', "self['"), ('sym', 'self.name'), ('lit', "', "), ('sym', 'self.index_'), ('lit', ']')]
            got = shape(v)
            R.check(norm(got) == norm(want), g.q, 'code-str-index:' + show(got), "named-period access renders self['NAME', index]",
                    f'named-period access renders `{show(got)}`, expected `{show(want)}`', where=g.where(r))
        elif any(text(a) in ("self.name.startswith('_')", 'self.name.startswith("_")', "self.name[0] == '_'", "self.name[:1] == '_'") and truth for (a, truth, _tn) in atoms):
            # names Python would mangle as class-private (`self.__x` inside the class body): read by key instead
            got_rows['private-name'] = True
            sh_ = show(shape(v, lambda name: [('sym', 'str(self)')] if code_is_str_self else None))
            ok = sh_.replace('"', "'").startswith("self.__dict__['_") and 'self.name' in sh_
            R.check(ok, g.q, 'code-private-name:' + sh_[:50], "a name beginning with `_` is read as self.__dict__['_NAME'][t+k] (no class-private mangling)",
                    f"the rendering for names beginning with `_` is `{sh_}`, expected `self.__dict__['_<name>']<index>`", where=g.where(r))
        else:
            got_rows['default'] = True
            underscore_excluded = any(text(a) in ("self.name.startswith('_')", 'self.name.startswith("_")', "self.name[0] == '_'", "self.name[:1] == '_'") and not truth
                                      for (a, truth, _tn) in atoms)
            _private_name_rule(R, g, r, v, underscore_excluded)
            def env(name):
                return [('sym', 'str(self)')] if code_is_str_self else None
            got = shape(v, env)
            want = [('lit', 'self._'), ('sym', 'str(self)')]
            R.check(norm(got) == norm(want), g.q, 'code-default:' + show(got), 'variables, parameters and errors are read as self._NAME[t+k]',
                    f'default code rendering is `{show(got)}`, expected `self._<str(self)>`', where=g.where(r))
    for row in ('function', 'verbatim', 'str-index', 'default'):
        if row not in got_rows:
            R.violation(g.q, f'code-row-missing:{row}', f'Term.code has no `{row}` row', where=g.fi.where, mismatch=True)


def _private_name_rule(R, g, r, v, underscore_excluded: bool) -> None:
    """`'self._' + NAME` for a NAME that itself begins with `_` is `self.__NAME`: inside the body of the generated class Python
    rewrites that to `self._Model__NAME` (class-private name mangling), while the array is stored under '__NAME'.  Either
    term_re admits no such names, or Term.code does not render them that way."""
    fd = folder(R.repo, P)
    e = fd.get('term_re')
    parsed = rx.parse(e.pattern, e.flags)
    gd = getattr(getattr(parsed, 'state', None), 'groupdict', {}) or {}
    can = []
    for gname in ('_VARIABLE', '_PARAMETER', '_ERROR'):
        num = gd.get(gname)
        its = rx.find_group(rx.items(parsed), num) if num is not None else None
        if its is None:
            continue
        first = rx.items(its)[0] if rx.items(its) else None
        cc = rx.charclass(first) if first is not None else None
        if cc is not None and '_' in cc:
            can.append(gname)
    lit = any(isinstance(x, ast.Constant) and isinstance(x.value, str) and x.value.endswith('self._') for x in ast.walk(v))
    if not lit:
        return
    if not can or underscore_excluded:
        R.check(True, g.q, 'no-private-name-mangling', "`self._NAME` is never `self.__...` (names beginning with `_` are excluded or rendered otherwise)", '', where=g.where(r))
        return
    R.violation(g.q, 'private-name-mangled',
                f"term_re accepts names that begin with `_` (groups {can}) and Term.code renders every variable as `'self._' + NAME`: for `_y` that is `self.__y[t]`, which Python "
                f"rewrites to `self._Model__y[t]` inside the body of the generated class (class-private name mangling) while the array is stored under '__y': "
                f"parse_model('Y = _y + X') and build_model() succeed, one evaluation pass raises AttributeError instead of assigning the right-hand side", where=g.where(r))


def _mentions_table_loop(fnode: ast.AST) -> bool:
    for n in ast.walk(fnode):
        if isinstance(n, (ast.For, ast.comprehension)) and 'replacement_function_names' in text(n.iter):
            return True
    return False


def r2_replacement_table(R) -> None:
    fd = folder(R.repo, P)
    table = fd.get('replacement_function_names')
    want = {'exp': 'np.exp', 'log': 'np.log', 'max': 'max', 'min': 'min'}
    R.check(table == want, f'{P}.replacement_function_names', 'table:' + repr(sorted(table.items()) if isinstance(table, dict) else table),
            'exp/log/max/min map to their numeric implementations', f'replacement table is {table}, expected {want}')
    bound = module_bound_names(R.repo, P)
    bm = R.repo.func(f'{P}.build_model')
    for n in iter_own_nodes(bm.node):
        if isinstance(n, (ast.Import, ast.ImportFrom)):
            for al in n.names:
                bound.add((al.asname or al.name).split('.')[0])
    bound |= set(bm.params())
    needed: Dict[str, str] = {}
    if isinstance(table, dict):
        for k, v in table.items():
            root = str(v).split('.')[0]
            if not hasattr(builtins, root):
                needed[root] = f'replacement `{k}` -> `{v}`'
    for tname in ('MODEL_TEMPLATE_TYPED', 'MODEL_TEMPLATE_UNTYPED'):
        for nm in sorted(template_free_names(fd.get(tname))):
            needed.setdefault(nm, f'free name in {tname}')
    for nm, why in sorted(needed.items()):
        R.check(nm in bound, f'{P}.build_model', f'namespace:{nm}', f'`{nm}` ({why}) is bound in the namespace given to exec',
                f'`{nm}` ({why}) is not bound in fsic/parser.py globals nor in build_model locals: generated classes would fail with NameError',
                where=bm.where)
    R.expect(f'{P}.build_model', len(needed), 4, 'names needed by the generated class')
    # the exec namespace is globals() + locals() taken after the BaseModel import
    f = Fn(R, f'{P}.build_model')
    execs = f.nodes_with(lambda x: isinstance(x, ast.Call) and dotted(x.func) == 'exec')
    for n in execs:
        for c in ast.walk(n.ast):
            if isinstance(c, ast.Call) and dotted(c.func) == 'exec':
                ok = len(c.args) == 3 and text(c.args[1]) == 'globals()'
                R.check(ok, f.q, f'exec-globals:{text(c)[:50]}', 'exec runs in the module globals of fsic.parser',
                        f'`{text(c)[:70]}` does not pass globals() as the global namespace', where=f.where(n))


def template_free_names(template: str) -> Set[str]:
    filled = template.format(endogenous='[]', exogenous='[]', parameters='[]', errors='[]', lags='0', leads='0', equations='        pass')
    tree = ast.parse(filled)
    bound: Set[str] = set()
    loads: Set[str] = set()
    for n in ast.walk(tree):
        if isinstance(n, ast.Name):
            (loads if isinstance(n.ctx, ast.Load) else bound).add(n.id)
        elif isinstance(n, ast.arg):
            bound.add(n.arg)
        elif isinstance(n, (ast.FunctionDef, ast.ClassDef)):
            bound.add(n.name)
    return {x for x in loads - bound if not hasattr(builtins, x)}


def kwarg_of(call, name):
    for k in call.keywords:
        if k.arg == name:
            return k.value
    return None


def r3_one_template(R) -> None:
    f = Fn(R, f'{P}.parse_equation')
    fmts = []
    for n in f.cfg.nodes:
        a = n.ast
        if n.kind == 'stmt' and isinstance(a, ast.Assign) and method_call(a.value, 'format') and len(a.targets) == 1:
            fmts.append((n, a))
        elif n.kind == 'stmt' and isinstance(a, ast.Assign) and len(a.targets) == 1 and isinstance(a.targets[0], ast.Name):
            # the formatted text passed through something else on its way into the local (helpers read through)
            v_ = f.expand(n.id, a.value)
            inner = [x for x in ast.walk(v_) if method_call(x, 'format') and not isinstance(x.func.value, ast.Constant) and any(isinstance(y, ast.Starred) for y in x.args)]
            if inner and inner[0] is not v_:
                R.violation(f.q, f'rewritten-after-format:{text(a.targets[0])}', f'`{text(a)[:70]}`: the text is rewritten after the terms have been rendered into it '
                            f'(`{text(v_)[:60]}...`), so the rewriting also reaches inside the terms - a verbatim fragment or a string index (`X[\'a  b\']`) no longer '
                            f'means what was written, and equation and code can differ', where=f.where(n))
                return
    by_target = {text(a.targets[0]): (n, a) for (n, a) in fmts}
    if not R.require(f.q, len(fmts), 'template.format(...) for equation and code', fi=f.fi, minimum=2,
                     pred=lambda x: isinstance(x, ast.Call) and isinstance(x.func, ast.Attribute) and x.func.attr == 'format'):
        return
    if 'equation' not in by_target or 'code' not in by_target:
        raise Unknown(f'{f.q}: format results are bound to {sorted(by_target)}')
    (ne, ae), (nc, ac) = by_target['equation'], by_target['code']
    re_, rc_ = ae.value.func.value, ac.value.func.value
    same_tpl = isinstance(re_, ast.Name) and isinstance(rc_, ast.Name) and re_.id == rc_.id \
        and f.lf.defs_reaching(ne.id, re_.id) == f.lf.defs_reaching(nc.id, rc_.id)
    R.check(same_tpl, f.q, 'same-template', 'normalised equation and code are formatted from the same template',
            f'equation uses `{text(re_)}` and code uses `{text(rc_)}` (or different definitions of it)', where=f.where(nc))

    def star_list(call: ast.Call):
        if len(call.args) == 1 and isinstance(call.args[0], ast.Starred):
            lc = call.args[0].value
            if is_call(lc, 'list', 'tuple') and len(lc.args) == 1:
                lc = lc.args[0]
            if is_call(lc, 'map') and len(lc.args) == 2 and isinstance(lc.args[0], ast.Name):
                # map(f, xs) reads [f(_t) for _t in xs]
                tv = ast.Name(id='_t', ctx=ast.Load())
                lc = ast.fix_missing_locations(ast.copy_location(ast.ListComp(
                    elt=ast.Call(func=lc.args[0], args=[tv], keywords=[]),
                    generators=[ast.comprehension(target=ast.Name(id='_t', ctx=ast.Store()), iter=lc.args[1], ifs=[], is_async=0)]), call))
            if isinstance(lc, (ast.ListComp, ast.GeneratorExp)) and len(lc.generators) == 1 and not lc.generators[0].ifs:
                return lc
        return None

    le, lc = star_list(ae.value), star_list(ac.value)
    if le is None or lc is None:
        raise Unknown(f'{f.q}: format arguments are not `*[f(t) for t in terms]`')
    ite, itc = le.generators[0].iter, lc.generators[0].iter
    same_terms = isinstance(ite, ast.Name) and isinstance(itc, ast.Name) and ite.id == itc.id \
        and f.lf.defs_reaching(ne.id, ite.id) == f.lf.defs_reaching(nc.id, itc.id)
    R.check(same_terms, f.q, 'same-terms:' + text(ite) + '/' + text(itc), 'both renderings run over the same term list in the same order',
            f'equation iterates `{text(ite)}`, code iterates `{text(itc)}`', where=f.where(nc))
    ve, vc = text(le.generators[0].target), text(lc.generators[0].target)
    R.check(text(le.elt) == f'str({ve})', f.q, 'equation-elt:' + text(le.elt), 'equation fields are str(term)',
            f'equation fields are `{text(le.elt)}`', where=f.where(ne))
    R.check(text(lc.elt) == f'{vc}.code', f.q, 'code-elt:' + text(lc.elt), 'code fields are term.code', f'code fields are `{text(lc.elt)}`',
            where=f.where(nc))
    # what is attached to the symbol is exactly what was formatted (no later rewriting of either text)
    reps = [n for n in f.cfg.nodes if n.kind == 'stmt' and n.ast is not None and any(method_call(x, '_replace') and kwarg_of(x, 'equation') is not None for x in ast.walk(n.ast))]
    if R.require(f.q, len(reps), 'symbol._replace(equation=equation, code=code)', fi=f.fi, pred=lambda x: method_call(x, '_replace')):
        rp = reps[0]
        c = [x for x in ast.walk(rp.ast) if method_call(x, '_replace')][0]
        for nm, fmt_node in (('equation', ne), ('code', nc)):
            v = kwarg_of(c, nm)
            okv = isinstance(v, ast.Name) and f.lf.defs_reaching(rp.id, v.id) == frozenset([fmt_node.id])
            # a later definition of the same name made *from* it (`equation = tidy(equation)`, `code = code.replace(...)`) and
            # reached by the formatted text: the text is positively rewritten after formatting, whatever else was restructured
            rewritten_after = False
            if isinstance(v, ast.Name) and not okv:
                for d_ in f.lf.defs_reaching(rp.id, v.id):
                    if d_ == fmt_node.id or d_ < 0:
                        continue
                    dv_ = f.lf.def_value(d_, v.id)
                    if dv_ is not None and any(isinstance(y, ast.Name) and y.id == v.id for y in ast.walk(dv_)) and f.cfg.reaches(fmt_node.id, d_):
                        rewritten_after = True
            R.check(okv, f.q, f'attached-{nm}', f'the {nm} attached to the symbol is the formatted template, unmodified',
                    f'`{nm}={text(v) if v is not None else "?"}` attached to the endogenous symbol is not (only) the result of template.format(...): it is rewritten '
                    f'after formatting, so the normalised equation and the generated code no longer denote the same expression', where=f.where(rp), decided=rewritten_after)
    # terms = parse_equation_terms(<the same text the placeholders are cut from>)
    terms_src = None
    if isinstance(ite, ast.Name):
        vals = f.lf.values_reaching(ne.id, ite.id)
        if len(vals) == 1 and vals[0][1] is not None and is_call(vals[0][1], 'parse_equation_terms'):
            terms_src = vals[0]
    R.check(terms_src is not None, f.q, 'terms-source', 'terms come from parse_equation_terms()', 'terms are not produced by parse_equation_terms()',
            where=f.where(ne))
    # the placeholder loop
    loops = [n for n in f.cfg.nodes if n.kind == 'for' and 'term_re.finditer' in text(n.ast.iter)]
    if not R.require(f.q, len(loops), 'placeholder loop over term_re.finditer(...)', fi=f.fi,
                     pred=lambda x: isinstance(x, ast.Attribute) and x.attr == 'finditer'):
        return
    lp = loops[0]
    it = lp.ast.iter
    reversed_ = False
    core = it
    if is_call(core, 'reversed') and len(core.args) == 1:
        reversed_ = True
        core = core.args[0]
    if is_call(core, 'list') and len(core.args) == 1:
        core = core.args[0]
    if not (isinstance(core, ast.Call) and text(core.func) == 'term_re.finditer' and len(core.args) == 1):
        raise Unknown(f'{f.q}: placeholder loop iterates `{text(it)}`')
    arg = core.args[0]
    # the text that is tokenised is the statement as given: nothing rewrites it first
    if isinstance(arg, ast.Name):
        defs_ = f.lf.defs_reaching(lp.id, arg.id)
        # a rewrite made only under an option that is off by default is outside the property's (default) syntax
        rewritten = [d_ for d_ in defs_ if d_ != PARAM and not f.off_by_default(d_)]
        for d_ in defs_:
            if d_ != PARAM and f.off_by_default(d_):
                R.ok(f.q, f'`{f.cfg.nodes[d_].label()[:60]}` rewrites the text only under an option that is off by default', detail=f.off_by_default(d_))
        R.check(not rewritten and arg.id in f.fi.params(), f.q, 'text-as-written:' + arg.id, 'the statement is tokenised as written (no rewriting of the text before the terms are cut)',
                f'`{arg.id}` is rewritten (`{f.cfg.nodes[rewritten[0]].label()[:70] if rewritten else ""}`) before it is tokenised: notation the grammar does not define would be '
                f'turned into terms (e.g. a call `abs(-2)` read as a lag)', where=f.where(f.cfg.nodes[rewritten[0]]) if rewritten else f.fi.where)
    if terms_src is not None:
        targ = terms_src[1].args[0]
        same_text = isinstance(arg, ast.Name) and isinstance(targ, ast.Name) and arg.id == targ.id \
            and f.lf.defs_reaching(lp.id, arg.id) == f.lf.defs_reaching(terms_src[0], targ.id)
        R.check(same_text, f.q, 'same-text', 'placeholders and terms are cut from the same text',
                f'placeholders scan `{text(arg)}` but terms were parsed from `{text(targ)}`', where=f.where(lp))
    # skip predicate
    mv = text(lp.ast.target)
    skips = [n for n in f.cfg.nodes if n.kind == 'test' and lp.id in n.loops and text(n.ast) in (f'not any({mv}.groups())',)]
    ok_skip = bool(skips) and any(isinstance(f.cfg.nodes[b].ast, ast.Continue) for (b, lab) in skips[0].succ if lab == 'T')
    R.check(ok_skip, f.q, 'skip-predicate', 'matches without a named group (bare keywords) are skipped, as in parse_terms',
            f'placeholder loop does not skip `not any({mv}.groups())` matches', where=f.where(lp))
    # order-independence of the replacement
    self_slicing = []
    for n in f.cfg.nodes:
        a = n.ast
        if lp.id in n.loops and n.kind == 'stmt' and isinstance(a, ast.Assign) and len(a.targets) == 1 and isinstance(a.targets[0], ast.Name):
            tn = a.targets[0].id
            if any(isinstance(x, ast.Subscript) and isinstance(x.value, ast.Name) and x.value.id == tn and isinstance(x.slice, ast.Slice)
                   for x in ast.walk(a.value)):
                self_slicing.append(n)
    if self_slicing:
        R.check(reversed_, f.q, 'replacement-order', 'in-place span replacement runs right to left',
                'matches are replaced left to right in a string that is re-sliced by match offsets: later offsets are stale',
                where=f.where(self_slicing[0]))
    else:
        # forward assembly: the sliced text must be the scanned text, with a running position
        sl = [x for n in f.cfg.nodes if lp.id in n.loops and n.ast is not None and n.kind == 'stmt'
              for x in ast.walk(n.ast) if isinstance(x, ast.Subscript) and isinstance(x.slice, ast.Slice)]
        ok = bool(sl) and all(isinstance(x.value, ast.Name) and isinstance(arg, ast.Name) and x.value.id == arg.id for x in sl) and not reversed_
        R.check(ok, f.q, 'assembly-order', 'left-to-right assembly slices the scanned text itself',
                'forward assembly slices something other than the scanned text', where=f.where(lp))
    # parse_terms twin
    pt = Fn(R, f'{P}.parse_terms')
    tw = False
    read_any = False
    for r in pt.returns():
        lc = pt.as_listcomp(r.id, r.ast.value) if r.ast.value is not None else None
        if lc is None and r.ast.value is not None:
            # list(backend(expression, term_re)): read through a module-level backend (memoised or not)
            v_ = r.ast.value
            while is_call(v_, 'list', 'tuple') and len(v_.args) == 1:
                v_ = v_.args[0]
            if isinstance(v_, ast.Call) and isinstance(v_.func, ast.Name):
                from fsa.summ import summarise_return, _subst
                g_ = [s_ for s_ in pt.fi.module.tree.body if isinstance(s_, ast.FunctionDef) and s_.name == v_.func.id]
                rv = summarise_return(g_[0], lenient=True) if g_ else None
                if rv is not None and len(v_.args) == len(g_[0].args.args) and not v_.keywords:
                    body = _subst(rv, dict(zip([a_.arg for a_ in g_[0].args.args], v_.args)))
                    while is_call(body, 'list', 'tuple') and len(body.args) == 1:
                        body = body.args[0]
                    if isinstance(body, (ast.ListComp, ast.GeneratorExp)):
                        lc = body
        if lc is None or len(lc.generators) != 1:
            continue
        read_any = True
        g = lc.generators[0]
        from fsa.match import nnf_atoms
        conds = [(text(a_), tr) for c_ in g.ifs for (a_, tr) in nnf_atoms(c_, True)]
        if pt.etext(r.id, g.iter).startswith('term_re.finditer(') and conds == [(f'any({text(g.target)}.groups())', True)]:
            tw = True
    if not tw and not read_any:
        raise Unknown(f'{pt.q}: no return value could be read as a comprehension over the regex matches')
    R.check(tw, pt.q, 'parse-terms-filter', 'parse_terms iterates term_re with the same filter',
            'parse_terms does not iterate `term_re.finditer(...)` filtered by `any(m.groups())`', where=pt.fi.where)


def r4_index_parsing(R) -> None:
    from rules.parser_roles import TermMatch
    tm = TermMatch(R)
    q = tm.q
    f = tm.f
    for (verdict, detail, where_) in tm.memo:
        if verdict == 'bad':
            R.violation(q, 'memo-key-incomplete', detail, where=where_)
        elif verdict == 'ok':
            R.check(True, q, 'memo-key-complete', detail, '', where=where_)
        else:
            R.inconclusive(q, f'memoised-terms: {detail}')
    lv = tm.index_leaves()
    ok0 = False
    ints = []
    for (facts, v) in lv:
        fx = [(tm.norm_raw(text(a_)), tr) for (a_, tr) in facts]
        if is_const(v, 0) and not isinstance(v.value, bool) and ('<INDEX> is None', True) in fx:
            ok0 = True
        if isinstance(v, ast.Constant) and v.value not in (0, None):
            R.violation(q, 'implicit-index-value:' + text(v), f'the index can be the constant `{text(v)}`: constant index other than 0', where=f.fi.where)
        if isinstance(v, ast.UnaryOp) and isinstance(v.operand, ast.Constant) and isinstance(v.operand.value, (int, float)) and v.operand.value != 0:
            R.violation(q, 'implicit-index-value:' + text(v), f'the index can be the constant `{text(v)}`: constant index other than 0', where=f.fi.where)
        if is_call(v, 'int'):
            ints.append(v)
    R.check(ok0, q, 'implicit-index', 'a term without an index denotes the current period (index 0)',
            'no `index = 0` under `<INDEX group> is None`', where=f.fi.where)
    if R.require(q, len(ints), 'index = int(<INDEX group>)', fi=f.fi, pred=lambda x: is_call(x, 'int')):
        for v in ints:
            whole = len(v.args) == 1 and not v.keywords and tm.norm_raw(text(v.args[0])) == '<INDEX>'
            R.check(whole, q, 'int-of-whole-group:' + text(v)[:60], 'the numeric index is int() of the whole INDEX group',
                    f'`{text(v)[:70]}` does not convert the whole INDEX group', where=f.fi.where)
    # the only rejection of a numeric index is int()'s own ValueError: anything int() accepts ([+1], [ -2 ]) is an index
    hosts = [f]
    for nm_, (h_, _rv) in f._pure_helpers().items():
        if any(is_call(x, nm_) for x in ast.walk(f.fi.node)):
            hq = [q_ for q_, fi_ in R.repo.functions.items() if fi_.node is h_]
            if hq:
                hosts.append(Fn(R, hq[0]))
    for (f, r) in [(h_, r_) for h_ in hosts for r_ in h_.raises('ParserError')]:
        par_ok = False
        for h in [n for n in f.cfg.nodes if n.kind == 'except']:
            if any(x is r.ast for x in ast.walk(h.ast)) and h.ast.type is not None and text(h.ast.type) == 'ValueError':
                par_ok = True
        R.check(par_ok, q, 'index-rejection:' + stmt_key(r.ast)[:50], 'an index is rejected only when int() rejects it',
                f'`{text(r.ast)[:60]}` rejects an index outside the `except ValueError` of int(): indexes that int() accepts (e.g. an explicit `+1`, as used when a '
                f'normalised equation is fed back) would be refused', where=f.where(r))
    # regex: optional index group right after the variable-like alternatives
    t = folder(R.repo, P).get('term_re')
    parsed = rx.parse(t.pattern, t.flags)
    gd = parsed.state.groupdict
    alts = rx.top_alternatives(parsed)
    var_alt = [a for a in alts if gd.get('_VARIABLE') in rx.group_numbers(a)]
    if not var_alt:
        raise AnchorMissing('term_re: no alternative containing _VARIABLE')
    a = var_alt[0]
    last = a[-1]
    ok = last[0] is sc.MAX_REPEAT and last[1][0] == 0 and last[1][1] == 1
    inner = rx.items(last[1][2]) if ok else []
    core = rx.strip_ws(inner)
    ok = ok and len(core) == 3 and rx.is_literal(core[0], '[') and rx.is_literal(core[2], ']') \
        and core[1][0] is sc.SUBPATTERN and core[1][1][0] == gd.get('INDEX') and rx.is_lazy_any(rx.items(core[1][1][3])[0]) \
        and len(rx.items(core[1][1][3])) == 1
    R.check(ok, f'{P}.term_re', 'index-group', 'optional `[ INDEX ]` group follows the parameter/error/variable alternatives',
            'term_re: the INDEX group is not an optional `[ \\s* (lazy any) \\s* ]` directly after the variable-like alternatives')
    ws_ok = ok and len(inner) == 5 and rx.is_ws_star(inner[1]) and rx.is_ws_star(inner[3])
    R.check(ws_ok, f'{P}.term_re', 'index-group-ws', 'whitespace inside index brackets is not part of the index',
            'term_re: no optional whitespace on both sides of the INDEX group')
    first = a[0]
    common = first[0] is sc.BRANCH and {gd.get('_PARAMETER'), gd.get('_ERROR'), gd.get('_VARIABLE')} <= rx.group_numbers([first])
    R.check(common, f'{P}.term_re', 'index-common', 'the index group is common to parameters, errors and variables',
            'term_re: PARAMETER/ERROR/VARIABLE are not one alternation followed by the shared INDEX group')


def r5_tokeniser(R) -> None:
    t = folder(R.repo, P).get('term_re')
    parsed = rx.parse(t.pattern, t.flags)
    gd = parsed.state.groupdict
    alts = rx.top_alternatives(parsed)
    C = f'{P}.term_re'

    def alt_of(name: str) -> int:
        g = gd.get(name)
        if g is None:
            raise AnchorMissing(f'term_re: no group {name}')
        for i, a in enumerate(alts):
            if g in rx.group_numbers(a):
                return i
        raise AnchorMissing(f'term_re: group {name} not in a top-level alternative')

    iv, ii, ik, ifn, ivar = alt_of('_VERBATIM'), alt_of('_INVALID'), alt_of('_KEYWORD'), alt_of('_FUNCTION'), alt_of('_VARIABLE')
    for (lo, hi, why) in (
        (iv, min(ii, ik, ifn, ivar), 'VERBATIM before every other alternative (its content is not tokenised)'),
        (ii, ik, 'INVALID (keyword used with an index) before KEYWORD'),
        (ik, ivar, 'KEYWORD before the variable-like alternative'),
        (ifn, ivar, 'FUNCTION before the variable-like alternative'),
    ):
        R.check(lo < hi, C, f'priority:{why[:24]}', f'alternation priority: {why}', f'alternation priority violated: {why}')
    R.check(alt_of('_PARAMETER') == alt_of('_ERROR') == ivar, C, 'varlike-one-alt', 'parameter, error and variable share one alternative',
            'PARAMETER / ERROR / VARIABLE are split over several top-level alternatives')
    # KEYWORD: \b (?P<_KEYWORD> kw|kw...) \b
    ka = alts[ik]
    gk = gd['_KEYWORD']
    pos = [i for i, it in enumerate(ka) if it[0] is sc.SUBPATTERN and it[1][0] == gk]
    okb = bool(pos) and pos[0] > 0 and rx.is_word_boundary(ka[pos[0] - 1])
    oka = bool(pos) and pos[0] + 1 < len(ka) and rx.is_word_boundary(ka[pos[0] + 1])
    R.check(okb, C, 'keyword-boundary-before', 'a keyword must start at a word boundary (`Pin` is not `in`)',
            'no word boundary before the _KEYWORD group: identifiers ending in a keyword would be split')
    R.check(oka, C, 'keyword-boundary-after', 'a keyword must end at a word boundary (`is_open`, `not_X` are names)',
            'no word boundary after the _KEYWORD group: identifiers starting with a keyword (is_open, not_X) would be split')
    lang = rx.finite_language(rx.find_group(ka, gk) or [])
    R.check(lang == set(keyword.kwlist), C, 'keyword-language', 'the keyword group matches exactly keyword.kwlist',
            f'the _KEYWORD group matches {sorted(lang)[:6] if lang else lang}..., not keyword.kwlist')
    # source level: built from keyword.kwlist
    kl = R.repo.module_assign(P, 'KEYWORD_LIST')
    R.check('keyword.kwlist' in text(kl), f'{P}.KEYWORD_LIST', 'kwlist-source', 'keyword alternation is built from keyword.kwlist',
            f'KEYWORD_LIST is `{text(kl)}`')
    # INVALID: keyword ws* [ ... ]
    ia = rx.find_group(alts[ii], gd['_INVALID']) or []
    core = rx.strip_ws(ia)
    kwpart = []
    for it in core:
        if rx.is_literal(it, '['):
            break
        kwpart.append(it)
    lang_i = rx.finite_language(kwpart)
    ok = lang_i == set(keyword.kwlist) and len(core) == len(kwpart) + 3 and rx.is_literal(core[len(kwpart)], '[') \
        and rx.is_literal(core[-1], ']')
    R.check(ok, C, 'invalid-shape', 'INVALID = keyword followed by an index', 'the _INVALID group is not `keyword \\s* [ ... ]`')
    # FUNCTION: name ws* (?= \( )
    fa = alts[ifn]
    gf = gd['_FUNCTION']
    posf = [i for i, it in enumerate(fa) if it[0] is sc.SUBPATTERN and it[1][0] == gf]
    rest = fa[posf[0] + 1:] if posf else []
    core = rx.strip_ws(rest)
    look = len(core) == 1 and core[0][0] is sc.ASSERT and core[0][1][0] == 1 and len(rx.items(core[0][1][1])) == 1 \
        and rx.is_literal(rx.items(core[0][1][1])[0], '(')
    R.check(look, C, 'function-lookahead', 'a function name is a name followed by `(` (lookahead)', 'no `(?= \\( )` lookahead after the _FUNCTION group')
    R.check(len(rest) == 2 and rx.is_ws_star(rest[0]), C, 'function-ws', 'whitespace allowed between function name and `(`',
            'no optional whitespace between the _FUNCTION group and the `(` lookahead')
    # group names minus '_' are Type members
    types = fold_enum(R.repo, P, 'Type')
    for name in gd:
        if name.startswith('_'):
            R.check(name[1:] in types, C, f'group-type:{name}', f'group {name} names a Type member',
                    f'regex group `{name}` has no Type member `{name[1:]}` (Type[...] would raise KeyError)')
    # identifier shape of the three variable-like groups and brace/angle wrappers
    va = alts[ivar]
    br = va[0]
    if br[0] is sc.BRANCH:
        wrappers = {'_PARAMETER': ('{', '}'), '_ERROR': ('<', '>'), '_VARIABLE': None}
        for sub in br[1][1]:
            its = rx.items(sub)
            nums = rx.group_numbers(its)
            for gname, wr in wrappers.items():
                if gd[gname] in nums:
                    R.check(rx.is_identifier(rx.find_group(its, gd[gname]) or []), C, f'identifier:{gname}', f'{gname} is an identifier',
                            f'{gname} group is not `[_A-Za-z][_A-Za-z0-9]*`')
                    core = rx.strip_ws(its)
                    if wr:
                        ok = len(core) == 3 and rx.is_literal(core[0], wr[0]) and rx.is_literal(core[2], wr[1])
                        R.check(ok, C, f'wrapper:{gname}', f'{gname} is written {wr[0]}name{wr[1]}', f'{gname} is not wrapped in {wr[0]} {wr[1]}')
                        wsok = len(its) == 5 and rx.is_ws_star(its[1]) and rx.is_ws_star(its[3])
                        R.check(wsok, C, f'wrapper-ws:{gname}', f'spaces allowed inside {wr[0]} {wr[1]}',
                                f'no optional whitespace inside the {wr[0]} {wr[1]} of {gname}')
                    else:
                        R.check(len(core) == 1, C, f'wrapper:{gname}', 'a variable is a bare identifier', 'VARIABLE alternative has extra items')


def r6_order(R) -> None:
    sites = 0
    for q, seeds in (
        (f'{P}.build_model_definition', ['symbols']),
        (f'{P}.parse_model', ['model']),
        (f'{P}.parse_equation', ['terms']),
        (f'{P}.build_model', ['symbols']),
    ):
        fi = R.repo.func(q)
        tainted = tainted_names(fi.node, seeds)
        bad = reordering_sites(fi.node, tainted)
        sites += 1
        if not bad:
            R.ok(q, 'no reordering combinator (sorted/reversed/set/sort) on the symbol flow', detail={'flow_names': sorted(tainted)[:12]})
        for c in bad:
            R.violation(q, 'reorder:' + text(c)[:60], f'`{text(c)[:70]}` reorders the symbol/equation flow (Gauss-Seidel order = symbol-list order)',
                        where=f'{fi.module.relpath}:{c.lineno}')
    # the block of equations is generated by one pass over `symbols`, in order (read on the gated value of the
    # `equations` field of the class template)
    from fsa.gated import SymExec, canon
    from rules.c03 import _stmt_of, _template_call
    fi = R.repo.func(f'{P}.build_model_definition')
    se = SymExec(fi.node, inline_helpers=False)
    call = _template_call(fi, ['endogenous', 'exogenous', 'parameters', 'errors', 'lags', 'leads', 'equations'])
    eqv = canon(se.value(_stmt_of(fi.node, se, call), [k.value for k in call.keywords if k.arg == 'equations'][0]))

    def conv_comps(v):
        return [x for x in ast.walk(v) if isinstance(x, (ast.ListComp, ast.GeneratorExp))
                and any(isinstance(y, ast.Call) and (isinstance(y.func, ast.IfExp) or (isinstance(y.func, ast.Name) and 'convert' in y.func.id)) for y in ast.walk(x.elt))]
    comps = conv_comps(eqv)
    if not comps:
        # the conversion may sit in a helper (module-level or nested) and the indentation in a second comprehension over
        # its result: read the helpers, fuse the comprehensions
        se2 = Fn(R, fi.qualname).symexec(deep=True)
        eqv = canon(se2.value(_stmt_of(fi.node, se2, call), [k.value for k in call.keywords if k.arg == 'equations'][0]), fuse=True)
        comps = [x for x in conv_comps(eqv) if not any(y is not x and isinstance(y, (ast.ListComp, ast.GeneratorExp)) and any(z is x for z in ast.walk(y)) for y in conv_comps(eqv))]
    sym_param = (fi.params() + ['symbols'])[0]
    if not comps:
        raise Unknown(f'{fi.qualname}: the converted expressions are not a comprehension in `{text(eqv)[:80]}`')
    ok = all(len(c.generators) == 1 and isinstance(c.generators[0].iter, ast.Name) and c.generators[0].iter.id == sym_param for c in comps)
    R.check(ok, fi.qualname, 'expressions-iter', 'equations are generated in symbol-list order', 'the converted expressions are not produced by one pass over `symbols`', where=fi.where)


def run(R) -> None:
    R.explanation = (
        'C01: per-branch string-shape summaries of Term.__str__/Term.code compared with the rendering table the property fixes; '
        'replacement table by constant folding, names needed by generated classes vs names bound in the exec namespace; one '
        'template + one term list by reaching definitions; index parsing; structure of term_re on its re._parser AST '
        '(alternation priorities, word boundaries, keyword language = keyword.kwlist, lookaheads, identifier classes, optional '
        'whitespace); absence of reordering combinators on the symbol flow. Does not decide that the regex tokenises every '
        'program correctly nor float results.'
    )
    R.rule('C01.R1', lambda: r1_term_rendering(R))
    R.rule('C01.R2', lambda: r2_replacement_table(R))
    R.rule('C01.R3', lambda: r3_one_template(R))
    R.rule('C01.R4', lambda: r4_index_parsing(R))
    R.rule('C01.R5', lambda: r5_tokeniser(R))
    R.rule('C01.R6', lambda: r6_order(R))
    # "the pass writes nothing except those left-hand-side elements": every generated statement is one plain assignment
    # with one target (C13.R5b owns the reader)
    from rules import c13
    R.rule('C01.R7', lambda: c13.r5b_statement_kind(R))
