"""C06 - numerical-error and failure policies follow the documented state machine.

R1 status alphabet (package-wide), R2 policy table of the current-pass
non-finite branch, R3 previous-pass non-finite skip, R4 exception discipline,
R5 pre-existing non-finite rejection, R6 warnings-filter agreement, R7 solved flag.
"""

from __future__ import annotations

import ast
from typing import Dict, List, Optional, Tuple

from fsa.cfg import CFG, raised_class
from fsa.consts import fold_enum
from fsa.flow import LocalFlow, PARAM, must_pass
from fsa.match import (
    pred_call_attr,
    pred_raise,
    cmp_of,
    conj_atoms,
    Cmp,
    affine,
    dotted,
    enum_value_ref,
    is_call,
    is_const,
    is_self_call,
    kwarg,
    nonfinite_test,
    str_eq_test,
)
from fsa.source import AnchorMissing, Unsupported, iter_own_nodes, stmt_key, text
from rules.solver_common import SolverShape, expr, guard_atoms, mode_chain, series_stores, value_roles

Q = 'fsic.core.models.BaseModel.solve_t'
ALPHABET = {'UNSOLVED': '-', 'SOLVED': '.', 'FAILED': 'F', 'ERROR': 'E', 'SKIPPED': 'S'}


def r1_alphabet(R) -> None:
    members = fold_enum(R.repo, 'fsic.core.interfaces', 'SolutionStatus')
    R.check(members == ALPHABET, 'fsic.core.interfaces.SolutionStatus', 'alphabet:' + repr(sorted(members.items())),
            "SolutionStatus values are exactly '-', '.', 'F', 'E', 'S'",
            f'SolutionStatus members are {members}, expected {ALPHABET}')
    sites = 0
    for fi in R.repo.all_functions():
        if fi.parent is not None:
            continue
        has = any(isinstance(n, ast.Attribute) and n.attr == 'status' for n in ast.walk(fi.node)) or \
            any(isinstance(n, ast.Constant) and n.value == 'status' for n in ast.walk(fi.node))
        if not has:
            continue
        cfg = CFG(fi.node)
        lf = LocalFlow(cfg, fi.params())
        R.saw_function(fi, cfg)

        def judge(nid: int, v: ast.AST, what: str) -> None:
            nonlocal sites
            vals: List[Tuple[str, Optional[ast.AST]]] = []
            if isinstance(v, ast.Name):
                for (s, dv) in lf.values_reaching(nid, v.id):
                    vals.append((f'def@L{cfg.nodes[s].lineno if s != PARAM else 0}', dv))
            else:
                vals.append(('direct', v))
            # conditional expressions: each arm is a value of its own
            flat: List[Tuple[str, Optional[ast.AST]]] = []
            for (tag, dv) in vals:
                stack = [dv]
                while stack:
                    x = stack.pop()
                    if isinstance(x, ast.IfExp):
                        stack += [x.body, x.orelse]
                    else:
                        flat.append((tag, x))
            vals = flat
            for (tag, dv) in vals:
                sites += 1
                ok = dv is not None and enum_value_ref(dv) in ALPHABET
                # fill_values.get('status', <enum>) : caller-supplied override allowed by C12
                if not ok and dv is not None and isinstance(dv, ast.Call) and isinstance(dv.func, ast.Attribute) \
                        and dv.func.attr == 'get' and len(dv.args) == 2 and is_const(dv.args[0], 'status'):
                    ok = enum_value_ref(dv.args[1]) in ALPHABET
                R.check(ok, fi.qualname, f'status-value:{text(dv) if dv is not None else "?"}',
                        f'{what}: value is SolutionStatus.<member>.value',
                        f'{what}: value `{text(dv) if dv is not None else "<parameter>"}` is not `SolutionStatus.<member>.value`',
                        where=f'{fi.module.relpath}:{cfg.nodes[nid].lineno}')

        for st in series_stores(cfg):
            if st.series == 'status':
                if st.value is None or st.aug:
                    R.violation(fi.qualname, 'status-aug:' + stmt_key(st.node.ast), 'augmented store into a status series',
                                where=f'{fi.module.relpath}:{st.node.lineno}')
                    continue
                judge(st.node.id, st.value, f'store {st.owner}.status[{text(st.index)}]')
        for n in cfg.nodes:
            if n.ast is None or n.kind != 'stmt':
                continue
            for c in ast.walk(n.ast):
                if isinstance(c, ast.Call) and isinstance(c.func, ast.Attribute) and c.func.attr == 'add_variable' \
                        and c.args and is_const(c.args[0], 'status') and len(c.args) >= 2:
                    judge(n.id, c.args[1], "add_variable('status', ...)")
            a = n.ast
            # `fill_values['status'] = ...` where fill_values is the function's **kwargs (reindex defaults)
            kwname = fi.node.args.kwarg.arg if fi.node.args.kwarg else None
            if isinstance(a, ast.Assign) and len(a.targets) == 1 and isinstance(a.targets[0], ast.Subscript) \
                    and is_const(a.targets[0].slice, 'status') and isinstance(a.targets[0].value, ast.Name) \
                    and a.targets[0].value.id == kwname:
                judge(n.id, a.value, f"{text(a.targets[0].value)}['status'] default")
    R.expect('fsic/*', sites, 20, 'values stored into status series (stores x reaching definitions)')


def r2_policy_table(R, sh: SolverShape) -> None:
    cur, prev = value_roles(sh)
    nf_cur = [n for n in sh.tests() if sh.in_loop(n) and nonfinite_test(n.ast) == cur]
    if not R.require(sh.q, len(nf_cur), f'test for non-finite values in `{cur}` after each pass', fi=sh.fi, pred=pred_call_attr('isfinite')):
        return
    nf = nf_cur[0]
    conv, _ = sh.convergence_node()
    # mode tests inside the branch
    mode_tests: Dict[str, object] = {}
    for n in sh.tests():
        if (nf.id, 'T') not in sh.guards_of(n.id):
            continue
        se = str_eq_test(n.ast)
        if se and se[0] == 'errors' and se[2]:
            mode_tests[se[1]] = n
    for m in ('raise', 'skip', 'ignore', 'replace'):
        if m not in mode_tests:
            R.violation(sh.q, f'policy-row-missing:{m}', f"no `errors == '{m}'` row in the non-finite branch", where=sh.where(nf))
    extra = set(mode_tests) - {'raise', 'skip', 'ignore', 'replace'}
    for m in sorted(extra):
        R.violation(sh.q, f'policy-row-extra:{m}', f"unexpected `errors == '{m}'` row in the non-finite branch",
                    where=sh.where(mode_tests[m]))

    def entry(m: str) -> List[int]:
        return [b for (b, lab) in mode_tests[m].succ if lab == 'T']

    def region(m: str) -> List[int]:
        out = []
        for n in sh.cfg.nodes:
            if (mode_tests[m].id, 'T') in sh.guards_of(n.id):
                out.append(n.id)
        return out

    # every row: the pass is never judged for convergence
    for m, tn in mode_tests.items():
        ok = all(must_pass(sh.cfg, b, conv.id, [sh.loop.id]) for b in entry(m))
        R.check(ok, sh.q, f'policy:{m}:not-judged', f"errors='{m}': a pass that produced non-finite values is not judged for convergence",
                f"errors='{m}': the convergence test is reachable in the same pass", where=sh.where(tn))
    # raise
    if 'raise' in mode_tests:
        reg = region('raise')
        st = [s for s in sh.stores if s.node.id in reg and s.owner == 'self']
        has_e = any(s.series == 'status' and enum_value_ref(s.value) == 'ERROR' and text(s.index) == 't' for s in st)
        has_i = any(s.series == 'iterations' and isinstance(s.value, ast.Name) and s.value.id == sh.counter and text(s.index) == 't' for s in st)
        rs = [sh.cfg.nodes[i] for i in reg if isinstance(sh.cfg.nodes[i].ast, ast.Raise)]
        R.check(has_e, sh.q, 'policy:raise:status', "errors='raise': status[t] = 'E'", "errors='raise' row does not store SolutionStatus.ERROR at t",
                where=sh.where(mode_tests['raise']))
        R.check(has_i, sh.q, 'policy:raise:iterations', "errors='raise': iterations[t] = this pass",
                "errors='raise' row does not store the pass counter in iterations[t]", where=sh.where(mode_tests['raise']))
        ok = bool(rs) and all(raised_class(r.ast) == 'SolutionError' for r in rs)
        R.check(ok, sh.q, 'policy:raise:exception', "errors='raise': raises SolutionError",
                "errors='raise' row does not raise SolutionError", where=sh.where(mode_tests['raise']))
        # all paths from the row end in that raise
        leaves = all(not sh.cfg.reaches(b, sh.loop.id) and not sh.cfg.reaches(b, sh.cfg.exit) for b in entry('raise'))
        R.check(leaves, sh.q, 'policy:raise:terminal', "errors='raise': the row always ends in the exception",
                "errors='raise' row can fall through without raising", where=sh.where(mode_tests['raise']))
        # stores precede the raise
        for r in rs:
            for s in st:
                if s.series in ('status', 'iterations'):
                    R.check(s.node.id in sh.dom[r.id], sh.q, f'policy:raise:store-before-raise:{s.series}',
                            f"'E' bookkeeping ({s.series}) dominates the raise", f'{s.series} store does not dominate the raise',
                            where=sh.where(s.node))
    # skip
    if 'skip' in mode_tests:
        reg = region('skip')
        defs = [n for (n, m) in sh.status_defs() if n.id in reg]
        ok = len(defs) >= 1 and all(enum_value_ref(d.ast.value) == 'SKIPPED' for d in defs)
        R.check(ok, sh.q, 'policy:skip:status', "errors='skip': status 'S'", "errors='skip' row does not set SolutionStatus.SKIPPED",
                where=sh.where(mode_tests['skip']))
        leaves = all(not sh.cfg.reaches(b, sh.loop.id) for b in entry('skip'))
        R.check(leaves, sh.q, 'policy:skip:leaves-loop', "errors='skip': the pass loop is left at once",
                "errors='skip' row can return to the pass loop (keeps iterating)", where=sh.where(mode_tests['skip']))
        noraise = all(not sh.cfg.reaches(b, sh.cfg.raise_exit, avoid=[sh.final_store('status').id]) for b in entry('skip'))
        R.check(noraise, sh.q, 'policy:skip:no-exception', "errors='skip': no exception before the bookkeeping",
                "errors='skip' row can raise before recording status", where=sh.where(mode_tests['skip']))
    # ignore / replace
    last = Cmp('==', affine(expr(f'{sh.counter} - max_iter')))
    for m in ('ignore', 'replace'):
        if m not in mode_tests:
            continue
        reg = region(m)
        breaks = [sh.cfg.nodes[i] for i in reg if isinstance(sh.cfg.nodes[i].ast, ast.Break)]
        defs = [n for (n, mm) in sh.status_defs() if n.id in reg]
        ok = all(enum_value_ref(d.ast.value) == 'FAILED' for d in defs) and len(defs) >= 1
        R.check(ok, sh.q, f'policy:{m}:status', f"errors='{m}': only 'F' may be assigned",
                f"errors='{m}' row assigns a status other than FAILED", where=sh.where(mode_tests[m]))
        for b in breaks:
            g_last = any(truth and cmp_of(a) is not None and cmp_of(a) == last for (a, truth, tn) in guard_atoms(sh, b.id))
            R.check(g_last, sh.q, f'policy:{m}:break-only-last-pass', f"errors='{m}': the loop is left only on the last pass",
                    f"errors='{m}' row leaves the loop on a pass that is not `{sh.counter} == max_iter`", where=sh.where(b))
            via = all(must_pass(sh.cfg, e, b.id, [d.id for d in defs]) for e in entry(m))
            R.check(via, sh.q, f'policy:{m}:break-sets-F', f"errors='{m}': leaving the loop sets 'F'",
                    f"errors='{m}' row can break without setting FAILED", where=sh.where(b))
        # otherwise: next pass
        cont = any(sh.cfg.reaches(e, sh.loop.id) for e in entry(m))
        R.check(cont and bool(breaks), sh.q, f'policy:{m}:continues', f"errors='{m}': keeps iterating until the last pass",
                f"errors='{m}' row never continues to the next pass or never fails on the last", where=sh.where(mode_tests[m]))
        noraise = all(not sh.cfg.reaches(e, sh.cfg.raise_exit, avoid=[sh.loop.id, sh.final_store('status').id]) for e in entry(m))
        R.check(noraise, sh.q, f'policy:{m}:no-exception', f"errors='{m}': no exception from the row itself",
                f"errors='{m}' row can raise", where=sh.where(mode_tests[m]))
    # else: ValueError
    ve = []
    for r in sh.raises('ValueError'):
        g = sh.guards_of(r.id)
        if (nf.id, 'T') in g and all((tn.id, 'F') in g for tn in mode_tests.values()):
            ve.append(r)
    R.check(len(ve) == 1, sh.q, 'policy:invalid', 'an unknown errors= value raises ValueError',
            'no `raise ValueError` reached when errors matches none of the four policies', where=sh.where(nf))


def r3_previous_nonfinite(R, sh: SolverShape) -> None:
    cur, prev = value_roles(sh)
    nfp = [n for n in sh.tests() if sh.in_loop(n) and nonfinite_test(n.ast) == prev]
    nfc = [n for n in sh.tests() if sh.in_loop(n) and nonfinite_test(n.ast) == cur]
    if not R.require(sh.q, len(nfp), f'non-finite test of `{prev}` (previous pass)', fi=sh.fi, pred=pred_call_attr('isfinite')) \
            or not R.require(sh.q, len(nfc), f'non-finite test of `{cur}` (current pass)', fi=sh.fi, pred=pred_call_attr('isfinite')):
        return
    p, c = nfp[0], nfc[0]
    conv, _ = sh.convergence_node()
    R.check((p.id, 'F') in sh.guards_of(c.id), sh.q, 'prev-before-cur',
            'the previous-pass non-finite test guards the current-pass test',
            f'`{text(c.ast)}` can be reached without `{text(p.ast)}` being false (a pass starting from non-finite values is judged)',
            where=sh.where(c), path=sh.path_to(c))
    R.check((p.id, 'F') in sh.guards_of(conv.id), sh.q, 'prev-before-conv',
            'the previous-pass non-finite test guards the convergence test',
            'the convergence test is reachable when the previous pass was non-finite', where=sh.where(conv))
    R.check((c.id, 'F') in sh.guards_of(conv.id), sh.q, 'cur-before-conv',
            'the current-pass non-finite test guards the convergence test',
            'the convergence test is reachable when the current pass is non-finite', where=sh.where(conv))
    tsucc = [b for (b, lab) in p.succ if lab == 'T']
    ok = all(must_pass(sh.cfg, b, x, [sh.loop.id]) for b in tsucc for x in (c.id, conv.id)) and \
        all(not sh.cfg.reaches(b, sh.cfg.exit, avoid=[sh.loop.id]) for b in tsucc)
    R.check(ok, sh.q, 'prev-continue', 'previous pass non-finite -> next pass', 'previous-non-finite branch does not simply continue',
            where=sh.where(p))
    # both tests come after the evaluation and the re-read
    R.check(sh.n_eval.id in sh.dom[p.id] and sh.n_eval.id in sh.dom[c.id], sh.q, 'nonfinite-after-eval',
            'non-finite tests follow the evaluation call', 'a non-finite test precedes the evaluation call', where=sh.where(p))


def _parents(fnode: ast.AST) -> Dict[int, ast.AST]:
    par: Dict[int, ast.AST] = {}
    for n in ast.walk(fnode):
        for c in ast.iter_child_nodes(n):
            par[id(c)] = n
    return par


def _enclosing(par, node, typ):
    cur = par.get(id(node))
    while cur is not None:
        if isinstance(cur, typ):
            return cur
        cur = par.get(id(cur))
    return None


def _in_try_body(par, node) -> Optional[ast.Try]:
    """Innermost Try whose *body* (not handlers) contains node."""
    cur, child = par.get(id(node)), node
    while cur is not None:
        if isinstance(cur, ast.Try) and any(child is s for s in cur.body):
            return cur
        child, cur = cur, par.get(id(cur))
    return None


def r4_exception_discipline(R, sh: SolverShape) -> None:
    par = _parents(sh.fi.node)
    for m in ('solve_t_before', sh.eval_call, 'solve_t_after'):
        for n in sh.calls_self(m):
            call = sh.call_expr(n, m)
            tr = _in_try_body(par, call)
            if tr is None:
                R.violation(sh.q, f'hook-not-in-try:{m}', f'self.{m}() is not inside a try block: its exceptions escape unwrapped',
                            where=sh.where(n))
                continue
            hs = [h for h in tr.handlers if h.type is not None and text(h.type).split('.')[-1] in ('Exception', 'BaseException')]
            if len(hs) != 1 or not hs[0].name:
                R.violation(sh.q, f'hook-handler:{m}', f'self.{m}(): no single `except Exception as e` handler', where=sh.where(n))
                continue
            h = hs[0]
            rs = [x for x in h.body if isinstance(x, ast.Raise)]
            ok = len(rs) == 1 and h.body[-1] is rs[0] and raised_class(rs[0]) == 'SolutionError' \
                and isinstance(rs[0].cause, ast.Name) and rs[0].cause.id == h.name
            R.check(ok, sh.q, f'hook-wrap:{m}', f'self.{m}(): any exception surfaces as SolutionError chained to the original',
                    f'handler of self.{m}() does not end in `raise SolutionError(...) from {h.name}`', where=sh.where(n))
            # no other handler swallows
            others = [x for x in tr.handlers if x is not h]
            for o in others:
                if not any(isinstance(x, ast.Raise) for x in ast.walk(o)):
                    R.violation(sh.q, f'hook-swallow:{m}:{text(o.type) if o.type else "bare"}',
                                f'a handler around self.{m}() swallows `{text(o.type) if o.type else "everything"}`', where=sh.where(n))
            if m == sh.eval_call:
                # E bookkeeping under errors == 'raise' before the raise
                has_e = has_i = False
                for x in h.body:
                    if isinstance(x, ast.If) and str_eq_test(x.test) == ('errors', 'raise', True):
                        for y in x.body:
                            if isinstance(y, ast.Assign) and len(y.targets) == 1 and isinstance(y.targets[0], ast.Subscript):
                                tg = y.targets[0]
                                if text(tg.value) == 'self.status' and text(tg.slice) == 't' and enum_value_ref(y.value) == 'ERROR':
                                    has_e = True
                                if text(tg.value) == 'self.iterations' and text(tg.slice) == 't' and text(y.value) == sh.counter:
                                    has_i = True
                R.check(has_e and has_i, sh.q, 'eval-handler-bookkeeping',
                        "evaluation-pass exception records 'E' and the pass number under errors == 'raise'",
                        f"handler of self.{m}() does not store status[t]='E' and iterations[t]={sh.counter} under errors == 'raise'",
                        where=sh.where(n))


def r4_package_from_e(R) -> None:
    n_sites = 0
    for fi in R.repo.all_functions():
        for node in iter_own_nodes(fi.node):
            if isinstance(node, ast.ExceptHandler) and node.name:
                for x in ast.walk(node):
                    if isinstance(x, ast.Raise) and x.exc is not None:
                        # skip raises nested in inner handlers with their own name
                        n_sites += 1
                        ok = isinstance(x.cause, ast.Name) and x.cause.id == node.name
                        R.check(ok, fi.qualname, f'from-e:{stmt_key(x)[:80]}',
                                f'raise inside `except ... as {node.name}` is chained with `from {node.name}`',
                                f'`{text(x)[:70]}` inside `except ... as {node.name}` drops the original exception (no `from {node.name}`)',
                                where=f'{fi.module.relpath}:{x.lineno}')
    R.expect('fsic/*', n_sites, 12, 'raise statements inside named exception handlers')


def r5_preexisting(R, sh: SolverShape) -> None:
    cands = []
    for n in sh.tests():
        if sh.in_loop(n):
            continue
        atoms = conj_atoms(n.ast)
        modes = [str_eq_test(a) for a in atoms]
        nfs = [nonfinite_test(a) for a in atoms]
        if any(nf for nf in nfs):
            cands.append((n, atoms, modes, nfs))
    if not R.require(sh.q, len(cands), 'pre-existing non-finite test before the loop', fi=sh.fi, pred=pred_call_attr('isfinite')):
        return
    n, atoms, modes, nfs = cands[0]
    ok_mode = ('errors', 'raise', True) in modes and len(atoms) == 2
    R.check(ok_mode, sh.q, 'preexisting-guard', "pre-existing non-finite values are rejected exactly under errors == 'raise'",
            f"pre-existing check `{text(n.ast)}` is not `errors == 'raise' and <non-finite>`", where=sh.where(n))
    name = [x for x in nfs if x][0]
    vals = sh.lf.values_reaching(n.id, name) if name.isidentifier() else []
    ok_val = len(vals) == 1 and vals[0][1] is not None and isinstance(vals[0][1], ast.Call) and dotted(vals[0][1].func) == 'get_check_values'
    R.check(ok_val, sh.q, 'preexisting-values', 'the values tested are the check values read before any pass',
            f'`{name}` tested by the pre-existing check is not a fresh read of the check values', where=sh.where(n))
    rs = [r for r in sh.raises('SolutionError') if (n.id, 'T') in sh.guards_of(r.id) and not sh.in_loop(r)]
    R.check(len(rs) == 1 and any(b == rs[0].id for (b, lab) in n.succ if lab == 'T') if rs else False, sh.q, 'preexisting-raises',
            'pre-existing non-finite values raise SolutionError', 'the pre-existing check does not raise SolutionError', where=sh.where(n))
    nb = sh.calls_self('solve_t_before')
    for b in nb:
        R.check(n.id in sh.dom[b.id], sh.q, 'preexisting-before-hook', 'the rejection precedes solve_t_before',
                'solve_t_before can run before the pre-existing check', where=sh.where(b))
    R.check(n.id in sh.dom[sh.loop.id], sh.q, 'preexisting-before-loop', 'the rejection precedes the first pass',
            'the pass loop can start before the pre-existing check', where=sh.where(n))


def r6_filters(R, sh: SolverShape) -> None:
    par = _parents(sh.fi.node)
    n_blocks = 0
    for m in ('solve_t_before', sh.eval_call, 'solve_t_after'):
        for n in sh.calls_self(m):
            call = sh.call_expr(n, m)
            w = _enclosing(par, call, ast.With)
            if w is None or not any(dotted(getattr(i.context_expr, 'func', i.context_expr)) == 'warnings.catch_warnings' for i in w.items):
                R.violation(sh.q, f'filter-block:{m}', f'self.{m}() is not inside a `warnings.catch_warnings()` block', where=sh.where(n))
                continue
            n_blocks += 1
            # the filter selection inside this with-block, before the call
            sel = None
            for stmt in w.body:
                if isinstance(stmt, ast.If):
                    sel = stmt
                    break
                if isinstance(stmt, ast.Expr) and is_call(stmt.value, 'warnings.simplefilter'):
                    sel = stmt
                    break
                if isinstance(stmt, ast.Expr) and isinstance(stmt.value, ast.Call) and isinstance(stmt.value.func, ast.Name) \
                        and any(isinstance(x, ast.FunctionDef) and x.name == stmt.value.func.id and x is not sh.fi.node for x in ast.walk(sh.fi.node)):
                    sel = stmt
                    break
                if any(c is call for c in ast.walk(stmt)):
                    break
            if isinstance(sel, ast.Expr) and isinstance(sel.value, ast.Call) and isinstance(sel.value.func, ast.Name) and not sel.value.args and not sel.value.keywords:
                # selection extracted into a local helper: analyse its body
                helper = [x for x in ast.walk(sh.fi.node) if isinstance(x, ast.FunctionDef) and x.name == sel.value.func.id and x is not sh.fi.node]
                if len(helper) == 1:
                    body = [s_ for s_ in helper[0].body if not (isinstance(s_, ast.Expr) and isinstance(s_.value, ast.Constant))]
                    sel = body[0] if len(body) == 1 else None
            verdict = _filter_selection(sel)
            if verdict is None:
                raise Unsupported(f'{sh.q}: filter selection around self.{m}() not in the idiom table')
            R.check(verdict == 'ok', sh.q, f'filter-select:{m}',
                    f"around self.{m}(): 'error' exactly under errors == 'raise' and catch_first_error, else 'always'",
                    f'warnings filter around self.{m}(): {verdict}', where=sh.where(n))
    R.expect(sh.q, n_blocks, 3, 'catch_warnings blocks around the three user-code calls')


def _filter_selection(sel) -> Optional[str]:
    def cond_ok(test: ast.AST) -> bool:
        atoms = conj_atoms(test)
        if len(atoms) != 2:
            return False
        has_mode = any(str_eq_test(a) == ('errors', 'raise', True) for a in atoms)
        has_flag = any(isinstance(a, ast.Name) and a.id == 'catch_first_error' for a in atoms)
        return has_mode and has_flag

    def single_filter(body) -> Optional[str]:
        if len(body) == 1 and isinstance(body[0], ast.Expr) and is_call(body[0].value, 'warnings.simplefilter'):
            c = body[0].value
            if len(c.args) == 1 and isinstance(c.args[0], ast.Constant):
                return c.args[0].value
        return None

    if isinstance(sel, ast.If):
        t, f = single_filter(sel.body), single_filter(sel.orelse)
        if t is None or f is None:
            return None
        if not cond_ok(sel.test):
            return f"selection condition is `{text(sel.test)}`, expected `errors == 'raise' and catch_first_error`"
        if t != 'error' or f != 'always':
            return f"filters are ({t!r} if cond else {f!r}), expected ('error' if cond else 'always')"
        return 'ok'
    if isinstance(sel, ast.Expr) and is_call(sel.value, 'warnings.simplefilter'):
        a = sel.value.args[0] if sel.value.args else None
        if isinstance(a, ast.IfExp) and isinstance(a.body, ast.Constant) and isinstance(a.orelse, ast.Constant):
            if not cond_ok(a.test):
                return f"selection condition is `{text(a.test)}`, expected `errors == 'raise' and catch_first_error`"
            if a.body.value != 'error' or a.orelse.value != 'always':
                return f'filters are ({a.body.value!r} if cond else {a.orelse.value!r})'
            return 'ok'
        if isinstance(a, ast.Constant):
            return f'filter is unconditionally {a.value!r}'
    return None


def r7_solved_flag(R) -> None:
    q = 'fsic.core.interfaces.SolverMixin.solve'
    fi = R.repo.func(q)
    hits = 0
    for n in iter_own_nodes(fi.node):
        if isinstance(n, ast.Assign) and is_self_call(n.value, 'solve_t') and len(n.targets) == 1 \
                and isinstance(n.targets[0], ast.Subscript) and text(n.targets[0].value) == 'solved':
            hits += 1
    # the policy options reach solve_t unchanged from both the multi-period and the single-period entry point
    from rules import c02, c05
    c02.r9_solve_period(R)
    c05.r1_solve_loop(R)
    R.check(hits == 1, q, 'solved-flag', 'solve() records the flag returned by solve_t per period',
            'solve() does not store the result of self.solve_t(...) in solved[i]', where=fi.where)


def run(R) -> None:
    R.explanation = (
        'C06: status alphabet by constant folding of SolutionStatus + reaching definitions of every value stored into a '
        'status series package-wide; policy table of the non-finite branch extracted from guards (per errors= row: stores, '
        'exception class, loop exit/continue, last-pass test); previous-before-current-before-convergence ordering by guards; '
        'try/except discipline of the three user-code calls (SolutionError ... from e, E bookkeeping), package-wide `from e`; '
        'pre-existing rejection dominance; three-way agreement of the warnings filter selection. Does not decide which NumPy '
        'operations warn or that a warning leaves the target unstored (Python semantics).'
    )
    sh = SolverShape(R.repo, Q)
    R.saw_function(sh.fi, sh.cfg)
    R.rule('C06.R1', lambda: r1_alphabet(R))
    R.rule('C06.R2', lambda: r2_policy_table(R, sh))
    R.rule('C06.R3', lambda: r3_previous_nonfinite(R, sh))
    R.rule('C06.R4', lambda: (r4_exception_discipline(R, sh), r4_package_from_e(R)))
    R.rule('C06.R5', lambda: r5_preexisting(R, sh))
    R.rule('C06.R6', lambda: r6_filters(R, sh))
    R.rule('C06.R7', lambda: r7_solved_flag(R))
