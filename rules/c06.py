"""C06 - numerical-error and failure policies follow the documented state machine.

R1 status alphabet (package-wide), R2 policy table of the current-pass
non-finite branch, R3 previous-pass non-finite skip, R4 exception discipline,
R5 pre-existing non-finite rejection, R6 warnings-filter agreement, R7 solved flag.
"""

from __future__ import annotations

import ast
from typing import Dict, List, Optional, Tuple

from fsa.cfg import CFG, raised_class
from fsa.consts import fold_enum
from fsa.flow import LocalFlow, PARAM, must_pass
from fsa.match import (
    Unknown,
    pred_call_attr,
    pred_raise,
    cmp_of,
    conj_atoms,
    Cmp,
    affine,
    dotted,
    enum_value_ref,
    is_call,
    is_const,
    is_self_call,
    kwarg,
    nonfinite_test,
    str_eq_test,
)
from fsa.source import AnchorMissing, Unsupported, iter_own_nodes, stmt_key, text
from rules.solver_common import NFView, is_check_read, SolverShape, expr, guard_atoms, mode_chain, series_stores, value_roles

Q = 'fsic.core.models.BaseModel.solve_t'
ALPHABET = {'UNSOLVED': '-', 'SOLVED': '.', 'FAILED': 'F', 'ERROR': 'E', 'SKIPPED': 'S'}


def r1_alphabet(R) -> None:
    members = fold_enum(R.repo, 'fsic.core.interfaces', 'SolutionStatus')
    R.check(members == ALPHABET, 'fsic.core.interfaces.SolutionStatus', 'alphabet:' + repr(sorted(members.items())),
            "SolutionStatus values are exactly '-', '.', 'F', 'E', 'S'",
            f'SolutionStatus members are {members}, expected {ALPHABET}')
    sites = 0
    for fi in R.repo.all_functions():
        if fi.parent is not None:
            continue
        has = any(isinstance(n, ast.Attribute) and n.attr == 'status' for n in ast.walk(fi.node)) or \
            any(isinstance(n, ast.Constant) and n.value == 'status' for n in ast.walk(fi.node))
        if not has:
            continue
        cfg = CFG(fi.node)
        lf = LocalFlow(cfg, fi.params())
        R.saw_function(fi, cfg)

        def judge(nid: int, v: ast.AST, what: str) -> None:
            nonlocal sites
            vals: List[Tuple[str, Optional[ast.AST]]] = []
            if isinstance(v, ast.Name):
                for (s, dv) in lf.values_reaching(nid, v.id):
                    vals.append((f'def@L{cfg.nodes[s].lineno if s != PARAM else 0}', dv))
            else:
                vals.append(('direct', v))
            # conditional expressions: each arm is a value of its own
            flat: List[Tuple[str, Optional[ast.AST]]] = []
            for (tag, dv) in vals:
                stack = [dv]
                while stack:
                    x = stack.pop()
                    if isinstance(x, ast.IfExp):
                        stack += [x.body, x.orelse]
                    else:
                        flat.append((tag, x))
            vals = flat
            for (tag, dv) in vals:
                sites += 1
                ok = dv is not None and enum_value_ref(dv) in ALPHABET
                if not ok and isinstance(dv, ast.Attribute) and dv.attr == 'value' and isinstance(dv.value, ast.Name) and dv.value.id in lf.locals:
                    # `<member>.value` where the member was chosen earlier and carried in a local: every value the local
                    # can hold here is a member of the enumeration (None aside, where the store is guarded by `is not None`)
                    members = []
                    for (s2, mv) in lf.values_reaching(nid, dv.value.id):
                        stack2 = [mv]
                        while stack2:
                            y = stack2.pop()
                            if isinstance(y, ast.IfExp):
                                stack2 += [y.body, y.orelse]
                            else:
                                members.append(y)
                    if members and all(m_ is not None and (is_const(m_, None) or (isinstance(m_, ast.Attribute) and isinstance(m_.value, ast.Name) and m_.value.id == 'SolutionStatus'
                                                                                    and m_.attr in ALPHABET)) for m_ in members):
                        ok = True
                        sites += len([m_ for m_ in members if not is_const(m_, None)]) - 1
                # fill_values.get('status', <enum>) : caller-supplied override allowed by C12
                if not ok and dv is not None and isinstance(dv, ast.Call) and isinstance(dv.func, ast.Attribute) \
                        and dv.func.attr == 'get' and len(dv.args) == 2 and is_const(dv.args[0], 'status'):
                    ok = enum_value_ref(dv.args[1]) in ALPHABET
                if not ok and dv is not None and not isinstance(dv, (ast.Constant, ast.JoinedStr, ast.Attribute)):
                    # an element / slice of a local array, a call, arithmetic: where the codes come from is not read here
                    raise Unknown(f'{fi.qualname}: {what}: the value `{text(dv)[:60]}` is computed (array selection, call): its status codes are not read')
                R.check(ok, fi.qualname, f'status-value:{text(dv) if dv is not None else "?"}',
                        f'{what}: value is SolutionStatus.<member>.value',
                        f'{what}: value `{text(dv) if dv is not None else "<parameter>"}` is not `SolutionStatus.<member>.value`',
                        where=f'{fi.module.relpath}:{cfg.nodes[nid].lineno}')

        for st in series_stores(cfg):
            if st.series == 'status':
                if st.value is None or st.aug:
                    R.violation(fi.qualname, 'status-aug:' + stmt_key(st.node.ast), 'augmented store into a status series',
                                where=f'{fi.module.relpath}:{st.node.lineno}')
                    continue
                judge(st.node.id, st.value, f'store {st.owner}.status[{text(st.index)}]')
        for n in cfg.nodes:
            if n.ast is None or n.kind != 'stmt':
                continue
            for c in ast.walk(n.ast):
                if isinstance(c, ast.Call) and isinstance(c.func, ast.Attribute) and c.func.attr == 'add_variable' \
                        and c.args and is_const(c.args[0], 'status') and len(c.args) >= 2:
                    judge(n.id, c.args[1], "add_variable('status', ...)")
            a = n.ast
            # `fill_values['status'] = ...` where fill_values is the function's **kwargs (reindex defaults)
            kwname = fi.node.args.kwarg.arg if fi.node.args.kwarg else None
            if isinstance(a, ast.Assign) and len(a.targets) == 1 and isinstance(a.targets[0], ast.Subscript) \
                    and is_const(a.targets[0].slice, 'status') and isinstance(a.targets[0].value, ast.Name) \
                    and a.targets[0].value.id == kwname:
                judge(n.id, a.value, f"{text(a.targets[0].value)}['status'] default")
    R.expect('fsic/*', sites, 20, 'values stored into status series (stores x reaching definitions)')


def r2_policy_table(R, sh: SolverShape) -> None:
    nfv = NFView(sh)
    cur, prev = nfv.cur, nfv.prev
    # the test whose true edge means "this pass produced a non-finite value" (alone, or as one conjunct)
    nf_cur = [n for n in nfv.tests('NF__cur') if nfv.implied_by_true_edge(n, 'NF__cur')]
    if not R.require(sh.q, len(nf_cur), f'test for non-finite values in `{cur}` after each pass', fi=sh.fi, pred=pred_call_attr('isfinite')):
        return
    nf = nf_cur[0]
    conv, _ = sh.convergence_node()
    # the policy applies at the first pass that leaves non-finite values behind, whatever min_iter: no fact about min_iter
    # stands between the evaluation and the non-finite test
    from fsa.match import entails
    for nfn in nf_cur:
        facts_ = [(a_, tr_, tn_) for (a_, tr_, tn_) in guard_atoms(sh, nfn.id) if sh.in_loop(tn_)]
        gated = entails(facts_, expr(f'{sh.counter} < min_iter'), False)
        shown_ = [text(a_)[:40] for (a_, tr_, tn_) in facts_ if any(isinstance(x, ast.Name) and x.id == 'min_iter' for x in ast.walk(a_))]
        R.check(not gated, sh.q, 'policy-not-gated-by-min-iter', 'the error policy is reached on every pass, forced (below min_iter) or not',
                f'`{text(nfn.ast)[:50]}` is reached only when the pass is not below min_iter ({shown_}): a pass below min_iter that produces non-finite values '
                f'bypasses the errors= policy (no raise / skip / replace)', where=sh.where(nfn))
    # The policy table is decided path-sensitively: the exploration is split by the value of `errors`
    # (raise / skip / ignore / replace / anything else), so it does not matter whether the rows are an if/elif ladder,
    # guard clauses, or share code.  For each value: the part of the product graph entered through the true edge of
    # the non-finite test, up to the next loop header.
    from fsa.pathsens import OTHER
    fl = sh.mode_flags
    if 'errors' not in fl.idx:
        raise Unsupported(f'{sh.q}: `errors` is rebound in the function; policy table not decided')
    ei = fl.idx['errors']
    last = Cmp('==', affine(expr(f'{sh.counter} - max_iter')))
    lastpass_edges = []
    for tn in sh.tests():
        if sh.in_loop(tn):
            from fsa.match import nnf_atoms
            for (a_, tr) in nnf_atoms(tn.ast, True):
                c_ = cmp_of(a_)
                if tr and c_ is not None and c_ == last:
                    lastpass_edges.append((tn.id, 'T'))
    fs_status = sh.final_store('status')

    def starts(mode):
        out = []
        for s_ in fl.states_at(nf.id):
            if s_[ei][0] == 'c' and s_[ei][2] == mode:
                for (q_, lab) in fl.succ[(nf.id, s_)]:
                    if lab == 'T':
                        out.append(q_)
        return out

    def nodes(pn):
        return {p_[0] for p_ in pn}

    for m in ('raise', 'skip', 'ignore', 'replace', OTHER):
        st0 = starts(m)
        shown = m if isinstance(m, str) else '<anything else>'
        if not st0:
            if isinstance(m, str):
                R.violation(sh.q, f'policy-row-missing:{m}', f"errors='{m}' never reaches the non-finite branch (rejected or diverted before it)", where=sh.where(nf), mismatch=True)
            continue
        this_pass = fl.reach(st0, avoid_nodes=[sh.loop.id])
        onward = fl.reach(st0)
        N = nodes(this_pass)
        R.check(conv.id not in N, sh.q, f'policy:{shown}:not-judged', f"errors='{shown}': a pass that produced non-finite values is not judged for convergence",
                f"errors='{shown}': the convergence test is reachable in the same pass", where=sh.where(nf))
        raises_here = [sh.cfg.nodes[i] for i in N if isinstance(sh.cfg.nodes[i].ast, ast.Raise)]
        breaks = [sh.cfg.nodes[i] for i in N if isinstance(sh.cfg.nodes[i].ast, ast.Break) and sh.cfg.nodes[i].loops and sh.cfg.nodes[i].loops[-1] == sh.loop.id]
        continues = any(q_[0] == sh.loop.id for p_ in this_pass for (q_, _l) in fl.succ.get(p_, []))
        sdefs = [n_ for (n_, _m) in sh.status_defs() if n_.id in N]
        if m == 'raise':
            stores = [s_ for s_ in sh.stores if s_.node.id in N and s_.owner == 'self']
            st_e = [s_ for s_ in stores if s_.series == 'status' and enum_value_ref(s_.value) == 'ERROR' and text(s_.index) == 't']
            st_i = [s_ for s_ in stores if s_.series == 'iterations' and isinstance(s_.value, ast.Name) and s_.value.id == sh.counter and text(s_.index) == 't']
            R.check(bool(st_e), sh.q, 'policy:raise:status', "errors='raise': status[t] = 'E'", "errors='raise' row does not store SolutionStatus.ERROR at t", where=sh.where(nf))
            R.check(bool(st_i), sh.q, 'policy:raise:iterations', "errors='raise': iterations[t] = this pass",
                    "errors='raise' row does not store the pass counter in iterations[t]", where=sh.where(nf))
            ok = bool(raises_here) and all(raised_class(r.ast) == 'SolutionError' for r in raises_here)
            R.check(ok, sh.q, 'policy:raise:exception', "errors='raise': raises SolutionError", "errors='raise' row does not raise SolutionError", where=sh.where(nf))
            leaves = sh.loop.id not in nodes(onward) and sh.cfg.exit not in nodes(onward)
            R.check(leaves, sh.q, 'policy:raise:terminal', "errors='raise': the row always ends in the exception", "errors='raise' row can fall through without raising",
                    where=sh.where(nf))
            for r in raises_here:
                for nm, sts in (('status', st_e), ('iterations', st_i)):
                    if sts:
                        before = r.id not in nodes(fl.reach(st0, avoid_nodes=[s_.node.id for s_ in sts]))
                        R.check(before, sh.q, f'policy:raise:store-before-raise:{nm}', f"'E' bookkeeping ({nm}) precedes the raise on every path",
                                f'the raise can be reached without the {nm} store', where=sh.where(r))
        elif m == 'skip':
            ok = len(sdefs) >= 1 and all(enum_value_ref(d.ast.value) == 'SKIPPED' for d in sdefs)
            R.check(ok, sh.q, 'policy:skip:status', "errors='skip': status 'S'", "errors='skip' row does not set SolutionStatus.SKIPPED", where=sh.where(nf))
            R.check(not continues and sh.loop.id not in nodes(onward), sh.q, 'policy:skip:leaves-loop', "errors='skip': the pass loop is left at once",
                    "errors='skip' row can return to the pass loop (keeps iterating)", where=sh.where(nf))
            noraise = sh.cfg.raise_exit not in nodes(fl.reach(st0, avoid_nodes=[fs_status.id]))
            R.check(noraise, sh.q, 'policy:skip:no-exception', "errors='skip': no exception before the bookkeeping", "errors='skip' row can raise before recording status",
                    where=sh.where(nf))
        elif m in ('ignore', 'replace'):
            # what the period ends up with when this was the last pass: follow the row on (next loop header, loop exhausted,
            # code after the loop) without another evaluation, and read the values the final status store can receive
            from fsa.pathsens import TOP, UNDEF
            last_pass = fl.reach(st0, avoid_nodes=[sh.n_eval.id])
            finals = set()
            for p_ in last_pass:
                if p_[0] == fs_status.id:
                    for tok in fl.vals(fs_status.ast.value, p_[1]):
                        finals.add(sh.status_member(tok) if tok not in (TOP, UNDEF) else '?')
            ok = all(enum_value_ref(d.ast.value) == 'FAILED' for d in sdefs) and finals == {'FAILED'}
            R.check(ok, sh.q, f'policy:{m}:status', f"errors='{m}': a period whose last pass is non-finite ends as 'F'",
                    f"errors='{m}' row: a period whose last pass is non-finite can end with status {sorted(str(x) for x in finals)} (row assigns "
                    f"{[enum_value_ref(d.ast.value) for d in sdefs]}), not only FAILED", where=sh.where(nf))
            for b_ in breaks:
                only_last = b_.id not in nodes(fl.reach(st0, avoid_nodes=[sh.loop.id], skip_edges=lastpass_edges))
                R.check(only_last and bool(lastpass_edges), sh.q, f'policy:{m}:break-only-last-pass', f"errors='{m}': the loop is left only on the last pass",
                        f"errors='{m}' row leaves the loop on a pass that is not `{sh.counter} == max_iter`", where=sh.where(b_))
                via = b_.id not in nodes(fl.reach(st0, avoid_nodes=[sh.loop.id] + [d.id for d in sdefs]))
                R.check(via, sh.q, f'policy:{m}:break-sets-F', f"errors='{m}': leaving the loop sets 'F'", f"errors='{m}' row can break without setting FAILED", where=sh.where(b_))
            R.check(continues, sh.q, f'policy:{m}:continues', f"errors='{m}': keeps iterating until the last pass",
                    f"errors='{m}' row never continues to the next pass", where=sh.where(nf))
            # what happens to the non-finite values: 'ignore' leaves them, 'replace' zeroes exactly them before the next pass
            cur_stores = []
            for i in N:
                a_ = sh.cfg.nodes[i].ast
                if sh.cfg.nodes[i].kind == 'stmt' and isinstance(a_, (ast.Assign, ast.AugAssign)):
                    for t_ in (a_.targets if isinstance(a_, ast.Assign) else [a_.target]):
                        if isinstance(t_, ast.Subscript) and isinstance(t_.value, ast.Name) and t_.value.id == cur:
                            cur_stores.append(sh.cfg.nodes[i])
                        if isinstance(t_, ast.Name) and t_.id == cur:
                            cur_stores.append(sh.cfg.nodes[i])
            if m == 'ignore':
                R.check(not cur_stores, sh.q, 'policy:ignore:values-untouched', "errors='ignore': the non-finite values are left as they are",
                        f"errors='ignore' row rewrites the pass values (`{cur_stores[0].label()[:60] if cur_stores else ''}`): 'ignore' would behave like 'replace'",
                        where=sh.where(cur_stores[0]) if cur_stores else sh.where(nf))
            else:
                zero = [n_ for n_ in cur_stores if isinstance(n_.ast, ast.Assign) and isinstance(n_.ast.targets[0], ast.Subscript)
                        and text(sh.expand(n_.id, n_.ast.targets[0].slice, stop=(cur, prev))) in (f'~np.isfinite({cur})', f'np.logical_not(np.isfinite({cur}))', f'~numpy.isfinite({cur})')
                        and isinstance(n_.ast.value, ast.Constant) and n_.ast.value.value == 0 and not isinstance(n_.ast.value.value, bool)]
                other = [n_ for n_ in cur_stores if n_ not in zero]
                R.check(bool(zero) and not other, sh.q, 'policy:replace:zero-fill', "errors='replace': exactly the non-finite values are replaced by zero",
                        f"errors='replace' row does not store 0 into `{cur}[~np.isfinite({cur})]`" + (f" (`{other[0].label()[:50]}`)" if other else ''), where=sh.where(nf))
                if zero:
                    skipped = sh.loop.id in nodes(fl.reach(st0, avoid_nodes=[z.id for z in zero]))
                    R.check(not skipped, sh.q, 'policy:replace:zero-fill-before-next-pass', "errors='replace': the replacement happens before every further pass",
                            "errors='replace' row can go on to the next pass without replacing the non-finite values", where=sh.where(zero[0]))
            noraise = sh.cfg.raise_exit not in nodes(fl.reach(st0, avoid_nodes=[sh.loop.id, fs_status.id]))
            R.check(noraise, sh.q, f'policy:{m}:no-exception', f"errors='{m}': no exception from the row itself", f"errors='{m}' row can raise", where=sh.where(nf))
        else:
            ve = [r for r in raises_here if raised_class(r.ast) == 'ValueError']
            ok = bool(ve) and len(ve) == len(raises_here) and sh.loop.id not in nodes(onward) and sh.cfg.exit not in nodes(onward)
            R.check(ok, sh.q, 'policy:invalid', 'an unknown errors= value raises ValueError',
                    'no `raise ValueError` reached when errors matches none of the four policies', where=sh.where(nf))


def r3_previous_nonfinite(R, sh: SolverShape) -> None:
    """A pass that started from non-finite values is neither judged, nor handed to the error policy, nor allowed to end the
    loop: it simply goes on to the next pass.  Decided on facts (NFView), whatever the shape of the tests."""
    nfv = NFView(sh)
    cur, prev = nfv.cur, nfv.prev
    nfp, nfc = nfv.tests('NF__prev'), nfv.tests('NF__cur')
    if not R.require(sh.q, len(nfp), f'non-finite test of `{prev}` (previous pass)', fi=sh.fi, pred=pred_call_attr('isfinite')) \
            or not R.require(sh.q, len(nfc), f'non-finite test of `{cur}` (current pass)', fi=sh.fi, pred=pred_call_attr('isfinite')):
        return
    conv, _ = sh.convergence_node()
    rows = [n for n in nfc if nfv.implied_by_true_edge(n, 'NF__cur')]
    for c in rows:
        for (b, lab) in c.succ:
            if lab == 'T':
                R.check(nfv.known(b, 'NF__prev', False), sh.q, 'prev-before-cur',
                        'the error policy is entered only when the previous pass was finite',
                        f'`{text(c.ast)[:60]}` can hand a pass that started from non-finite values to the error policy (previous-pass test not known false there)',
                        where=sh.where(c), path=sh.path_to(c))
    R.check(nfv.known(conv.id, 'NF__prev', False), sh.q, 'prev-before-conv',
            'the previous-pass non-finite test guards the convergence test',
            'the convergence test is reachable when the previous pass was non-finite', where=sh.where(conv))
    R.check(nfv.known(conv.id, 'NF__cur', False), sh.q, 'cur-before-conv',
            'the current-pass non-finite test guards the convergence test',
            'the convergence test is reachable when the current pass is non-finite', where=sh.where(conv))
    # with the previous pass non-finite, the pass cannot leave the loop: every break / return after the first test of it
    first = [p for p in nfp if all(p.id in sh.dom[o.id] or p.id == o.id for o in nfp)]
    exits = [n for n in sh.cfg.nodes if sh.in_loop(n) and n.loops[-1] == sh.loop.id and isinstance(n.ast, (ast.Break, ast.Return))]
    bad = [n for n in exits if first and sh.cfg.reaches(first[0].id, n.id, avoid=[sh.loop.id]) and not nfv.known(n.id, 'NF__prev', False)]
    R.check(not bad, sh.q, 'prev-continue', 'previous pass non-finite -> next pass',
            f'`{bad[0].label()[:50]}` can end the loop while the previous pass is non-finite' if bad else '', where=sh.where(bad[0]) if bad else '')
    # the values tested are those of this pass: every test / flag definition mentioning them follows the evaluation call
    sites = list(nfp) + list(nfc)
    for n in sh.cfg.nodes:
        if n.kind == 'stmt' and isinstance(n.ast, ast.Assign) and sh.in_loop(n) and any(isinstance(x, ast.Call) and dotted(x.func) in ('np.isfinite', 'numpy.isfinite') for x in ast.walk(n.ast.value)):
            sites.append(n)
    R.check(all(sh.n_eval.id in sh.dom[n.id] for n in sites), sh.q, 'nonfinite-after-eval',
            'non-finite tests follow the evaluation call', 'a non-finite test precedes the evaluation call', where=sh.where(sites[0]))


def _parents(fnode: ast.AST) -> Dict[int, ast.AST]:
    par: Dict[int, ast.AST] = {}
    for n in ast.walk(fnode):
        for c in ast.iter_child_nodes(n):
            par[id(c)] = n
    return par


def _enclosing(par, node, typ):
    cur = par.get(id(node))
    while cur is not None:
        if isinstance(cur, typ):
            return cur
        cur = par.get(id(cur))
    return None


def _in_try_body(par, node) -> Optional[ast.Try]:
    """Innermost Try whose *body* (not handlers) contains node."""
    cur, child = par.get(id(node)), node
    while cur is not None:
        if isinstance(cur, ast.Try) and any(child is s for s in cur.body):
            return cur
        child, cur = cur, par.get(id(cur))
    return None


def r4_exception_discipline(R, sh: SolverShape) -> None:
    par = _parents(sh.fi.node)
    for m in ('solve_t_before', sh.eval_call, 'solve_t_after'):
        for n in sh.calls_self(m):
            call = sh.call_expr(n, m)
            tr = _in_try_body(par, call)
            if tr is None:
                R.violation(sh.q, f'hook-not-in-try:{m}', f'self.{m}() is not inside a try block: its exceptions escape unwrapped',
                            where=sh.where(n), mismatch=True)
                continue
            hs = [h for h in tr.handlers if h.type is not None and text(h.type).split('.')[-1] in ('Exception', 'BaseException')]
            if len(hs) != 1 or not hs[0].name:
                R.violation(sh.q, f'hook-handler:{m}', f'self.{m}(): no single `except Exception as e` handler', where=sh.where(n), mismatch=True)
                continue
            h = hs[0]
            rs = [x for x in h.body if isinstance(x, ast.Raise)]
            ok = len(rs) == 1 and h.body[-1] is rs[0] and raised_class(rs[0]) == 'SolutionError' \
                and isinstance(rs[0].cause, ast.Name) and rs[0].cause.id == h.name
            R.check(ok, sh.q, f'hook-wrap:{m}', f'self.{m}(): any exception surfaces as SolutionError chained to the original',
                    f'handler of self.{m}() does not end in `raise SolutionError(...) from {h.name}`', where=sh.where(n))
            # no handler in front of the wrapping one lets an exception through unwrapped (and unrecorded)
            for o in tr.handlers[:tr.handlers.index(h)]:
                if any(isinstance(x, ast.Raise) for x in ast.walk(o)):
                    R.violation(sh.q, f'hook-intercept:{m}:{text(o.type) if o.type else "bare"}',
                                f'`except {text(o.type) if o.type else ""}` in front of the wrapping handler of self.{m}(): such an exception leaves solve_t() as it is, '
                                f"not wrapped in (and chained from) a SolutionError naming the period, and without the 'E' bookkeeping", where=sh.where(n))
            # no other handler swallows
            others = [x for x in tr.handlers if x is not h]
            for o in others:
                if not any(isinstance(x, ast.Raise) for x in ast.walk(o)):
                    R.violation(sh.q, f'hook-swallow:{m}:{text(o.type) if o.type else "bare"}',
                                f'a handler around self.{m}() swallows `{text(o.type) if o.type else "everything"}`', where=sh.where(n))
            if m == sh.eval_call:
                # E bookkeeping under errors == 'raise' before the raise
                has_e = has_i = False
                for x in h.body:
                    if not isinstance(x, ast.If):
                        continue
                    test_, alias = x.test, {}
                    # `v is not None` with v = (<pass counter> if <c> else None): the same as <c>, and v is the counter there
                    if isinstance(test_, ast.Compare) and len(test_.ops) == 1 and isinstance(test_.ops[0], ast.IsNot) and isinstance(test_.left, ast.Name) \
                            and is_const(test_.comparators[0], None):
                        tn_ = [k for k in sh.cfg.nodes if k.ast is test_]
                        vals = sh.lf.values_reaching(tn_[0].id, test_.left.id) if tn_ else []
                        if len(vals) == 1 and isinstance(vals[0][1], ast.IfExp) and is_const(vals[0][1].orelse, None) and text(vals[0][1].body) == sh.counter:
                            alias = {test_.left.id: sh.counter}
                            test_ = vals[0][1].test
                    if str_eq_test(test_) == ('errors', 'raise', True):
                        for y in x.body:
                            if isinstance(y, ast.Assign) and len(y.targets) == 1 and isinstance(y.targets[0], ast.Subscript):
                                tg = y.targets[0]
                                if text(tg.value) == 'self.status' and text(tg.slice) == 't' and enum_value_ref(y.value) == 'ERROR':
                                    has_e = True
                                if text(tg.value) == 'self.iterations' and text(tg.slice) == 't' and alias.get(text(y.value), text(y.value)) == sh.counter:
                                    has_i = True
                R.check(has_e and has_i, sh.q, 'eval-handler-bookkeeping',
                        "evaluation-pass exception records 'E' and the pass number under errors == 'raise'",
                        f"handler of self.{m}() does not store status[t]='E' and iterations[t]={sh.counter} under errors == 'raise'",
                        where=sh.where(n))


def r4_package_from_e(R) -> None:
    n_sites = 0
    for fi in R.repo.all_functions():
        for node in iter_own_nodes(fi.node):
            if isinstance(node, ast.ExceptHandler) and node.name:
                for x in ast.walk(node):
                    if isinstance(x, ast.Raise) and x.exc is not None:
                        # skip raises nested in inner handlers with their own name
                        n_sites += 1
                        ok = isinstance(x.cause, ast.Name) and x.cause.id == node.name
                        R.check(ok, fi.qualname, f'from-e:{stmt_key(x)[:80]}',
                                f'raise inside `except ... as {node.name}` is chained with `from {node.name}`',
                                f'`{text(x)[:70]}` inside `except ... as {node.name}` drops the original exception (no `from {node.name}`)',
                                where=f'{fi.module.relpath}:{x.lineno}')
    R.expect('fsic/*', n_sites, 12, 'raise statements inside named exception handlers')


def r5_preexisting(R, sh: SolverShape) -> None:
    cands = []
    for n in sh.tests():
        if sh.in_loop(n):
            continue
        atoms = conj_atoms(n.ast)
        modes = [str_eq_test(a) for a in atoms]
        nfs = [nonfinite_test(a) for a in atoms]
        if any(nf for nf in nfs):
            cands.append((n, atoms, modes, nfs))
    if not R.require(sh.q, len(cands), 'pre-existing non-finite test before the loop', fi=sh.fi, pred=pred_call_attr('isfinite')):
        return
    n, atoms, modes, nfs = cands[0]
    ok_mode = ('errors', 'raise', True) in modes and len(atoms) == 2
    R.check(ok_mode, sh.q, 'preexisting-guard', "pre-existing non-finite values are rejected exactly under errors == 'raise'",
            f"pre-existing check `{text(n.ast)}` is not `errors == 'raise' and <non-finite>`", where=sh.where(n))
    name = [x for x in nfs if x][0]
    vals = sh.lf.values_reaching(n.id, name) if name.isidentifier() else []
    ok_val = len(vals) == 1 and vals[0][1] is not None and is_check_read(sh, vals[0][1])
    R.check(ok_val, sh.q, 'preexisting-values', 'the values tested are the check values read before any pass',
            f'`{name}` tested by the pre-existing check is not a fresh read of the check values', where=sh.where(n))
    rs = [r for r in sh.raises('SolutionError') if (n.id, 'T') in sh.guards_of(r.id) and not sh.in_loop(r)]
    R.check(len(rs) == 1 and any(b == rs[0].id for (b, lab) in n.succ if lab == 'T') if rs else False, sh.q, 'preexisting-raises',
            'pre-existing non-finite values raise SolutionError', 'the pre-existing check does not raise SolutionError', where=sh.where(n))
    nb = sh.calls_self('solve_t_before')
    for b in nb:
        R.check(n.id in sh.dom[b.id], sh.q, 'preexisting-before-hook', 'the rejection precedes solve_t_before',
                'solve_t_before can run before the pre-existing check', where=sh.where(b))
    R.check(n.id in sh.dom[sh.loop.id], sh.q, 'preexisting-before-loop', 'the rejection precedes the first pass',
            'the pass loop can start before the pre-existing check', where=sh.where(n))


def r6_filters(R, sh: SolverShape) -> None:
    """The warnings filter in force around each user-code call, as a gated value: `warnings.simplefilter(x)` is read as
    an assignment to a pseudo-variable that `with warnings.catch_warnings()` resets on entry."""
    from fsa.gated import SymExec, canon
    from fsa.match import nnf_atoms
    par = _parents(sh.fi.node)
    se = SymExec(sh.fi.node, effect_vars={'warnings.simplefilter': '__filter__'}, with_resets={'warnings.catch_warnings': ['__filter__']})
    n_blocks = 0
    for m in ('solve_t_before', sh.eval_call, 'solve_t_after'):
        for n in sh.calls_self(m):
            call = sh.call_expr(n, m)
            w = _enclosing(par, call, ast.With)
            if w is None or not any(dotted(getattr(i.context_expr, 'func', i.context_expr)) == 'warnings.catch_warnings' for i in w.items):
                R.violation(sh.q, f'filter-block:{m}', f'self.{m}() is not inside a `warnings.catch_warnings()` block', where=sh.where(n), mismatch=True)
                continue
            n_blocks += 1
            st = None
            for s_ in ast.walk(sh.fi.node):
                if isinstance(s_, ast.stmt) and id(s_) in se.before and any(x is call for x in ast.walk(s_)):
                    if st is None or any(x is s_ for x in ast.walk(st)):
                        st = s_
            if st is None:
                raise Unsupported(f'{sh.q}: self.{m}() not visited by the symbolic evaluator')
            v = canon(se.value(st, ast.Name(id='__filter__', ctx=ast.Load())))
            verdict = None
            if isinstance(v, ast.Name) and v.id in ('<inherited>', '__filter__'):
                verdict = 'no filter is selected inside the catch_warnings() block before the call'
            elif isinstance(v, ast.Constant):
                verdict = f'filter is unconditionally {v.value!r}'
            elif isinstance(v, ast.IfExp) and isinstance(v.body, ast.Constant) and isinstance(v.orelse, ast.Constant):
                atoms = nnf_atoms(v.test, True)
                okc = len(atoms) == 2 and any(tr and str_eq_test(a_) == ('errors', 'raise', True) for (a_, tr) in atoms) \
                    and any(tr and isinstance(a_, ast.Name) and a_.id == 'catch_first_error' for (a_, tr) in atoms)
                if not okc:
                    verdict = f"selection condition is `{text(v.test)}`, expected `errors == 'raise' and catch_first_error`"
                elif (v.body.value, v.orelse.value) != ('error', 'always'):
                    verdict = f"filters are ({v.body.value!r} if cond else {v.orelse.value!r}), expected ('error' if cond else 'always')"
                else:
                    verdict = 'ok'
            if verdict is None:
                raise Unsupported(f'{sh.q}: filter in force around self.{m}() is `{text(v)[:80]}`: not in the idiom table')
            R.check(verdict == 'ok', sh.q, f'filter-select:{m}',
                    f"around self.{m}(): 'error' exactly under errors == 'raise' and catch_first_error, else 'always'",
                    f'warnings filter around self.{m}(): {verdict}', where=sh.where(n))
    R.expect(sh.q, n_blocks, 3, 'catch_warnings blocks around the three user-code calls')


def _filter_selection(sel) -> Optional[str]:
    def cond_ok(test: ast.AST) -> bool:
        atoms = conj_atoms(test)
        if len(atoms) != 2:
            return False
        has_mode = any(str_eq_test(a) == ('errors', 'raise', True) for a in atoms)
        has_flag = any(isinstance(a, ast.Name) and a.id == 'catch_first_error' for a in atoms)
        return has_mode and has_flag

    def single_filter(body) -> Optional[str]:
        if len(body) == 1 and isinstance(body[0], ast.Expr) and is_call(body[0].value, 'warnings.simplefilter'):
            c = body[0].value
            if len(c.args) == 1 and isinstance(c.args[0], ast.Constant):
                return c.args[0].value
        return None

    if isinstance(sel, ast.If):
        t, f = single_filter(sel.body), single_filter(sel.orelse)
        if t is None or f is None:
            return None
        if not cond_ok(sel.test):
            return f"selection condition is `{text(sel.test)}`, expected `errors == 'raise' and catch_first_error`"
        if t != 'error' or f != 'always':
            return f"filters are ({t!r} if cond else {f!r}), expected ('error' if cond else 'always')"
        return 'ok'
    if isinstance(sel, ast.Expr) and is_call(sel.value, 'warnings.simplefilter'):
        a = sel.value.args[0] if sel.value.args else None
        if isinstance(a, ast.IfExp) and isinstance(a.body, ast.Constant) and isinstance(a.orelse, ast.Constant):
            if not cond_ok(a.test):
                return f"selection condition is `{text(a.test)}`, expected `errors == 'raise' and catch_first_error`"
            if a.body.value != 'error' or a.orelse.value != 'always':
                return f'filters are ({a.body.value!r} if cond else {a.orelse.value!r})'
            return 'ok'
        if isinstance(a, ast.Constant):
            return f'filter is unconditionally {a.value!r}'
    return None


def r7_solved_flag(R) -> None:
    q = 'fsic.core.interfaces.SolverMixin.solve'
    fi = R.repo.func(q)
    hits = 0
    for n in iter_own_nodes(fi.node):
        # the per-period list of flags, by role: the local that is subscripted to take the result, and is part of what is returned
        if isinstance(n, ast.Assign) and is_self_call(n.value, 'solve_t') and len(n.targets) == 1 \
                and isinstance(n.targets[0], ast.Subscript) and isinstance(n.targets[0].value, ast.Name):
            nm_ = n.targets[0].value.id
            if nm_ == 'solved' or any(isinstance(r_, ast.Return) and r_.value is not None and any(isinstance(y, ast.Name) and y.id == nm_ for y in ast.walk(r_.value))
                                      for r_ in iter_own_nodes(fi.node)):
                hits += 1
    # the policy options reach solve_t unchanged from both the multi-period and the single-period entry point
    from rules import c02, c05
    c02.r9_solve_period(R)
    c05.r1_solve_loop(R)
    if hits != 1 and any(isinstance(c_, (ast.ListComp, ast.GeneratorExp)) and any(is_self_call(y, 'solve_t') for y in ast.walk(c_)) for c_ in iter_own_nodes(fi.node)):
        raise Unknown(f'{q}: the flags are collected by a comprehension over self.solve_t(...); not read here')
    R.check(hits == 1, q, 'solved-flag', 'solve() records the flag returned by solve_t per period',
            'solve() does not store the result of self.solve_t(...) in solved[i]', where=fi.where)


def run(R) -> None:
    R.explanation = (
        'C06: status alphabet by constant folding of SolutionStatus + reaching definitions of every value stored into a '
        'status series package-wide; policy table of the non-finite branch extracted from guards (per errors= row: stores, '
        'exception class, loop exit/continue, last-pass test); previous-before-current-before-convergence ordering by guards; '
        'try/except discipline of the three user-code calls (SolutionError ... from e, E bookkeeping), package-wide `from e`; '
        'pre-existing rejection dominance; three-way agreement of the warnings filter selection. Does not decide which NumPy '
        'operations warn or that a warning leaves the target unstored (Python semantics).'
    )
    sh = SolverShape(R.repo, Q)
    R.saw_function(sh.fi, sh.cfg)
    R.rule('C06.R1', lambda: r1_alphabet(R))
    R.rule('C06.R2', lambda: r2_policy_table(R, sh))
    R.rule('C06.R3', lambda: r3_previous_nonfinite(R, sh))
    R.rule('C06.R4', lambda: (r4_exception_discipline(R, sh), r4_package_from_e(R)))
    R.rule('C06.R5', lambda: r5_preexisting(R, sh))
    R.rule('C06.R6', lambda: r6_filters(R, sh))
    R.rule('C06.R7', lambda: r7_solved_flag(R))
