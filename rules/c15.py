"""C15 - all ways of building a class from symbols yield the same model.

R1 template twins (typed == untyped modulo annotations), R2 placeholders,
R3 build_model == exec of the definition on every path, R4 converter,
R5 namespace (= C01.R2).
"""

from __future__ import annotations

import ast
import string
from typing import Dict, List, Set

from fsa.consts import folder
from fsa.match import dotted, is_call, is_const, kwarg, method_call
from fsa.source import Unsupported, iter_own_nodes, stmt_key, text
from rules.common import Fn
from rules import c01, c02

P = 'fsic.parser'
OPTIONS = ['lags', 'leads', 'min_lags', 'min_leads', 'converter', 'with_type_hints']
FIELDS = ['endogenous', 'exogenous', 'parameters', 'errors', 'lags', 'leads', 'equations']


class _Erase(ast.NodeTransformer):
    def visit_AnnAssign(self, node):
        if node.value is None:
            return None
        return ast.copy_location(ast.Assign(targets=[node.target], value=node.value), node)

    def visit_FunctionDef(self, node):
        self.generic_visit(node)
        node.returns = None
        return node

    def visit_arg(self, node):
        node.annotation = None
        return node


def _fields(tpl: str) -> List[str]:
    return [f for (_l, f, _s, _c) in string.Formatter().parse(tpl) if f is not None]


def r1_twins(R) -> None:
    fd = folder(R.repo, P)
    typed, untyped = fd.get('MODEL_TEMPLATE_TYPED'), fd.get('MODEL_TEMPLATE_UNTYPED')
    fill = {k: repr('@' + k + '@') for k in FIELDS if k != 'equations'}
    fill['equations'] = '        pass'
    ta = _Erase().visit(ast.parse(typed.format(**fill)))
    ua = _Erase().visit(ast.parse(untyped.format(**fill)))
    ast.fix_missing_locations(ta)
    same = ast.dump(ta) == ast.dump(ua)
    if same:
        R.ok(f'{P}.MODEL_TEMPLATE_*', 'typed and untyped templates are the same class modulo annotations',
             detail={'class_attrs': [text(s.targets[0]) for s in ta.body[0].body if isinstance(s, ast.Assign)],
                     'methods': [s.name for s in ta.body[0].body if isinstance(s, ast.FunctionDef)]})
        return
    # locate the first difference for the report
    tb, ub = ta.body[0].body, ua.body[0].body
    diffs = []
    for i in range(max(len(tb), len(ub))):
        a = tb[i] if i < len(tb) else None
        b = ub[i] if i < len(ub) else None
        if a is None or b is None or ast.dump(a) != ast.dump(b):
            ta_, tb_ = (text(a).split('\n')[0] if a is not None else '<missing>'), (text(b).split('\n')[0] if b is not None else '<missing>')
            if isinstance(a, ast.FunctionDef) and isinstance(b, ast.FunctionDef) and a.name == b.name:
                if ast.dump(a.args) != ast.dump(b.args):
                    ta_, tb_ = f'def {a.name}({text(a.args)})', f'def {b.name}({text(b.args)})'
            diffs.append((ta_, tb_))
    for (a, b) in diffs[:4]:
        R.violation(f'{P}.MODEL_TEMPLATE_UNTYPED', f'twin-diff:{a[:50]}|{b[:50]}',
                    f'the templates differ beyond type annotations: typed has `{a[:90]}`, untyped has `{b[:90]}`')


def r2_placeholders(R) -> None:
    fd = folder(R.repo, P)
    ft, fu = _fields(fd.get('MODEL_TEMPLATE_TYPED')), _fields(fd.get('MODEL_TEMPLATE_UNTYPED'))
    R.check(sorted(ft) == sorted(fu) == sorted(FIELDS), f'{P}.MODEL_TEMPLATE_*', f'fields:{sorted(ft)}|{sorted(fu)}',
            'both templates use each field exactly once', f'template fields differ: typed {sorted(ft)}, untyped {sorted(fu)}')
    from fsa.gated import SymExec, canon
    from rules.c03 import _stmt_of, _template_call
    fn = Fn(R, f'{P}.build_model_definition')
    call = _template_call(fn.fi, FIELDS)
    kws = sorted(k.arg for k in call.keywords if k.arg)
    R.check(kws == sorted(FIELDS) and not call.args and all(k.arg for k in call.keywords), fn.q, f'format-fields:{kws}', 'format() supplies exactly the template fields',
            f'format() supplies {kws}, templates need {sorted(FIELDS)}', where=fn.fi.where)
    # template selection (gated value of the receiver of .format)
    se = fn.symexec()
    recv = canon(se.value(_stmt_of(fn.fi.node, se, call), call.func.value))
    ok = isinstance(recv, ast.IfExp) and text(recv.test) == 'with_type_hints' and text(recv.body) == 'MODEL_TEMPLATE_TYPED' and text(recv.orelse) == 'MODEL_TEMPLATE_UNTYPED'
    if not ok and not any(isinstance(x, ast.Name) and x.id in ('MODEL_TEMPLATE_TYPED', 'MODEL_TEMPLATE_UNTYPED') for x in ast.walk(recv)):
        raise Unsupported(f'{fn.q}: the template formatted is `{text(recv)[:70]}`')
    R.check(ok, fn.q, f'template-selection:{text(recv)[:80]}',
            'with_type_hints selects the typed template, otherwise the untyped one', f'template selection is `{text(recv)[:100]}`', where=fn.fi.where)
    # what is returned is the filled-in template itself: nothing rewrites the text once the equations are in it
    from fsa.gated import leaves, lift_ifs
    for r in fn.returns():
        if r.ast.value is None:
            continue
        try:
            lv = leaves(canon(lift_ifs(canon(se.value(r.ast, r.ast.value)))))
        except (Unsupported, Unknown):
            continue
        done = set()
        for (_facts, leaf) in lv:
            fm = [x for x in ast.walk(leaf) if method_call(x, 'format') and {k.arg for k in x.keywords} >= set(FIELDS)]
            kind_ = 'rewritten' if fm and leaf is not fm[0] else ('plain' if fm else None)
            if kind_ is None or kind_ in done:
                continue
            done.add(kind_)
            if fm and leaf is not fm[0]:
                outer = text(leaf)
                R.violation(fn.q, 'rewritten-after-format:' + outer[:40],
                            f'the filled-in definition is passed through `{outer[:60]}...` before it is returned: a text replacement over the whole definition also rewrites the '
                            f'equations and verbatim code inserted into it (e.g. `x[1: 3, t]` read as an annotation), so the code that runs is not the code as written', where=fn.where(r))
            elif fm:
                R.check(True, fn.q, 'returns-formatted-template', 'the filled-in template is returned as it is', '', where=fn.where(r))


def r3_build_model(R) -> None:
    q = f'{P}.build_model'
    f = Fn(R, q)
    defs = [n for n in f.cfg.nodes if n.kind == 'stmt' and isinstance(n.ast, ast.Assign) and is_call(n.ast.value, 'build_model_definition')
            and len(n.ast.targets) == 1 and isinstance(n.ast.targets[0], ast.Name)]
    if not R.require(q, len(defs), '<text> = build_model_definition(symbols, ...)', fi=f.fi, pred=lambda x: is_call(x, 'build_model_definition')):
        return
    d = defs[0]
    name = d.ast.targets[0].id
    call = d.ast.value
    R.check(call.args and text(call.args[0]) == 'symbols', q, 'definition-symbols', 'the definition is built from the symbols given',
            f'`{text(call)[:60]}` is not built from `symbols`', where=f.where(d))
    c02.forwarding_identity(R, q, call, [], where=f.where(d), extra_kw=OPTIONS) if False else None
    for o in OPTIONS:
        v = kwarg(call, o)
        if v is None:
            R.violation(q, f'forward-dropped:{o}', f'option `{o}` is not forwarded to build_model_definition()', where=f.where(d), mismatch=True)
        else:
            R.check(isinstance(v, ast.Name) and v.id == o, q, f'forward:{o}={text(v)}', f'{o} forwarded unchanged', f'option `{o}` forwarded as `{o}={text(v)}`',
                    where=f.where(d))
    # exec nodes
    execs = []
    for n in f.cfg.nodes:
        if n.ast is None or n.kind != 'stmt':
            continue
        for x in ast.walk(n.ast):
            if is_call(x, 'exec'):
                execs.append((n, x))
    from rules.common import exec_source
    main = []
    for (n, x) in execs:
        if not x.args:
            continue
        src, faithful = exec_source(f, n.id, x.args[0])
        # the same definition: the local itself, or the call that produced it
        if (isinstance(src, ast.Name) and src.id == name) or src is call:
            main.append((n, x))
            R.check(faithful, q, f'exec-as-written:{text(x)[:40]}', 'the class is executed exactly as the text in CODE reads',
                    f'`{text(x)[:50]}` runs the definition through a compile() that changes its meaning (optimize= / mode / flags): asserts, __debug__ blocks or '
                    f'docstrings of the generated class differ from what CODE says', where=f.where(n))
    other = [(n, x) for (n, x) in execs if (n, x) not in main]
    if not R.require(q, len(main), f'exec({name}, ...)', fi=f.fi, pred=lambda x: is_call(x, 'exec')):
        return
    mn = main[0][0]
    rets = f.returns()
    R.require(q, len(rets), 'return of the class', fi=f.fi, pred=lambda x: isinstance(x, ast.Return))
    for r in rets:
        R.check(mn.id in f.dom[r.id], q, 'exec-dominates-return', 'the returned class was bound by exec of the full definition',
                'the return can be reached without exec of the full definition', where=f.where(r))
        # on no path does another exec run after the main one and before the return
        for (on, ox) in other:
            reach = f.cfg.reaches(on.id, r.id)
            R.check(not reach, q, f'stale-class:{text(ox)[:50]}',
                    'no path returns a class bound by a different exec (the single-symbol retries always end in BuildError)',
                    f'a path through `{text(ox)[:60]}` reaches the return: the class returned would be the one bound by that exec '
                    f'(built from one symbol with the default converter) while CODE holds the full text', where=f.where(on),
                    path=f.cfg.describe_path(f.cfg.some_path(on.id, r.id) or []))
        # the main exec must have completed normally: the handler of its try must not fall through to the return
        for h in [m for m in f.cfg.nodes if m.kind == 'except' and m.handler_of is not None and any(mn.ast is s or any(mn.ast is y for y in ast.walk(s)) for s in m.handler_of.body)]:
            R.check(not f.cfg.reaches(h.id, r.id), q, f'handler-falls-through:{h.label()}',
                    'a failed exec of the full definition never reaches the return',
                    f'the `{h.label()}` handler of the exec can fall through to the return (returning whatever `Model` is bound)',
                    where=f.where(h), path=f.cfg.describe_path(f.cfg.some_path(h.id, r.id) or []))
        rv = r.ast.value
        ns = text(main[0][1].args[2]) if len(main[0][1].args) > 2 else 'locals_'
        rvx = f.etext(r.id, rv, stop=(ns,)) if rv is not None else '?'
        R.check(rv is not None and rvx in (f"{ns}['Model']", 'Model'), q, 'returns-model:' + rvx[:40], 'returns the class bound by the exec',
                f'returns `{rvx}`', where=f.where(r))
    # CODE
    codes = [n for n in f.cfg.nodes if n.kind == 'stmt' and isinstance(n.ast, ast.Assign) and isinstance(n.ast.targets[0], ast.Attribute)
             and n.ast.targets[0].attr == 'CODE']
    if R.require(q, len(codes), '<Model>.CODE = <text>', fi=f.fi, pred=lambda x: isinstance(x, ast.Attribute) and x.attr == 'CODE'):
        c = codes[0]
        ok = isinstance(c.ast.value, ast.Name) and c.ast.value.id == name and f.lf.defs_reaching(c.id, name) == f.lf.defs_reaching(mn.id, name)
        R.check(ok, q, 'code-is-executed-text', 'CODE holds exactly the text that was executed', f'CODE receives `{text(c.ast.value)}`, not the executed text `{name}`',
                where=f.where(c))
    # BuildError from SyntaxError
    be = f.raises('BuildError')
    R.require(q, len(be), 'raise BuildError when the definition does not compile', fi=f.fi, pred=lambda x: isinstance(x, ast.Raise))
    for b in be:
        R.check(isinstance(b.ast.cause, ast.Name), q, 'builderror-chained', 'BuildError is chained to the SyntaxError', 'BuildError raised without `from e`', where=f.where(b))


def r4_converter(R) -> None:
    from fsa.gated import SymExec, canon
    from fsa.match import nnf_atoms
    from rules.c03 import _stmt_of, _template_call
    q = f'{P}.build_model_definition'
    f = Fn(R, q)
    sym_param = (f.fi.params() + ['symbols'])[0]
    call = _template_call(f.fi, FIELDS)
    se = f.symexec()
    eqv = canon(se.value(_stmt_of(f.fi.node, se, call), [k.value for k in call.keywords if k.arg == 'equations'][0]))
    where = f'{f.fi.module.relpath}:{call.lineno}'
    # an empty block becomes `pass`
    joined = eqv
    if isinstance(eqv, ast.BoolOp) and isinstance(eqv.op, ast.Or) and len(eqv.values) == 2:
        # `text or default` in value position is `text if text else default`
        eqv = ast.IfExp(test=eqv.values[0], body=eqv.values[0], orelse=eqv.values[1])
    if isinstance(eqv, ast.IfExp) and text(eqv.test) == text(eqv.body) and is_const(eqv.orelse, '        pass'):
        joined = eqv.body
        R.ok(q, 'an empty equation block becomes `pass`')
    elif isinstance(eqv, ast.IfExp) and isinstance(eqv.test, ast.Compare) and text(eqv.test.left) == text(eqv.orelse) and is_const(eqv.test.comparators[0], '') \
            and isinstance(eqv.test.ops[0], ast.Eq) and is_const(eqv.body, '        pass'):
        joined = eqv.orelse
        R.ok(q, 'an empty equation block becomes `pass`')
    else:
        R.violation(q, 'empty-pass', f'no `pass` body for an empty equation block (the equations field is `{text(eqv)[:70]}`)', where=where, mismatch=True)
    # the block is the converter outputs, indented by 8 and joined by blank lines
    if not (method_call(joined, 'join') and len(joined.args) == 1):
        raise Unsupported(f'{q}: the equations field `{text(joined)[:70]}` is not a join')
    ge = joined.args[0]
    ok = is_const(joined.func.value, '\n\n') and isinstance(ge, (ast.GeneratorExp, ast.ListComp)) and len(ge.generators) == 1 and not ge.generators[0].ifs \
        and is_call(ge.elt, 'textwrap.indent') and len(ge.elt.args) == 2 and text(ge.elt.args[0]) == text(ge.generators[0].target) and is_const(ge.elt.args[1], ' ' * 8)
    R.check(ok, q, 'indent-join:' + text(joined.func)[:20], 'converter output is inserted verbatim (indented by 8, joined by blank lines)',
            f'`{text(joined)[:90]}` alters the converter output beyond indentation', where=where)
    if not isinstance(ge, (ast.GeneratorExp, ast.ListComp)):
        raise Unsupported(f'{q}: joined `{text(ge)[:60]}`')
    lc = ge.generators[0].iter
    if method_call(lc, 'values', 'keys', 'items') and not lc.args and (isinstance(lc.func.value, (ast.DictComp, ast.Dict)) or is_call(lc.func.value, 'dict', 'dict.fromkeys')):
        lc = lc.func.value
    if isinstance(lc, (ast.DictComp, ast.SetComp, ast.Dict, ast.Set)) or is_call(lc, 'dict', 'set', 'dict.fromkeys', 'frozenset') \
            or (is_call(lc, 'list', 'tuple', 'sorted') and lc.args and (isinstance(lc.args[0], (ast.DictComp, ast.SetComp)) or is_call(lc.args[0], 'dict', 'set', 'dict.fromkeys', 'frozenset'))):
        R.violation(q, 'expressions-deduplicated:' + text(lc)[:50], f'`{text(lc)[:70]}` collapses equal symbols: a statement that appears twice (e.g. a repeated '
                    f'verbatim line) is inserted once', where=where)
        return
    if not (isinstance(lc, (ast.ListComp, ast.GeneratorExp)) and len(lc.generators) == 1):
        raise Unsupported(f'{q}: the converted expressions are `{text(lc)[:70]}`')
    g = lc.generators[0]
    v = text(g.target)
    elt = lc.elt
    # the element, split at its conditions: the default converter when none is given, the given one otherwise (a result of
    # None is not converter output - what stands in for it is the implementation's own business)
    from fsa.gated import leaves
    dflt_name = None
    okc = text(g.iter) == sym_param
    okd = True
    shown = text(elt)[:80]
    for (facts, leaf) in leaves(canon(elt)):
        fx = {(text(a_), tr) for (a_, tr) in facts}
        call_ok = isinstance(leaf, ast.Call) and len(leaf.args) == 1 and not leaf.keywords and text(leaf.args[0]) == v
        if ('converter is None', True) in fx:
            if call_ok and isinstance(leaf.func, ast.Name) and leaf.func.id != 'converter':
                dflt_name = leaf.func.id
            elif call_ok and isinstance(leaf.func, ast.IfExp):
                pass
            elif '.code' in text(leaf) and '.equation.splitlines()' in text(leaf) and "'# '" in text(leaf):
                dflt_name = dflt_name or '<read in place>'     # the default converter's own body (a helper read through)
            else:
                okd = False
        elif ('converter is None', False) in fx:
            declined = (f'converter({v}) is None', True) in fx
            if not declined and not (call_ok and text(leaf.func) == 'converter'):
                okc = False
                shown = f'with a converter given, under {sorted(x for x in fx if x[0] != "converter is None")} the text inserted is `{text(leaf)[:50]}`, not converter({v})'
        else:
            # not split on `converter is None`: (<default> if converter is None else converter)(s)
            fn_ = leaf.func if call_ok else None
            if isinstance(fn_, ast.IfExp) and text(fn_.test) == 'converter is None' and text(fn_.orelse) == 'converter' and isinstance(fn_.body, ast.Name):
                dflt_name = fn_.body.id
            else:
                okc = okc and call_ok
                okd = False
    # `converter(s) or <something>` read as the inserted text: a falsy output is positively replaced, whatever else was rewritten
    replaced = any(isinstance(leaf, ast.BoolOp) and isinstance(leaf.op, ast.Or) and text(leaf.values[0]) == f'converter({v})' and ('converter is None', False) in {(text(a_), tr) for (a_, tr) in facts}
                   for (facts, leaf) in leaves(canon(elt)))
    R.check(okc, q, 'converter-once:' + shown[:60], 'the converter is applied once per selected symbol, in symbol order, and its output inserted as it is',
            f'{shown} (for {v} in {text(g.iter)[:30]}): a converter output such as the empty string is replaced', where=where, decided=replaced)
    if okc:
        R.check(okd and dflt_name is not None, q, 'default-converter', 'the default converter is used exactly when none is given',
                f'the function applied is `{shown}`, expected `<default> if converter is None else converter`', where=where)
        if okd and dflt_name == '<read in place>':
            R.ok(q, 'default converter = commented equation + code (read in place)')
        elif okd and dflt_name is not None:
            dcs = [x for x in ast.walk(f.fi.node) if isinstance(x, ast.FunctionDef) and x.name == dflt_name and x is not f.fi.node]
            if not dcs:
                dcs = [x for x in f.fi.module.tree.body if isinstance(x, ast.FunctionDef) and x.name == dflt_name]
            if len(dcs) == 1:
                src = text(dcs[0])
                R.check('.code' in src and '.equation.splitlines()' in src and "'# '" in src, q + '.<locals>.' + dcs[0].name, 'default-converter-shape',
                        'default converter = commented equation + code', 'the default converter does not emit `# equation` lines followed by the code',
                        where=f'{f.fi.module.relpath}:{dcs[0].lineno}')
            else:
                raise Unsupported(f'{q}: default converter `{dflt_name}` is not a function of the module')
    conds = set()
    for c in g.ifs:
        for (a_, tr) in nnf_atoms(c, True):
            conds.add((text(a_), tr))
    want = {(f'{v}.equation is None', False), (f'{v}.code is None', False)}
    sel = [(a_, tr) for (a_, tr) in conds if a_.startswith(f'{v}.type ')]
    rest = conds - set(sel)
    sel_ok = len(sel) == 1 and sel[0][1] is True and sel[0][0] in (f'{v}.type in (Type.ENDOGENOUS, Type.VERBATIM)', f'{v}.type in (Type.VERBATIM, Type.ENDOGENOUS)',
                                                                    f'{v}.type in [Type.ENDOGENOUS, Type.VERBATIM]', f'{v}.type in {{Type.ENDOGENOUS, Type.VERBATIM}}')
    R.check(sel_ok and rest == want, q, 'converter-selection:' + ';'.join(sorted(f'{a_}={tr}' for a_, tr in conds))[:120],
            'selected: endogenous or verbatim symbols that carry an equation and code',
            f'converter selection is {sorted(conds)}, expected type in (ENDOGENOUS, VERBATIM) with equation and code not None', where=where)


def r6_trivial_models_solve(R) -> None:
    """An empty symbol list yields a model that solves trivially: the convergence predicate must be well defined
    for an empty list of check variables (C02.R5 owns the matcher)."""
    from rules.solver_common import SolverShape, check_convergence
    sh = SolverShape(R.repo, 'fsic.core.models.BaseModel.solve_t')
    check_convergence(R, sh)


def run(R) -> None:
    R.explanation = (
        'C15: the two class templates are folded, filled with neutral literals, parsed, stripped of annotations and compared as ASTs; '
        'field sets and the format call; build_model: identity forwarding of six options, the exec of the full text dominates the '
        'return, no other exec and no handler of the main exec can reach the return (reachability on the CFG), CODE = executed text; '
        'converter applied once per selected symbol, output only indented and joined; namespace rule shared with C01.R2. Does not '
        'decide behavioural identity on data.'
    )
    R.rule('C15.R1', lambda: r1_twins(R))
    R.rule('C15.R2', lambda: r2_placeholders(R))
    R.rule('C15.R3', lambda: r3_build_model(R))
    R.rule('C15.R4', lambda: r4_converter(R))
    R.rule('C15.R5', lambda: c01.r2_replacement_table(R))
    R.rule('C15.R6', lambda: r6_trivial_models_solve(R))
