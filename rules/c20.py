"""C20 - the dependency graph tool reports exactly the dependencies.

Thin.  R1 same tokeniser, same split; R2 nodes and edge direction; R3 link to
C01.R3 (normalised equation and executed code are one template over one term
list), recorded as a derived obligation.
"""

from __future__ import annotations

import ast

from fsa.match import is_call, is_const, kwarg, method_call
from fsa.source import Unsupported, iter_own_nodes, text
from rules.common import Fn
from rules import c01

T = 'fsic.tools'
Q = f'{T}.symbols_to_graph'


def builder(R):
    """(qualified name of the function that builds the graph, the call of it in symbols_to_graph or None): the graph may
    be built in symbols_to_graph itself or in a module-level helper it calls (possibly memoised, its result copied)."""
    fi = R.repo.func(Q)
    has_graph = lambda node: any(is_call(x, 'nx.DiGraph', 'networkx.DiGraph', 'DiGraph', 'nx.Graph') for x in ast.walk(node))
    if has_graph(fi.node):
        return Q, None
    for x in ast.walk(fi.node):
        if isinstance(x, ast.Call) and isinstance(x.func, ast.Name) and f'{T}.{x.func.id}' in R.repo.functions and has_graph(R.repo.functions[f'{T}.{x.func.id}'].node):
            return f'{T}.{x.func.id}', x
    return Q, None


def r1_same_tokeniser(R) -> None:
    mod = R.repo.module(T)
    imported = False
    for s in mod.tree.body:
        if isinstance(s, ast.ImportFrom) and (s.module or '').endswith('parser') and s.level >= 1:
            if any(a.name == 'term_re' and a.asname in (None, 'term_re') for a in s.names):
                imported = True
    rebound = [s for s in mod.tree.body if isinstance(s, (ast.Assign, ast.AnnAssign))
               and any(isinstance(x, ast.Name) and x.id == 'term_re' and isinstance(x.ctx, ast.Store) for x in ast.walk(s))]
    R.check(imported and not rebound, T, 'term_re-imported', "the graph tool tokenises with the parser's own term_re",
            'fsic/tools.py does not import `term_re` from the parser (or rebinds it)')
    BQ, bcall = builder(R)
    f = Fn(R, BQ)
    local = [n for n in f.assigns_to('term_re')]
    R.check(not local, Q, 'term_re-local', 'no private re-definition of the term regex', 'symbols_to_graph defines its own `term_re`', where=f.fi.where)
    # every regex used to tokenise is term_re
    finds = [x for x in ast.walk(f.fi.node) if method_call(x, 'finditer', 'findall', 'search', 'match')]
    R.require(Q, len(finds), 'term_re.finditer(...) on both sides', fi=f.fi, minimum=2, pred=lambda x: method_call(x, 'finditer'))
    for x in finds:
        R.check(text(x.func.value) == 'term_re' and x.func.attr == 'finditer', Q, 'tokeniser:' + text(x.func), 'sides are tokenised with term_re.finditer',
                f'`{text(x)[:50]}` does not use term_re.finditer', where=f'{f.fi.module.relpath}:{x.lineno}')
    # split at the first '='
    sp = [n for n in f.cfg.nodes if n.kind == 'stmt' and isinstance(n.ast, ast.Assign) and method_call(n.ast.value, 'split', 'rsplit', 'partition')]
    if R.require(Q, len(sp), "lhs, rhs = e.split('=', maxsplit=1)", fi=f.fi, pred=lambda x: method_call(x, 'split')):
        c = sp[0].ast.value
        mx = kwarg(c, 'maxsplit') or (c.args[1] if len(c.args) > 1 else None)
        ok = c.func.attr == 'split' and c.args and is_const(c.args[0], '=') and mx is not None and is_const(mx, 1) \
            and isinstance(sp[0].ast.targets[0], ast.Tuple) and len(sp[0].ast.targets[0].elts) == 2
        R.check(ok, Q, 'split:' + text(c), 'the normalised equation is split at the first `=`, as the parser does', f'`{text(c)}` is not a first-`=` split',
                where=f.where(sp[0]))
    # equations are the normalised ones: what the loop holding the split iterates
    ok = False
    shown = '?'
    if sp and sp[0].loops:
        lp = f.cfg.nodes[sp[0].loops[-1]]
        src = f.expand(lp.id, lp.ast.iter, comps=True)
        sym = (f.fi.params() + ['symbols'])[0]
        if bcall is not None and isinstance(src, ast.Name) and src.id in f.fi.params():
            # the helper iterates one of its parameters: what symbols_to_graph passes for it
            outer = Fn(R, Q)
            k_ = f.fi.params().index(src.id)
            arg = bcall.args[k_] if k_ < len(bcall.args) else kwarg(bcall, src.id)
            at = [n_ for n_ in outer.cfg.nodes if n_.ast is not None and any(y is bcall for y in ast.walk(n_.ast))]
            if arg is not None and at:
                src = outer.expand(at[0].id, arg, comps=True)
                while is_call(src, 'tuple', 'list') and len(src.args) == 1:
                    src = src.args[0]
                sym = (outer.fi.params() + ['symbols'])[0]
        shown = text(src)[:70]
        split_src = sp[0].ast.value.func.value
        if isinstance(src, (ast.ListComp, ast.GeneratorExp)) and len(src.generators) == 1:
            g_ = src.generators[0]
            ok = text(g_.iter) == sym and text(src.elt) == f'{text(g_.target)}.equation' and text(split_src) == text(lp.ast.target)
        elif text(src) == sym and text(f.expand(sp[0].id, split_src)) == f'{text(lp.ast.target)}.equation':
            ok = True
    R.check(ok, Q, 'equations-source', 'the graph is built from the symbols\' normalised equations', f'the statements split are `{shown}`, not the symbols\' normalised equations',
            where=f.fi.where)


def r4_fresh_graph(R) -> None:
    """Each call hands out a graph of its own: a graph remembered between calls (memoised function, module-level cache)
    and returned uncopied is changed for every later caller by whoever edits it (removing nodes, relabelling)."""
    CACHES = ('functools.lru_cache', 'lru_cache', 'functools.cache', 'cache')
    BQ, bcall = builder(R)
    for q_ in {Q, BQ}:
        fi = R.repo.func(q_)
        memo = [d for d in fi.node.decorator_list if text(d.func if isinstance(d, ast.Call) else d) in CACHES]
        if not memo:
            R.ok(q_, 'not memoised')
            continue
        if q_ == Q:
            R.violation(Q, 'graph-memoised', f'symbols_to_graph is memoised ({text(memo[0])[:40]}): every caller with the same symbols receives the same mutable graph', where=fi.where)
            continue
        # the helper is memoised: every value symbols_to_graph returns from it must be a copy
        f = Fn(R, Q)
        for r in f.returns():
            v = r.ast.value
            if v is None:
                continue
            v = f.expand(r.id, v)
            uses = [x for x in ast.walk(v) if isinstance(x, ast.Call) and isinstance(x.func, ast.Name) and f'{T}.{x.func.id}' == BQ]
            for u in uses:
                copied = any((is_call(c_, 'copy.deepcopy', 'deepcopy') and c_.args and any(y is u for y in ast.walk(c_.args[0])))
                             or (method_call(c_, 'copy') and any(y is u for y in ast.walk(c_.func.value))) for c_ in ast.walk(v))
                R.check(copied, Q, f'graph-shared:{text(v)[:50]}', 'the memoised graph is copied before it is handed out',
                        f'`return {text(v)[:60]}` hands out the graph kept by the memoised `{BQ.split(".")[-1]}()` itself: a caller that edits it (removes nodes, adds attributes) '
                        f'changes what every later call with the same equations returns', where=f.where(r))


def r2_nodes_edges(R) -> None:
    BQ, _bcall = builder(R)
    f = Fn(R, BQ)
    sp = [n for n in f.cfg.nodes if n.kind == 'stmt' and isinstance(n.ast, ast.Assign) and method_call(n.ast.value, 'split')
          and isinstance(n.ast.targets[0], ast.Tuple)]
    if not sp:
        R.inconclusive(Q, 'split statement not found')
        return
    left, right = [text(e) for e in sp[0].ast.targets[0].elts]
    sides = {}
    for n in f.cfg.nodes:
        a = n.ast
        if n.kind != 'stmt' or not isinstance(a, ast.Assign):
            continue
        pairs_ = [(a.targets[0], a.value)]
        if isinstance(a.targets[0], ast.Tuple) and isinstance(a.value, ast.Tuple) and len(a.targets[0].elts) == len(a.value.elts):
            pairs_ = list(zip(a.targets[0].elts, a.value.elts))      # `lhs_terms, rhs_terms = ([...], [...])`
        if isinstance(a.targets[0], ast.Name) and isinstance(a.value, ast.Tuple):
            # `both = ([...], [...])`: the halves are both[0], both[1]
            pairs_ = [(ast.parse(f'{a.targets[0].id}[{i_}]', mode='eval').body, e_) for i_, e_ in enumerate(a.value.elts)]
        for (tg_, v_) in pairs_:
            if isinstance(v_, ast.ListComp) and 'finditer' in text(v_):
                arg = [x for x in ast.walk(v_) if method_call(x, 'finditer')][0].args[0]
                sides[text(tg_)] = (text(arg), text(v_.elt))
    # two passes: the first loop appends one tuple per equation to a local list, the second unpacks it - the names of the
    # second loop stand for the elements appended by the first
    alias = {}
    stale = []
    for n in f.cfg.nodes:
        if n.kind == 'for' and isinstance(n.ast.iter, ast.Name) and isinstance(n.ast.target, ast.Tuple) and sp and n.id not in sp[0].loops:
            L_ = n.ast.iter.id
            apps = [m for m in f.cfg.nodes if m.ast is not None and m.kind == 'stmt' and sp[0].loops and sp[0].loops[-1] in m.loops
                    and any(method_call(x, 'append') and text(x.func.value) == L_ and len(x.args) == 1 for x in ast.walk(m.ast))]
            if len(apps) == 1:
                tup = [x for x in ast.walk(apps[0].ast) if method_call(x, 'append')][0].args[0]
                if isinstance(tup, ast.Tuple) and len(tup.elts) == len(n.ast.target.elts):
                    for t_, e_ in zip(n.ast.target.elts, tup.elts):
                        alias[text(t_)] = text(e_)
                elif isinstance(tup, ast.Name):
                    for i_, t_ in enumerate(n.ast.target.elts):
                        alias[text(t_)] = f'{tup.id}[{i_}]'
                # a name bound by the first loop and used in the second without being one of its targets holds the value of
                # the *last* equation there
                first_vars = {x.id for x in ast.walk(f.cfg.nodes[sp[0].loops[-1]].ast.target) if isinstance(x, ast.Name)} | set(sides)
                second_vars = {x.id for x in ast.walk(n.ast.target) if isinstance(x, ast.Name)}
                for m in f.cfg.nodes:
                    if m.ast is not None and n.id in m.loops and m.kind in ('stmt', 'test'):
                        for x in ast.walk(m.ast):
                            if isinstance(x, ast.Name) and isinstance(x.ctx, ast.Load) and x.id in first_vars and x.id not in second_vars:
                                stale.append((m, x.id))
    for (m, nm_) in stale[:1]:
        R.violation(Q, f'stale-loop-variable:{nm_}', f'`{m.label()[:60]}` uses `{nm_}`, which the first pass over the equations bound and the second pass does not: it holds '
                    f'the value of the last equation for every node (every left-hand term carries the last equation of the model)', where=f.where(m))
        return
    lhs_name = [k for k, v in sides.items() if v[0] == left]
    rhs_name = [k for k, v in sides.items() if v[0] == right]
    if not (lhs_name and rhs_name):
        R.check(False, Q, 'sides', '', f'term lists are not built from both halves of the split: {sides}', where=f.fi.where)
        return
    ln, rn = lhs_name[0], rhs_name[0]
    for k in (ln, rn):
        R.check(sides[k][1].endswith('.group(0)') or sides[k][1].endswith('[0]'), Q, f'node-label:{k}', 'nodes are the matched term texts (with their time offsets)',
                f'`{k}` collects `{sides[k][1]}`', where=f.fi.where)
    nodes = [x for x in ast.walk(f.fi.node) if method_call(x, 'add_nodes_from')]
    if R.require(Q, len(nodes), 'G.add_nodes_from(<lhs terms>, equation=e)', fi=f.fi, pred=lambda x: method_call(x, 'add_nodes_from', 'add_node')):
        c = nodes[0]
        ev_ = text(f.cfg.nodes[sp[0].loops[-1]].ast.target) if sp[0].loops else 'e'
        A_ = lambda t_: alias.get(t_, t_)
        direct = A_(text(c.args[0])) == ln and kwarg(c, 'equation') is not None and A_(text(kwarg(c, 'equation'))) == ev_
        # or: the nodes first, then the attribute for all of them at once
        later = False
        if A_(text(c.args[0])) == ln and kwarg(c, 'equation') is None:
            for x in ast.walk(f.fi.node):
                if is_call(x, 'nx.set_node_attributes', 'networkx.set_node_attributes') and len(x.args) >= 2 and (is_const(kwarg(x, 'name'), 'equation') or (len(x.args) > 2 and is_const(x.args[2], 'equation'))):
                    m_ = x.args[1]
                    if is_call(m_, 'dict.fromkeys') and len(m_.args) == 2 and text(m_.args[0]) == ln and text(m_.args[1]) == ev_:
                        later = True
                    if isinstance(m_, ast.DictComp) and len(m_.generators) == 1 and text(m_.generators[0].iter) == ln and text(m_.key) == text(m_.generators[0].target) and text(m_.value) == ev_:
                        later = True
        R.check(direct or later, Q, 'nodes:' + text(c),
                'one node per left-hand term, carrying its equation', f'`{text(c)}` does not add the left-hand terms with equation=e',
                where=f'{f.fi.module.relpath}:{c.lineno}')
    edges = [x for x in ast.walk(f.fi.node) if method_call(x, 'add_edge', 'add_edges_from')]
    if R.require(Q, len(edges), 'G.add_edge(x, n)', fi=f.fi, pred=lambda x: method_call(x, 'add_edge', 'add_edges_from')):
        c = edges[0]
        # loop variables: enclosing for statements, and the generators of an edge comprehension
        par = {}
        for n in ast.walk(f.fi.node):
            for ch in ast.iter_child_nodes(n):
                par[id(ch)] = n
        loops = {}
        cur = par.get(id(c))
        while cur is not None:
            if isinstance(cur, ast.For):
                loops[text(cur.target)] = text(cur.iter)
            cur = par.get(id(cur))
        if c.func.attr == 'add_edges_from':
            ge = c.args[0] if c.args else None
            if is_call(ge, 'itertools.product', 'product') and len(ge.args) == 2 and not ge.keywords:
                # product(A, B) yields (a, b) for a in A for b in B
                ge = ast.GeneratorExp(elt=ast.Tuple(elts=[ast.Name(id='_a', ctx=ast.Load()), ast.Name(id='_b', ctx=ast.Load())], ctx=ast.Load()),
                                      generators=[ast.comprehension(target=ast.Name(id='_a', ctx=ast.Store()), iter=ge.args[0], ifs=[], is_async=0),
                                                  ast.comprehension(target=ast.Name(id='_b', ctx=ast.Store()), iter=ge.args[1], ifs=[], is_async=0)])
            if not (isinstance(ge, (ast.GeneratorExp, ast.ListComp)) and isinstance(ge.elt, ast.Tuple) and len(ge.elt.elts) == 2 and not any(g_.ifs for g_ in ge.generators)):
                raise Unsupported(f'{Q}: `{text(c)[:60]}` is not add_edges_from((source, target) for ...)')
            for g_ in ge.generators:
                loops[text(g_.target)] = text(g_.iter)
            a0, a1 = text(ge.elt.elts[0]), text(ge.elt.elts[1])
        else:
            a0, a1 = text(c.args[0]), text(c.args[1])
        loops = {k: alias.get(v, v) for k, v in loops.items()}
        ok = loops.get(a0) == rn and loops.get(a1) == ln
        R.check(ok, Q, f'edge-direction:{loops.get(a0)}->{loops.get(a1)}', 'edges run from each right-hand term to each left-hand term (source -> defined)',
                f'`{text(c)}` adds an edge from a term of `{loops.get(a0)}` to a term of `{loops.get(a1)}`; expected right-hand -> left-hand',
                where=f'{f.fi.module.relpath}:{c.lineno}')
        R.check(set(loops.values()) >= {ln, rn}, Q, 'edge-all-pairs', 'every (right-hand term, left-hand term) pair gets an edge', 'the edge loops do not cover both term lists',
                where=f.fi.where)
    g = [x for x in ast.walk(f.fi.node) if is_call(x, 'nx.DiGraph', 'networkx.DiGraph', 'DiGraph')]
    R.check(bool(g), Q, 'digraph', 'the graph is directed', 'the graph is not a DiGraph', where=f.fi.where)


def run(R) -> None:
    R.explanation = (
        'C20 (thin): symbols_to_graph tokenises with the term_re object imported from the parser, splits each normalised equation at '
        'the first `=` as the parser does, adds left-hand terms as nodes with the equation and edges right-hand -> left-hand for every '
        'pair; by C01.R3 (re-evaluated here) the normalised equation and the executed code are one template over one term list, so '
        'the right-hand terms are exactly the series elements the statement reads. Does not decide the perturbation semantics.'
    )
    R.rule('C20.R1', lambda: r1_same_tokeniser(R))
    R.rule('C20.R2', lambda: r2_nodes_edges(R))
    R.rule('C20.R4', lambda: r4_fresh_graph(R))
    # "every term with an edge into y is actually read when y is evaluated" also for the Fortran engine: its equations address
    # rows of one matrix by variable number, so the numbering must follow NAMES (C07.R1 owns the detail)
    from rules import c07
    R.rule('C20.R5', lambda: c07.r1_numbering(R))
    R.rule('C20.R3', lambda: (c01.r3_one_template(R), c01.r1_term_rendering(R)))
