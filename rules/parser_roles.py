"""Roles of the locals of `parse_terms.<locals>.process_term_match`, identified by what they are computed from
(not by their names): the match object, its group dictionary, the raw text of the INDEX group, the local that
becomes `Term.index_`, the local holding the name of the matched `_GROUP`."""

from __future__ import annotations

import ast
from typing import List, Optional

from fsa.match import has_fact, is_call, kwarg
from fsa.source import Unsupported, text
from rules.common import Fn

P = 'fsic.parser'
Q = f'{P}.parse_terms.<locals>.process_term_match'


def term_match_qualname(R) -> str:
    """The function that turns one regex match into a Term: the one (at any nesting) that `return`s `Term(...)` and
    takes the match as its parameter."""
    from fsa.source import AnchorMissing, iter_own_nodes
    if Q in R.repo.functions:
        return Q
    cands = []
    for q, fi in R.repo.functions.items():
        if q.startswith(P + '.') and fi.params() and any(isinstance(x, ast.Return) and is_call(x.value, 'Term') for x in iter_own_nodes(fi.node)):
            cands.append(q)
    if len(cands) != 1:
        raise AnchorMissing(f'function {Q} not found (functions returning Term(...): {cands})')
    return cands[0]


class TermMatch:
    def __init__(self, R) -> None:
        q_ = term_match_qualname(R)
        self.q = q_
        self.f = f = Fn(R, q_)
        ps = f.fi.params()
        if not ps:
            raise Unsupported(f'{q_}: no parameter')
        self.m = ps[0]
        self.raw_forms = [f"{self.m}.groupdict()['INDEX']", f"{self.m}.group('INDEX')", f"{self.m}['INDEX']"]
        self.ret = None
        self.term = None
        for r in f.returns():
            v = r.ast.value
            if isinstance(v, ast.Name):
                # `term = Term(...); ...; return term`
                vals = f.lf.values_reaching(r.id, v.id)
                built = [(s_, dv) for (s_, dv) in vals if dv is not None and is_call(dv, 'Term')]
                if built:
                    self.ret, self.term = f.cfg.nodes[built[0][0]], built[0][1]
                    continue
            if is_call(v, 'Term'):
                self.ret, self.term = r, v
        if self.term is None:
            raise Unsupported(f'{Q}: no `return Term(...)`')
        ix = kwarg(self.term, 'index_') or (self.term.args[2] if len(self.term.args) > 2 else None)
        if not isinstance(ix, ast.Name):
            raise Unsupported(f'{Q}: Term(index_=...) is not a local name')
        self.idx = ix.id

    def is_raw(self, nid: int, e: ast.AST) -> bool:
        return self.f.etext(nid, e) in self.raw_forms

    def raw_kind(self, nid: int, e: ast.AST) -> Optional[str]:
        """'whole' if `e` is the INDEX group text, 'slice' if a slice of it."""
        t = self.f.etext(nid, e)
        if t in self.raw_forms:
            return 'whole'
        x = self.f.expand(nid, e)
        if isinstance(x, ast.Subscript) and isinstance(x.slice, ast.Slice) and text(x.value) in self.raw_forms:
            return 'slice'
        if isinstance(x, ast.Call) and isinstance(x.func, ast.Attribute) and x.func.attr in ('strip', 'lstrip', 'rstrip') and text(x.func.value) in self.raw_forms:
            return 'slice'
        return None

    def raw_is_none(self, facts) -> bool:
        return any(has_fact(facts, f'{r} is None') for r in self.raw_forms)

    def xfacts(self, d) -> List:
        """Facts of a virtual definition with locals read through."""
        from fsa.match import nnf_atoms
        out = []
        for t in d.facts:
            a, tr = t[0], t[1]
            x = self.f.expand(d.node.id, a)
            if text(x) != text(a):
                out += nnf_atoms(x, tr)
            else:
                out.append((a, tr))
        return out

    def index_leaves(self):
        """[(facts, value)] of the expression handed to `Term(index_=...)`: its gated value (helpers read through,
        the match's group dictionary read through) split at every conditional."""
        from fsa.gated import SymExec, canon, leaves
        se = self.f.symexec()
        ix = kwarg(self.term, 'index_') or self.term.args[2]
        v = canon(se.value(self.ret.ast, ix))
        return leaves(v)

    def norm_raw(self, t: str) -> str:
        """Text with every way of reading the INDEX group written the same way."""
        for r in self.raw_forms:
            t = t.replace(r, '<INDEX>')
        return t

    def groupdict_names(self) -> List[str]:
        out = []
        for n in self.f.cfg.nodes:
            a = n.ast
            if n.kind == 'stmt' and isinstance(a, ast.Assign) and len(a.targets) == 1 and isinstance(a.targets[0], ast.Name) \
                    and text(a.value) == f'{self.m}.groupdict()':
                out.append(a.targets[0].id)
        return out


def returned_sides(f: Fn):
    """Names of the left-hand and right-hand term lists of `parse_equation_terms`: the two parts of the returned
    concatenation (`a + b`, `[*a, *b]`, `list(chain(a, b))`)."""
    rets = f.returns()
    if len(rets) != 1 or rets[0].ast.value is None:
        raise Unsupported(f'{f.q}: expected one return of the term list')
    rv = rets[0].ast.value
    parts = []
    if isinstance(rv, ast.BinOp) and isinstance(rv.op, ast.Add):
        parts = [rv.left, rv.right]
    elif isinstance(rv, ast.List) and len(rv.elts) == 2 and all(isinstance(e, ast.Starred) for e in rv.elts):
        parts = [e.value for e in rv.elts]
    elif is_call(rv, 'list') and len(rv.args) == 1 and is_call(rv.args[0], 'itertools.chain', 'chain') and len(rv.args[0].args) == 2:
        parts = list(rv.args[0].args)
    if len(parts) != 2:
        raise Unsupported(f'{f.q}: return `{text(rv)[:60]}` is not the concatenation of two term lists')
    return rets[0], parts
