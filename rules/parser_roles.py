"""Roles of the locals of `parse_terms.<locals>.process_term_match`, identified by what they are computed from
(not by their names): the match object, its group dictionary, the raw text of the INDEX group, the local that
becomes `Term.index_`, the local holding the name of the matched `_GROUP`."""

from __future__ import annotations

import ast
from typing import List, Optional

from fsa.match import has_fact, is_call, is_const, kwarg, method_call
from fsa.source import Unsupported, text
from rules.common import Fn

P = 'fsic.parser'
Q = f'{P}.parse_terms.<locals>.process_term_match'


def term_match_qualname(R) -> str:
    """The function that turns one regex match into a Term: the one (at any nesting) that `return`s `Term(...)` and
    takes the match as its parameter."""
    from fsa.source import AnchorMissing, iter_own_nodes
    if Q in R.repo.functions:
        return Q
    cands = []
    for q, fi in R.repo.functions.items():
        if q.startswith(P + '.') and fi.params() and any(isinstance(x, ast.Return) and is_call(x.value, 'Term') for x in iter_own_nodes(fi.node)):
            cands.append(q)
    if len(cands) != 1:
        raise AnchorMissing(f'function {Q} not found (functions returning Term(...): {cands})')
    return cands[0]


class TermMatch:
    def __init__(self, R) -> None:
        q_ = term_match_qualname(R)
        self.q = q_
        self.f = f = Fn(R, q_)
        ps = f.fi.params()
        if not ps:
            raise Unsupported(f'{q_}: no parameter')
        self.m = ps[0]
        self.raw_forms = [f"{self.m}.groupdict()['INDEX']", f"{self.m}.group('INDEX')", f"{self.m}['INDEX']"]
        self.ret = None
        self.term = None
        for r in f.returns():
            v = r.ast.value
            if isinstance(v, ast.Name):
                # `term = Term(...); ...; return term`
                vals = f.lf.values_reaching(r.id, v.id)
                built = [(s_, dv) for (s_, dv) in vals if dv is not None and is_call(dv, 'Term')]
                if built:
                    self.ret, self.term = f.cfg.nodes[built[0][0]], built[0][1]
                    continue
            if is_call(v, 'Term'):
                self.ret, self.term = r, v
        # a return that is not the Term built here: a look-up in a memo table that the function fills itself is read (is its
        # key complete?); anything else is a way of producing terms that the rules do not see
        self.memo = []
        for r in f.returns():
            v = r.ast.value
            vals = [(r.id, v)] if not isinstance(v, ast.Name) else f.lf.values_reaching(r.id, v.id)
            for (s_, dv) in vals:
                if dv is not None and is_call(dv, 'Term'):
                    continue
                self.memo.append(self._memo(s_, dv, r))
        if self.term is None:
            raise Unsupported(f'{Q}: no `return Term(...)`')
        ix = kwarg(self.term, 'index_') or (self.term.args[2] if len(self.term.args) > 2 else None)
        if not isinstance(ix, ast.Name):
            raise Unsupported(f'{Q}: Term(index_=...) is not a local name')
        self.idx = ix.id

    # -- memoised terms -------------------------------------------------------------------------------------------------
    def _sources(self, nid: int, e: ast.AST, seen: set) -> set:
        """What the value of `e` at node `nid` is computed from: 'lastgroup' (which alternative of the pattern matched),
        'whole' (the matched text), 'groups' (texts of groups), other free names, 'opaque:<name>' for values not read."""
        from fsa.flow import PARAM
        f, m = self.f, self.m
        out: set = set()
        skip: set = set()
        bound = {y.id for c in ast.walk(e) if isinstance(c, ast.comprehension) for y in ast.walk(c.target) if isinstance(y, ast.Name)}
        for x in ast.walk(e):
            if id(x) in skip:
                continue
            if isinstance(x, (ast.ListComp, ast.GeneratorExp, ast.SetComp)) and len(x.generators) == 1 and method_call(x.generators[0].iter, 'items') \
                    and any(isinstance(c, ast.Compare) and isinstance(c.ops[0], ast.IsNot) and is_const(c.comparators[0], None) for i_ in x.generators[0].ifs for c in ast.walk(i_)):
                # the names of the groups that took part in the match: which alternative of the pattern matched
                src = self._sources(nid, x.generators[0].iter.func.value, set())
                if 'groups' in src:
                    out.add('alt')
            if isinstance(x, ast.Name) and x.id in bound:
                continue
            if isinstance(x, ast.Attribute) and isinstance(x.value, ast.Name) and x.value.id == m and x.attr == 'lastgroup':
                out.add('alt')
                skip.add(id(x.value))
            elif isinstance(x, ast.Call) and isinstance(x.func, ast.Attribute) and isinstance(x.func.value, ast.Name) and x.func.value.id == m:
                skip.add(id(x.func.value))
                if x.func.attr == 'group' and (not x.args or (len(x.args) == 1 and isinstance(x.args[0], ast.Constant) and x.args[0].value == 0)):
                    out.add('whole')
                elif x.func.attr in ('group', 'groupdict', 'groups'):
                    out.add('groups')
                else:
                    out.add(f'match.{x.func.attr}()')
            elif isinstance(x, ast.Subscript) and isinstance(x.value, ast.Name) and x.value.id == m:
                skip.add(id(x.value))
                out.add('whole' if isinstance(x.slice, ast.Constant) and x.slice.value == 0 else 'groups')
            elif isinstance(x, ast.Name) and isinstance(x.ctx, ast.Load):
                if x.id == m:
                    out.add('match-object')
                elif x.id in f.lf.locals:
                    for (s_, dv) in f.lf.values_reaching(nid, x.id):
                        key = (s_, x.id)
                        if key in seen:
                            continue
                        seen.add(key)
                        if s_ == PARAM:
                            out.add(f'param:{x.id}')
                        elif dv is None:
                            out.add(f'opaque:{x.id}')
                        else:
                            out |= self._sources(s_, dv, seen)
                            for (a, _tr, _t) in f.guard_atoms(s_):
                                out |= self._sources(_t.id, a, seen)
                elif x.id not in ('Term', 'Type', 'int', 'str', 'len', 'None', 'True', 'False', 'Optional', 'isinstance', 'tuple'):
                    out.add(f'name:{x.id}')
        return out

    def _memo(self, s_, dv, r):
        """(verdict, detail, where) for a returned value that is not `Term(...)` built in place."""
        f = self.f
        tbl = key = None
        if dv is not None and isinstance(dv, ast.Call) and isinstance(dv.func, ast.Attribute) and dv.func.attr == 'get' and isinstance(dv.func.value, ast.Name) and dv.args:
            tbl, key = dv.func.value.id, dv.args[0]
        elif isinstance(dv, ast.Subscript) and isinstance(dv.value, ast.Name):
            tbl, key = dv.value.id, dv.slice
        if tbl is None or tbl in f.lf.locals:
            return ('unknown', f'`return {text(r.ast.value)[:40]}` hands back a value that is not a Term built from this match (`{text(dv)[:50] if dv is not None else "?"}`)', f.where(r))
        stores = [n for n in f.cfg.nodes if n.kind == 'stmt' and isinstance(n.ast, ast.Assign) and isinstance(n.ast.targets[0], ast.Subscript)
                  and text(n.ast.targets[0].value) == tbl]
        if len(stores) != 1:
            return ('unknown', f'`{tbl}` is looked up for a ready-made term but is filled at {len(stores)} places in this function', f.where(r))
        st = stores[0]
        kread = self._sources(s_ if isinstance(s_, int) and s_ >= 0 else r.id, key, set())
        kstore = self._sources(st.id, st.ast.targets[0].slice, set())
        vsrc = self._sources(st.id, st.ast.value, set())
        if f.etext(st.id, st.ast.targets[0].slice) != f.etext(s_ if isinstance(s_, int) and s_ >= 0 else r.id, key):
            return ('unknown', f'`{tbl}` is read under `{text(key)[:40]}` and filled under `{text(st.ast.targets[0].slice)[:40]}`', f.where(st))
        vsrc.discard(f'name:{tbl}')
        kstore.discard(f'name:{tbl}')
        need = set(vsrc) - kstore
        if 'whole' in kstore and ('alt' in kstore or 'alt' not in vsrc):
            need -= {'groups'}      # the text of the groups is fixed by the matched text once the alternative is
        if not need:
            return ('ok', f'terms memoised in `{tbl}`: everything the term is computed from ({sorted(vsrc)}) is fixed by the key ({sorted(kstore)})', f.where(st))
        if 'alt' in need and 'whole' in kstore and not (need - {'alt', 'groups'}):
            # is the alternative that matched a function of the matched text alone?  Not when an alternative looks around it.
            from fsa import rx
            import re._constants as sc
            from fsa.consts import folder
            try:
                e_ = folder(f.R.repo, P).get('term_re')
                ctx = any(it[0] in (sc.ASSERT, sc.ASSERT_NOT) for a_ in rx.top_alternatives(rx.parse(e_.pattern, e_.flags)) for it in rx.walk(a_)
                          if not rx.is_word_boundary(it))
            except Exception:
                ctx = None
            if ctx:
                return ('bad', f'terms are memoised in `{tbl}` under the matched text alone (`{f.etext(st.id, st.ast.targets[0].slice)[:40]}`), but the term\'s type comes from which alternative of '
                               f'term_re matched, and that also depends on what follows the text (the look-ahead for `(` that makes a name a function): `exp` in `exp(X)` and the variable '
                               f'`exp` share one entry, so whichever is parsed first decides the type of the other', f.where(st))
        return ('unknown', f'terms are memoised in `{tbl}`: whether the key ({sorted(kstore)}) fixes everything the term is computed from ({sorted(vsrc)}) is not decided', f.where(st))

    def is_raw(self, nid: int, e: ast.AST) -> bool:
        return self.f.etext(nid, e) in self.raw_forms

    def raw_kind(self, nid: int, e: ast.AST) -> Optional[str]:
        """'whole' if `e` is the INDEX group text, 'slice' if a slice of it."""
        t = self.f.etext(nid, e)
        if t in self.raw_forms:
            return 'whole'
        x = self.f.expand(nid, e)
        if isinstance(x, ast.Subscript) and isinstance(x.slice, ast.Slice) and text(x.value) in self.raw_forms:
            return 'slice'
        if isinstance(x, ast.Call) and isinstance(x.func, ast.Attribute) and x.func.attr in ('strip', 'lstrip', 'rstrip') and text(x.func.value) in self.raw_forms:
            return 'slice'
        return None

    def raw_is_none(self, facts) -> bool:
        return any(has_fact(facts, f'{r} is None') for r in self.raw_forms)

    def xfacts(self, d) -> List:
        """Facts of a virtual definition with locals read through."""
        from fsa.match import nnf_atoms
        out = []
        for t in d.facts:
            a, tr = t[0], t[1]
            x = self.f.expand(d.node.id, a)
            if text(x) != text(a):
                out += nnf_atoms(x, tr)
            else:
                out.append((a, tr))
        return out

    def index_leaves(self):
        """[(facts, value)] of the expression handed to `Term(index_=...)`: its gated value (helpers read through,
        the match's group dictionary read through) split at every conditional."""
        from fsa.gated import SymExec, canon, leaves
        se = self.f.symexec()
        ix = kwarg(self.term, 'index_') or self.term.args[2]
        v = canon(se.value(self.ret.ast, ix))
        return leaves(v)

    def norm_raw(self, t: str) -> str:
        """Text with every way of reading the INDEX group written the same way."""
        for r in self.raw_forms:
            t = t.replace(r, '<INDEX>')
        return t

    def groupdict_names(self) -> List[str]:
        out = []
        for n in self.f.cfg.nodes:
            a = n.ast
            if n.kind == 'stmt' and isinstance(a, ast.Assign) and len(a.targets) == 1 and isinstance(a.targets[0], ast.Name) \
                    and text(a.value) == f'{self.m}.groupdict()':
                out.append(a.targets[0].id)
        return out


def returned_sides(f: Fn):
    """Names of the left-hand and right-hand term lists of `parse_equation_terms`: the two parts of the returned
    concatenation (`a + b`, `[*a, *b]`, `list(chain(a, b))`)."""
    rets = f.returns()
    if len(rets) != 1 or rets[0].ast.value is None:
        raise Unsupported(f'{f.q}: expected one return of the term list')
    rv = rets[0].ast.value
    parts = []
    if isinstance(rv, ast.BinOp) and isinstance(rv.op, ast.Add):
        parts = [rv.left, rv.right]
    elif isinstance(rv, ast.List) and len(rv.elts) == 2 and all(isinstance(e, ast.Starred) for e in rv.elts):
        parts = [e.value for e in rv.elts]
    elif is_call(rv, 'list') and len(rv.args) == 1 and is_call(rv.args[0], 'itertools.chain', 'chain') and len(rv.args[0].args) == 2:
        parts = list(rv.args[0].args)
    if len(parts) != 2:
        raise Unsupported(f'{f.q}: return `{text(rv)[:60]}` is not the concatenation of two term lists')
    return rets[0], parts
