"""Roles of the locals of `parse_terms.<locals>.process_term_match`, identified by what they are computed from
(not by their names): the match object, its group dictionary, the raw text of the INDEX group, the local that
becomes `Term.index_`, the local holding the name of the matched `_GROUP`."""

from __future__ import annotations

import ast
from typing import List, Optional

from fsa.match import has_fact, is_call, kwarg
from fsa.source import Unsupported, text
from rules.common import Fn

P = 'fsic.parser'
Q = f'{P}.parse_terms.<locals>.process_term_match'


class TermMatch:
    def __init__(self, R) -> None:
        self.f = f = Fn(R, Q)
        ps = f.fi.params()
        if not ps:
            raise Unsupported(f'{Q}: no parameter')
        self.m = ps[0]
        self.raw_forms = [f"{self.m}.groupdict()['INDEX']", f"{self.m}.group('INDEX')", f"{self.m}['INDEX']"]
        self.ret = None
        self.term = None
        for r in f.returns():
            v = r.ast.value
            if is_call(v, 'Term'):
                self.ret, self.term = r, v
        if self.term is None:
            raise Unsupported(f'{Q}: no `return Term(...)`')
        ix = kwarg(self.term, 'index_') or (self.term.args[2] if len(self.term.args) > 2 else None)
        if not isinstance(ix, ast.Name):
            raise Unsupported(f'{Q}: Term(index_=...) is not a local name')
        self.idx = ix.id

    def is_raw(self, nid: int, e: ast.AST) -> bool:
        return self.f.etext(nid, e) in self.raw_forms

    def raw_kind(self, nid: int, e: ast.AST) -> Optional[str]:
        """'whole' if `e` is the INDEX group text, 'slice' if a slice of it."""
        t = self.f.etext(nid, e)
        if t in self.raw_forms:
            return 'whole'
        x = self.f.expand(nid, e)
        if isinstance(x, ast.Subscript) and isinstance(x.slice, ast.Slice) and text(x.value) in self.raw_forms:
            return 'slice'
        if isinstance(x, ast.Call) and isinstance(x.func, ast.Attribute) and x.func.attr in ('strip', 'lstrip', 'rstrip') and text(x.func.value) in self.raw_forms:
            return 'slice'
        return None

    def raw_is_none(self, facts) -> bool:
        return any(has_fact(facts, f'{r} is None') for r in self.raw_forms)

    def xfacts(self, d) -> List:
        """Facts of a virtual definition with locals read through."""
        from fsa.match import nnf_atoms
        out = []
        for t in d.facts:
            a, tr = t[0], t[1]
            x = self.f.expand(d.node.id, a)
            if text(x) != text(a):
                out += nnf_atoms(x, tr)
            else:
                out.append((a, tr))
        return out

    def groupdict_names(self) -> List[str]:
        out = []
        for n in self.f.cfg.nodes:
            a = n.ast
            if n.kind == 'stmt' and isinstance(a, ast.Assign) and len(a.targets) == 1 and isinstance(a.targets[0], ast.Name) \
                    and text(a.value) == f'{self.m}.groupdict()':
                out.append(a.targets[0].id)
        return out
