"""C16 - eval() and the time-series helpers compute what their definitions say."""

from __future__ import annotations

import ast
from typing import Dict, List, Optional, Set

from fsa.cfg import raised_class
from fsa.effects import direct_writes
from fsa.flow import PARAM
from fsa.match import Unknown, affine, cmp_of, Cmp, dotted, is_call, is_const, is_self_call, kwarg, method_call
from fsa.source import Unsupported, iter_own_nodes, stmt_key, text
from rules.common import Fn
from rules.solver_common import expr

F = 'fsic.functions'
VC = 'fsic.core.containers.VectorContainer'
FRESH_CALLS = {'np.roll', 'numpy.roll', 'np.array', 'np.copy', 'np.full', 'np.empty', 'np.zeros', 'np.ones', 'np.full_like', 'np.empty_like', 'np.concatenate', 'np.hstack'}


def _fresh(f: Fn, nid: int, name: str, params: Set[str], depth: int = 0) -> Optional[str]:
    """None if every reaching definition of `name` is a fresh array; else why not."""
    if depth > 5:
        return 'definition chain too long'
    for (site, v) in f.lf.values_reaching(nid, name):
        if site == PARAM:
            return f'`{name}` is the parameter itself'
        if v is None:
            return f'`{name}` has a non-simple definition'
        if isinstance(v, ast.Call) and (dotted(v.func) in FRESH_CALLS or method_call(v, 'copy', 'astype')):
            continue
        if isinstance(v, ast.BinOp):
            continue  # arithmetic creates a new array
        if isinstance(v, ast.Name):
            w = _fresh(f, site, v.id, params, depth + 1)
            if w:
                return w
            continue
        return f'`{name} = {text(v)[:40]}` may alias its argument'
    return None


def r1_no_input_writes(R) -> None:
    n = 0
    for fn in ('shift', 'lag', 'lead', 'diff', 'dlog'):
        q = f'{F}.{fn}'
        f = Fn(R, q)
        params = set(f.fi.params())
        stores = []
        for node in f.cfg.nodes:
            a = node.ast
            if node.kind == 'stmt' and isinstance(a, (ast.Assign, ast.AugAssign)):
                tg = a.targets if isinstance(a, ast.Assign) else [a.target]
                for t in tg:
                    if isinstance(t, ast.Subscript) and isinstance(t.value, ast.Name):
                        stores.append((node, t.value.id))
                    if isinstance(a, ast.AugAssign) and isinstance(t, ast.Name) and t.id in params:
                        stores.append((node, t.id))
        for (node, name) in stores:
            n += 1
            why = _fresh(f, node.id, name, params)
            R.check(why is None, q, f'input-write:{stmt_key(node.ast)}', f'`{node.label()[:40]}` writes a fresh array',
                    f'`{node.label()[:50]}` may write the caller\'s array: {why}', where=f.where(node))
        if not stores:
            R.ok(q, 'no in-place store at all')
    R.expect(F, n, 3, 'in-place stores in the helper functions')


def _delegates(R, q: str, callee: str, want_args: List[str], want_kw: Dict[str, str]) -> None:
    f = Fn(R, q)
    rets = f.returns()
    if not R.require(q, len(rets), f'return {callee}(...)', fi=f.fi, pred=lambda x: isinstance(x, ast.Return)):
        return
    R.check(len(rets) == 1, q, 'single-return', 'a single delegating return', f'{len(rets)} return statements', where=f.fi.where)
    v = rets[0].ast.value
    if not is_call(v, callee):
        R.violation(q, f'delegate:{text(v)[:50]}', f'`return {text(v)[:60]}` does not delegate to {callee}()', where=f.where(rets[0]), mismatch=True)
        return
    args = [text(a) for a in v.args]
    kws = {k.arg: text(k.value) for k in v.keywords}
    # allow positional or keyword for the second argument
    full = list(args)
    ok_args = True
    for i, w in enumerate(want_args):
        got = full[i] if i < len(full) else None
        if got is None:
            # maybe passed by keyword
            continue
        if affine(ast.parse(got, mode='eval').body) != affine(ast.parse(w, mode='eval').body) and got != w:
            ok_args = False
    for k, w in want_kw.items():
        if k in kws and kws[k] != w:
            ok_args = False
        if k not in kws and k == 'fill_value':
            ok_args = False
    if len(full) < len(want_args):
        missing = want_args[len(full):]
        # second argument by keyword (d=d / p=p)
        for w in missing:
            nm = w.lstrip('-')
            if kws.get(nm) != w:
                ok_args = False
    R.check(ok_args, q, f'delegate-args:{text(v)}', f'{q.split(".")[-1]} = {callee}({", ".join(want_args)}, fill_value=fill_value)',
            f'`return {text(v)}`: expected {callee}({", ".join(want_args)}, fill_value=fill_value)', where=f.where(rets[0]))


def r2_definitions(R) -> None:
    _delegates(R, f'{F}.lag', 'shift', ['x', 'p'], {'fill_value': 'fill_value'})
    _delegates(R, f'{F}.lead', 'shift', ['x', '-p'], {'fill_value': 'fill_value'})
    _delegates(R, f'{F}.dlog', 'diff', ['log(x)', 'd'], {'fill_value': 'fill_value'})
    # shift
    f = Fn(R, f'{F}.shift')
    rolled = [n for n in f.cfg.nodes if n.kind == 'stmt' and isinstance(n.ast, ast.Assign) and is_call(n.ast.value, 'np.roll')]
    copies = [n for n in f.cfg.nodes if n.kind == 'stmt' and isinstance(n.ast, ast.Assign) and isinstance(n.ast.targets[0], ast.Subscript)
              and isinstance(n.ast.value, ast.Subscript) and text(n.ast.value.value) == 'x']
    if not rolled and copies:
        # a slice bound `length - p` (or `length + p`) turns negative when |p| exceeds the length, and a negative bound counts
        # from the other end: it must stand under a fact that keeps it non-negative, or be clamped
        from fsa.match import entails
        LEN = ('x.shape[0]', 'len(x)', 'x.size')
        for n in copies:
            for sl_ in (n.ast.targets[0].slice, n.ast.value.slice):
                if not isinstance(sl_, ast.Slice):
                    continue
                for b_ in (sl_.lower, sl_.upper):
                    if b_ is None:
                        continue
                    e_ = f.expand(n.id, b_)
                    a_ = affine(e_)
                    if a_ is None or set(a_.terms) - set(LEN) - {'p'} or 'p' not in a_.terms or not (set(a_.terms) & set(LEN)):
                        continue
                    L_ = [k for k in a_.terms if k in LEN][0]
                    if a_.terms[L_] != 1 or a_.const != 0 or a_.terms['p'] not in (1, -1):
                        continue
                    facts = f.xguard_atoms(n.id)
                    need = f'p < {L_}' if a_.terms['p'] == -1 else f'-p < {L_}'
                    alt = f'p <= {L_}' if a_.terms['p'] == -1 else f'-p <= {L_}'
                    safe = any(entails(facts, ast.parse(t_, mode='eval').body, True) for t_ in (need, alt))
                    R.check(safe, f.q, f'negative-slice-bound:{text(b_)}', f'the slice bound `{text(b_)}` cannot turn negative where it is used',
                            f'`{text(n.ast)[:60]}`: the bound `{text(b_)}` (= {text(e_)}) is negative when |p| exceeds the length of `x`, and a negative bound counts from the '
                            f'other end of the array: shifting by more than the length copies from the wrong place or fails on a length mismatch (no `{need}` guard, no clamp)',
                            where=f.where(n))
        raise Unknown(f'{f.q}: the shift is made by copying slices of `x` directly (`{text(copies[0].ast)[:50]}`), not by np.roll(): the slice arithmetic is not read')
    if R.require(f.q, len(rolled), 'shifted = np.roll(x, shift=p)', fi=f.fi, pred=lambda x: is_call(x, 'np.roll')):
        c = rolled[0].ast.value
        sh = kwarg(c, 'shift') or (c.args[1] if len(c.args) > 1 else None)
        R.check(text(c.args[0]) == 'x' and sh is not None and text(sh) == 'p', f.q, 'roll:' + text(c), 'elements move p places to the right', f'`{text(c)}` is not np.roll(x, shift=p)',
                where=f.where(rolled[0]))
    fills = [n for n in f.cfg.nodes if n.kind == 'stmt' and isinstance(n.ast, ast.Assign) and isinstance(n.ast.targets[0], ast.Subscript)
             and isinstance(n.ast.targets[0].slice, ast.Slice)]
    seen = set()
    pos = Cmp('<', affine(expr('-p')))  # p > 0
    for n in fills:
        sl = text(n.ast.targets[0].slice)
        sign = None
        for (a, truth, _t) in f.guard_atoms(n.id):
            c = cmp_of(a)
            if c is not None and c.as_int() == pos.as_int():
                sign = 'pos' if truth else 'nonpos'
            if c is not None and c.as_int() == Cmp('<', affine(expr('p'))).as_int():
                sign = 'neg' if truth else 'nonneg'
        want = {'pos': ':p', 'nonpos': 'p:', 'neg': 'p:'}.get(sign)
        seen.add(sign)
        R.check(want is not None and sl == want and text(n.ast.value) == 'fill_value', f.q, f'fill:{sign}:{sl}',
                f'p {"> 0" if sign == "pos" else "< 0"}: positions that have no source are filled ({want})',
                f'on the `{sign}` branch `{text(n.ast)}` fills the wrong end (expected `[{want}] = fill_value`)', where=f.where(n))
    R.check('pos' in seen and ('nonpos' in seen or 'neg' in seen), f.q, 'fill-both', 'both lags and leads are refilled', f'refill branches found: {seen}', where=f.fi.where)
    # diff
    g = Fn(R, f'{F}.diff')
    for r in g.returns():
        v = r.ast.value
        atoms = [(text(a), truth) for (a, truth, _t) in g.guard_atoms(r.id)]
        if isinstance(v, ast.Name) and v.id in g.fi.params():
            about_d = [t for (a, tr, _t) in g.guard_atoms(r.id) for t in [text(a)] if tr and v.id not in {y.id for y in ast.walk(a) if isinstance(y, ast.Name)}]
            R.violation(g.q, f'diff-returns-input:{";".join(about_d)}',
                        f'`return {v.id}` under {[t for t, tr in atoms if tr]}: returns the input array itself; the stated formula x[i] - x[i-d] gives zeros for d = 0 '
                        f'(and the caller receives an alias of its input)', where=g.where(r))
            continue
        if isinstance(v, ast.Name):
            vals = g.lf.values_reaching(r.id, v.id)
            for (s, dv) in vals:
                # skip definitions that cannot reach through a raise
                ok = dv is not None and isinstance(dv, ast.BinOp) and isinstance(dv.op, ast.Sub) and text(dv.left) == 'x' and is_call(dv.right, 'lag', 'lead') \
                    and text(dv.right.args[0]) == 'x' and text(dv.right.args[1]) == 'd'
                if dv is not None and is_call(getattr(dv, 'right', None), 'lead'):
                    continue  # dead code after the NotImplementedError
                R.check(ok, g.q, f'diff-def:{text(dv)[:50] if dv is not None else "?"}', 'diff = x - lag(x, d)', f'`{v.id} = {text(dv)[:60] if dv is not None else "?"}` is not x - lag(x, d, ...)',
                        where=g.where(g.cfg.nodes[s]) if s != PARAM else g.fi.where)
    refills = [n for n in g.cfg.nodes if n.kind == 'stmt' and isinstance(n.ast, ast.Assign) and isinstance(n.ast.targets[0], ast.Subscript)
               and text(n.ast.targets[0].slice) == ':d' and g.cfg.reaches(g.cfg.entry, n.id)]
    R.check(any(text(n.ast.value) == 'fill_value' for n in refills), g.q, 'diff-refill', 'the first d elements are fill_value', 'no `differenced[:d] = fill_value`', where=g.fi.where)
    R.check(bool(g.raises('NotImplementedError')), g.q, 'diff-negative', 'd < 0 is refused', 'd < 0 is not refused', where=g.fi.where)


def _stmt_of(fnode, se, node):
    best = None
    for s_ in ast.walk(fnode):
        if isinstance(s_, ast.stmt) and id(s_) in se.before and any(x is node for x in ast.walk(s_)):
            if best is None or any(x is s_ for x in ast.walk(best)):
                best = s_
    if best is None:
        raise Unsupported('statement not visited by the symbolic evaluator')
    return best


def _eval_namespace(R):
    """(Fn, eval call, layers of the namespace handed to eval): the namespace as `base | layer | layer`, read by the
    gated symbolic evaluator whatever intermediate names the function uses."""
    from fsa.gated import SymExec, canon, merge_layers
    q = f'{VC}.eval'
    f = Fn(R, q)
    ev = [x for x in ast.walk(f.fi.node) if is_call(x, 'eval')]
    if not R.require(q, len(ev), 'eval(expression, globals, locals_)', fi=f.fi, pred=lambda x: is_call(x, 'eval')):
        return f, None, None
    c = ev[0]
    if len(c.args) != 3:
        R.violation(q, 'eval-call:' + text(c)[:50], f'`{text(c)[:60]}` is not eval(expression, globals, <namespace>)', where=f.fi.where, mismatch=True)
        return f, c, None
    se = f.symexec()
    ns = canon(se.value(_stmt_of(f.fi.node, se, c), c.args[2]))
    return f, c, merge_layers(ns)


def r3_precedence(R) -> None:
    q = f'{VC}.eval'
    f, c, layers = _eval_namespace(R)
    if layers is None:
        return
    a = [text(z) for z in c.args]
    R.check(a[:2] == ['expression', 'globals'], q, 'eval-call:' + ','.join(a), 'the expression is evaluated with the given globals', f'eval({", ".join(a)})', where=f.fi.where)
    kinds = []
    for (e, cond, tr) in layers:
        if isinstance(e, ast.DictComp) and text(e.generators[0].iter) in ('self.index', "self.__dict__['index']"):
            kinds.append('variables')
            R.check(text(e.key) == text(e.generators[0].target) and text(e.value) in (f'self[{text(e.key)}]', f'self.__getitem__({text(e.key)})') and not e.generators[0].ifs
                    and cond is None, q, 'variables-bound', 'every variable name is bound to its series', f'`{text(e)}`', where=f.fi.where)
        elif text(e) == 'locals':
            kinds.append('locals')
            okc = cond is None or (text(cond) == 'locals is None' and tr is False)
            R.check(okc, q, 'locals-always', 'caller locals are applied whenever given', f'caller locals are applied only if `{text(cond) if cond is not None else ""}` is {tr}', where=f.fi.where)
        elif any(isinstance(x, ast.Name) and x.id in ('builtins', '_builtins') for x in ast.walk(e)):
            kinds.append('helpers')
        else:
            kinds.append('?:' + text(e)[:40])
    unknown = [k for k in kinds if k.startswith('?:')]
    if unknown:
        raise Unsupported(f'{q}: namespace layer `{unknown[0][2:]}` not recognised')
    R.check('variables' in kinds, q, 'layer-variables', 'the namespace holds the container variables', f'namespace layers: {kinds}', where=f.fi.where)
    R.check('locals' in kinds, q, 'layer-locals', 'the namespace holds the caller locals', f'namespace layers: {kinds}', where=f.fi.where)
    if 'variables' in kinds and 'locals' in kinds:
        R.check(kinds.index('variables') < kinds.index('locals'), q, 'order-variables-before-locals', 'caller locals are applied after (so override) the variables',
                f'namespace layers are applied in the order {kinds}: the container variables would override caller locals', where=f.fi.where)
    R.check(kinds[:1] == ['helpers'] and kinds.count('helpers') == 1, q, 'starts-from-builtins', 'the namespace starts from the helper table (lowest precedence)',
            f'namespace layers are {kinds}: the helper table is not the lowest-precedence layer', where=f.fi.where)


def r4_helper_table(R) -> None:
    q = f'{VC}.eval'
    f, c, layers = _eval_namespace(R)
    if layers:
        base = layers[0][0]
        ok = False
        if isinstance(base, ast.IfExp) and text(base.test) == 'builtins is None' and text(base.orelse) == 'builtins':
            v = base.body
            if is_call(v, 'copy.deepcopy', 'copy.copy', 'dict') and len(v.args) == 1 and text(v.args[0]) == '_builtins':
                ok = True
            elif isinstance(v, ast.Dict) and len(v.keys) == 1 and v.keys[0] is None and text(v.values[0]) == '_builtins':
                ok = True
            elif method_call(v, 'copy') and text(v.func.value) == '_builtins':
                ok = True
            elif text(v) == '_builtins':
                R.violation(q, 'helper-table-aliased', 'the package-level helper table itself becomes the namespace and is updated with the container variables', where=f.fi.where)
                return
        elif text(base) == '_builtins' or (isinstance(base, ast.IfExp) and '_builtins' in (text(base.body), text(base.orelse))):
            R.violation(q, 'helper-table-aliased', 'the package-level helper table itself becomes the namespace and is updated with the container variables', where=f.fi.where)
            return
        elif not any(isinstance(x, ast.Name) and x.id == '_builtins' for x in ast.walk(base)):
            raise Unsupported(f'{q}: base of the namespace `{text(base)[:70]}` does not mention the helper table')
        R.check(ok, q, 'helper-table-copied', 'the default helper table is a copy of the package-level one',
                f'the namespace starts as `{text(base)[:80]}`: not `copy.deepcopy(_builtins) if builtins is None else builtins`', where=f.fi.where)
    # _builtins is the functions table
    mod = R.repo.module('fsic.core.containers')
    imp = any(isinstance(s, ast.ImportFrom) and any(a.name == 'builtins' and a.asname == '_builtins' for a in s.names) for s in mod.tree.body)
    R.check(imp, 'fsic.core.containers', 'helper-import', '_builtins is fsic.functions.builtins', '`from ..functions import builtins as _builtins` not found')
    # no direct update on _builtins anywhere
    for fi in R.repo.all_functions():
        for x in ast.walk(fi.node):
            if isinstance(x, ast.Call) and isinstance(x.func, ast.Attribute) and x.func.attr in ('update', 'pop', 'clear', 'setdefault', '__setitem__') \
                    and text(x.func.value) == '_builtins':
                R.violation(fi.qualname, 'helper-table-mutated:' + text(x)[:40], f'`{text(x)[:50]}` mutates the package-level helper table', where=f'{fi.module.relpath}:{x.lineno}')


def r5_no_self_writes(R) -> None:
    for q in (f'{VC}.eval', f'{VC}._resolve_expression_indexes', f'{VC}._resolve_expression_indexes.<locals>.resolve_index_in_span',
              f'{VC}._resolve_expression_indexes.<locals>.resolve_indexes'):
        fi = R.repo.func(q)
        R.saw_function(fi)
        ws = direct_writes(fi.node, {'self'})
        from rules.solver_common import effects_of
        eff = effects_of(R.repo)
        bad = [x for x in ast.walk(fi.node) if is_self_call(x) and eff.method_writes(x.func.attr)]
        for (n, why) in ws:
            R.violation(q, 'writes-self:' + text(n)[:50], f'evaluation writes the container: {why}', where=f'{fi.module.relpath}:{getattr(n, "lineno", 0)}')
        for x in bad:
            R.violation(q, 'calls-writer:' + text(x.func), f'evaluation calls `{text(x.func)}()`, which may modify the container', where=f'{fi.module.relpath}:{x.lineno}')
        if not ws and not bad:
            R.ok(q, 'no write to the container')
        # nor does evaluation keep anything between calls: a namespace remembered at module level goes stale as soon as a
        # series is rebound (assigning a sequence to a variable installs a new array)
        from rules.c14 import global_writes
        from rules.common import module_bound_names
        for w in global_writes(fi, module_bound_names(R.repo, fi.module.name)):
            # a remembered namespace that is compared, array by array (identity), with what the container holds now before
            # it is used again is a validated cache: whether the validation is complete is not decided here
            ident = [c_ for c_ in ast.walk(fi.node) if isinstance(c_, ast.Compare) and len(c_.ops) == 1 and isinstance(c_.ops[0], (ast.Is, ast.IsNot))
                     and any(isinstance(y, ast.Subscript) for y in ast.walk(c_.left)) and not is_const(c_.comparators[0], None)
                     and any(isinstance(g_, (ast.GeneratorExp, ast.ListComp)) and any(y is c_ for y in ast.walk(g_)) for g_ in ast.walk(fi.node))]
            if ident:
                raise Unknown(f'{q}: `{text(w)[:60]}` remembers a namespace between evaluations, re-checked by identity (`{text(ident[0])[:50]}`) before reuse: '
                              f'a validated cache, whose completeness this rule does not decide')
            R.violation(q, 'eval-state:' + text(w)[:50], f'`{text(w)[:70]}` keeps state at module level between evaluations: a later eval() can compute with arrays the container '
                        f'no longer holds', where=f'{fi.module.relpath}:{w.lineno}')


def r6_nameerror(R) -> None:
    q = f'{VC}.eval'
    f = Fn(R, q)
    hs = [n for n in f.cfg.nodes if n.kind == 'except' and text(n.ast.type) == 'NameError']
    if not R.require(q, len(hs), 'except NameError as e', fi=f.fi, pred=lambda x: isinstance(x, ast.ExceptHandler)):
        return
    h = hs[0]
    rs = [x for x in ast.walk(h.ast) if isinstance(x, ast.Raise)]
    R.check(bool(rs), q, 'nameerror-raises', 'the handler raises', 'the NameError handler does not raise', where=f.where(h))
    for r in rs:
        ok = raised_class(r) == 'AttributeError' and isinstance(r.cause, ast.Name) and r.cause.id == h.ast.name
        R.check(ok, q, f'nameerror-to-attributeerror:{stmt_key(r)[:40]}', 'an undefined name is reported as AttributeError chained to the NameError',
                f'`{text(r)[:60]}` is not `raise AttributeError(...) from {h.ast.name}`', where=f'{f.fi.module.relpath}:{r.lineno}')
        msg = r.exc.args[0] if isinstance(r.exc, ast.Call) and r.exc.args else None
        rn = [n_ for n_ in f.cfg.nodes if n_.ast is r]
        names_it = False
        if msg is not None and rn:
            want_nm = f'{h.ast.name}.name'
            for x in ast.walk(msg):
                if isinstance(x, ast.Name) and isinstance(x.ctx, ast.Load) and f.etext(rn[0].id, x) == want_nm:
                    names_it = True
                if isinstance(x, ast.Attribute) and text(x) == want_nm:
                    names_it = True
        R.check(names_it, q, f'nameerror-names-it:{stmt_key(r)[:40]}', 'the message names the missing variable', 'the AttributeError message does not interpolate the missing name',
                where=f'{f.fi.module.relpath}:{r.lineno}')
    # the try wraps only the eval
    tr = h.handler_of
    R.check(tr is not None and len(tr.handlers) == 1, q, 'single-handler', 'only NameError is translated', 'other handlers around eval()', where=f.where(h))


def r7_label_provenance(R) -> None:
    q = f'{VC}._resolve_expression_indexes.<locals>.resolve_indexes'
    f = Fn(R, q)
    resolved_names = {text(d.ast.targets[0]) for d in f.cfg.nodes if d.kind == 'stmt' and isinstance(d.ast, ast.Assign) and len(d.ast.targets) == 1
                      and isinstance(d.ast.targets[0], ast.Name) and is_call(d.ast.value, 'resolve_index_in_span')}
    incs = [n for n in f.cfg.nodes if n.kind == 'stmt' and isinstance(n.ast, ast.AugAssign) and text(n.ast.target) in resolved_names]
    if not R.require(q, len(incs), 'stop += 1 (inclusive label slices)', fi=f.fi, pred=lambda x: isinstance(x, ast.AugAssign)):
        return
    n = incs[0]
    R.check(isinstance(n.ast.op, ast.Add) and is_const(n.ast.value, 1) and len(incs) == 1, q, 'inclusive:' + text(n.ast), 'a label stop is made inclusive by +1', f'`{text(n.ast)}`',
            where=f.where(n))
    sname = text(n.ast.target)
    atoms = [(a, truth, tn) for (a, truth, tn) in f.guard_atoms(n.id)]
    resolved = [d for d in f.assigns_to(sname) if is_call(d.ast.value, 'resolve_index_in_span')]
    # some guard must carry label provenance *of the stop itself*: "'`' in <stop text>", evaluated on the text, i.e.
    # before the stop is rebound to a position - directly, or through a name defined that way
    label_guard = False

    def on_stop_text(cmp_: ast.AST, at: int) -> bool:
        return isinstance(cmp_, ast.Compare) and len(cmp_.ops) == 1 and isinstance(cmp_.ops[0], ast.In) and is_const(cmp_.left, '`') and text(cmp_.comparators[0]) == sname \
            and all(at in f.dom[d.id] for d in resolved) and all(not f.cfg.reaches(d.id, at) for d in resolved)

    for (a, truth, tn) in atoms:
        if not truth:
            continue
        if isinstance(a, ast.Name):
            for (s, dv) in f.lf.values_reaching(n.id, a.id):
                if dv is not None and on_stop_text(dv, s):
                    label_guard = True
        if on_stop_text(a, tn.id):
            label_guard = True
    int_guard = any(truth and text(a) == f'isinstance({sname}, int)' for (a, truth, _tn) in atoms)
    R.check(label_guard, q, 'label-only-increment', 'the inclusive +1 applies only to stops written as backticked labels',
            'the +1 on `stop` is not conditional on the stop having been a backticked label: purely positional slices (X[0:2]) are extended to X[0:3] '
            'whenever the expression contains a backtick elsewhere', where=f.where(n), path=f.path_to(n))
    R.check(int_guard, q, 'int-only-increment', 'the +1 applies only to integer positions (slice hits already carry an exclusive stop)',
            'the +1 is not restricted to integer stops', where=f.where(n))
    # a bracket that holds no backtick at all is not a label index: it must come through the rewriting as written - whatever
    # it is (a name, an expression, a hexadecimal literal, a list), not only a decimal integer literal
    m_ = (f.fi.params() + ['match'])[0]
    asis = [r for r in f.returns() if text(r.ast.value) in (f'{m_}.group(0)', f'{m_}.group()', f'{m_}[0]')]
    first_work = [n2 for n2 in f.cfg.nodes if n2.kind == 'stmt' and n2.ast is not None and any(method_call(x, 'split') or is_call(x, 'resolve_index_in_span') for x in ast.walk(n2.ast))]
    # the rewriting proper runs only on brackets that do hold a backtick; every other bracket leaves by the as-written return
    has_tick = lambda nid: any(f.holds(nid, t_, tr_) for (t_, tr_) in ((f"'`' not in {m_}.group(1)", False), (f"'`' in {m_}.group(1)", True), (f"'`' not in {m_}[1]", False), (f"'`' in {m_}[1]", True)))
    ok_asis = bool(asis) and bool(first_work) and all(has_tick(w.id) for w in first_work)
    R.check(ok_asis, q, 'positional-as-written', 'an index without any backtick is left exactly as written',
            "every `[...]` of an expression that contains a backtick somewhere is rewritten, and parts without backticks are re-read with int(): `X[`2001`] + Y[i]`, "
            "`... + Y[0x1]`, `... + Y[B][0]`, `... + Y[[0, 1]]` raise ValueError although each index is fine on its own - a purely positional index does not keep its Python meaning",
            where=f.fi.where)
    # resolve_index_in_span: positional text -> int(text); label -> span lookup
    g = Fn(R, f'{VC}._resolve_expression_indexes.<locals>.resolve_index_in_span')
    rets = g.returns()
    posr = [r for r in rets if is_call(r.ast.value, 'int')]
    lab = (g.fi.params() + ['label'])[0]
    ok = len(posr) == 1 and g.holds(posr[0].id, f"'`' not in {lab}")
    R.check(ok, g.q, 'positional-passthrough', 'an index without backticks keeps its positional meaning (int(text))',
            "no `if '`' not in label: return int(label.strip())`", where=g.fi.where)
    # the lookup of the label (returned as it is, or kept in a local and adjusted before it is returned)
    looks = [(n_, c_) for n_ in g.cfg.nodes if n_.ast is not None and n_.kind in ('stmt', 'test') for c_ in ast.walk(n_.ast) if is_self_call(c_, '_locate_period_in_span') and c_.args]
    labr = [n_ for (n_, c_) in looks if any(r.id == n_.id or g.cfg.reaches(n_.id, r.id) for r in rets)]
    R.check(len(labr) >= 1 and all(text(c_.args[0]) == 'period' for (_n, c_) in looks), g.q, 'label-lookup', 'a backticked label is located in the span',
            'labels are not resolved with _locate_period_in_span(period)', where=g.fi.where)
    ks = g.raises('KeyError')
    R.check(len(ks) >= 1, g.q, 'label-missing', 'an unknown label raises KeyError', 'unknown labels do not raise KeyError', where=g.fi.where)


def r8_bracket_pattern(R) -> None:
    """The pattern that finds the index brackets of an expression decides which labels can be written in backticks at all.
    Its contents part must accept any text (every character that can occur in a period label: `-`, `/`, `.`, blanks ...):
    a contents part restricted to a class of characters silently leaves the brackets of other labels unresolved, and the
    backticks then reach Python's own eval() (SyntaxError).  Read on the regex AST, whatever way the pattern is spelt."""
    import re._constants as sc  # type: ignore
    from fsa import rx
    from fsa.consts import folder, CompiledRegex
    q = f'{VC}._resolve_expression_indexes'
    f = Fn(R, q)
    pats = []
    fd = folder(R.repo, 'fsic.core.containers')
    for n in f.cfg.nodes:
        if n.ast is None:
            continue
        for x in ast.walk(n.ast):
            pat = None
            if is_call(x, 're.compile', 're.sub', 're.finditer') and x.args:
                pat = (x.args[0], kwarg(x, 'flags') or (x.args[1] if is_call(x, 're.compile') and len(x.args) > 1 else None))
            elif method_call(x, 'sub', 'finditer') and isinstance(x.func.value, ast.Name) and x.func.value.id not in f.lf.locals:
                try:
                    v = fd.get(x.func.value.id)
                except Exception:
                    v = None
                if isinstance(v, CompiledRegex):
                    pats.append((v.pattern, v.flags, f.where(n)))
                continue
            if pat is not None:
                try:
                    ptxt = fd.fold(pat[0]) if hasattr(fd, 'fold') else (pat[0].value if isinstance(pat[0], ast.Constant) else None)
                except Exception:
                    ptxt = pat[0].value if isinstance(pat[0], ast.Constant) else None
                flags = 0
                if pat[1] is not None:
                    try:
                        import re as _re
                        flags = int(eval(compile(ast.Expression(body=pat[1]), '<flags>', 'eval'), {'re': _re, '__builtins__': {}}))
                    except Exception:
                        flags = None
                if isinstance(ptxt, str) and flags is not None and ('[' in ptxt):
                    pats.append((ptxt, flags, f.where(n)))
    if not R.expect(q, len(pats), 1, 'pattern that finds the index brackets'):
        return
    ptxt, flags, where = pats[0]
    parsed = rx.parse(ptxt, flags)
    its = rx.items(parsed)
    opens = [i for i, it in enumerate(its) if rx.is_literal(it, '[')]
    closes = [i for i, it in enumerate(its) if rx.is_literal(it, ']')]
    if not opens or not closes or opens[0] >= closes[-1]:
        raise Unsupported(f'{q}: the bracket pattern `{ptxt[:40]}` is not `[` ... `]`')
    inner = its[opens[0] + 1:closes[-1]]
    restricted = []
    anyish = False
    for (op, av) in rx.walk(inner):
        if op in (sc.MAX_REPEAT, sc.MIN_REPEAT):
            body = rx.items(av[2])
            for (o2, a2) in body:
                if o2 is sc.ANY:
                    anyish = True
                elif o2 is sc.IN and not any(o3 is sc.NEGATE for (o3, _a3) in a2):
                    cls_ = rx.charclass((o2, a2))
                    if cls_ is None or not ({'-', '/', '.', ':'} <= cls_):
                        # a class made of whitespace only is the padding around the contents, not the contents
                        if not (cls_ is not None and cls_ <= set(' \t\n\r\f\v')) and not all(o3 is sc.CATEGORY and a3 is sc.CATEGORY_SPACE for (o3, a3) in a2):
                            restricted.append(cls_)
    R.check(anyish and not restricted, q, 'bracket-contents-any', 'the contents of an index bracket can be any text',
            f'the pattern that finds index brackets (`{ptxt.strip()[:60]}`) only accepts contents made of a restricted class of characters: a backticked label with any other '
            f'character (`-` in 2000-03-31 or in -2, `/`, `.`) is not recognised as an index at all, its backticks reach Python\'s eval() and the expression fails '
            f'with SyntaxError', where=where, decided=bool(restricted))


def r7b_int_contract(R) -> None:
    """`isinstance(stop, int)` is a consumer of the position type contract (C05.R5): span-search
    methods defined in the package must return Python ints, or label stops lose their inclusive +1."""
    from rules import c05
    c05.r5_position_type(R)


def run(R) -> None:
    R.explanation = (
        'C16: every in-place store in shift/lag/lead/diff/dlog has a receiver whose reaching definitions are all fresh arrays; lag/lead/'
        'dlog delegate with the stated arguments; shift refills [:p] for p > 0 and [p:] otherwise; every return of diff is x - lag(x, d) '
        '(the d == 0 shortcut returning the input is K6); eval: namespace populated helper table -> variables -> caller locals by '
        'dominance, default helper table deep-copied, no write to self, NameError -> AttributeError from e naming the variable; label '
        'provenance of the inclusive +1 in expression indexes. Does not decide numeric definitions at boundary shifts.'
    )
    R.rule('C16.R1', lambda: r1_no_input_writes(R))
    R.rule('C16.R2', lambda: r2_definitions(R))
    R.rule('C16.R3', lambda: r3_precedence(R))
    R.rule('C16.R4', lambda: r4_helper_table(R))
    R.rule('C16.R5', lambda: r5_no_self_writes(R))
    R.rule('C16.R6', lambda: r6_nameerror(R))
    R.rule('C16.R7', lambda: (r7_label_provenance(R), r7b_int_contract(R)))
    R.rule('C16.R8', lambda: r8_bracket_pattern(R))
